"""A battery of exchanges against a REAL master with one worker of a given class (sync / gthread / gevent / eventlet), on a
unix socket: what the scripted sockets and the worker wrappers of the harness stand in for, run on the code that stands behind
them (gevent's and eventlet's own accept loops, green sockets, the thread worker's poller, blocking modes, full buffers).

Three parts, judged by the property they belong to:
  bodies    (C07)  bodies arriving after their heads, in pieces, both framings, read in four ways / left unread, on one
                   connection for as long as the worker keeps it
  responses (C02)  6 MiB responses four ways, as first and second request of a connection, client pausing before it reads
  hostile   (C05)  malformed streams, each followed by a normal request; application calls counted in the worker
  records   (C19)  the access log (TCP bind, slow clients with a small receive window, error-log level warning for two of the
                   classes) against what the clients received: one record per completed request, its status and byte count
"""
import hashlib
import os
import socket
import time

import lib_arb2_real as R
import lib_gthread_real as G

APP = r'''
import hashlib, os, time
CALLS = {}
BLOCK = bytes((i * 13 + 5) % 253 for i in range(65536))
NBLOCKS = 96
BIGFILE = os.path.join(os.path.dirname(os.path.abspath(__file__)), "big.bin")
def app(environ, start_response):
    path = environ["PATH_INFO"]
    CALLS[path] = CALLS.get(path, 0) + 1
    inp = environ["wsgi.input"]
    def reply(text, status="200 OK"):
        body = text.encode()
        start_response(status, [("Content-Type", "text/plain"), ("Content-Length", str(len(body)))])
        return [body]
    if path == "/calls":
        return reply(";".join("%s=%d" % kv for kv in sorted(CALLS.items())) + ";pid=%d" % os.getpid())
    if path == "/small":
        return reply("ok pid=%d" % os.getpid())
    if path.startswith("/echo"):
        try:
            if path == "/echo-read":
                data = inp.read()
            elif path == "/echo-readn":
                data = b""
                while True:
                    blk = inp.read(700)
                    if not blk:
                        break
                    data += blk
            elif path == "/echo-readline":
                data = b""
                while True:
                    ln = inp.readline()
                    if not ln:
                        break
                    data += ln
            else:
                data = b"".join(inp)
        except Exception as e:
            return reply("wsgi.input raised %s: %s" % (type(e).__name__, e), "500 Input Error")
        return reply("%s %s %d" % (path, hashlib.sha1(data).hexdigest(), len(data)))
    if path == "/unread":
        return reply("/unread left alone")
    total = len(BLOCK) * NBLOCKS
    if path == "/big-cl":
        start_response("200 OK", [("Content-Length", str(total))])
        return (BLOCK for _ in range(NBLOCKS))
    if path == "/big-chunked":
        start_response("200 OK", [("Content-Type", "application/octet-stream")])
        return (BLOCK for _ in range(NBLOCKS))
    if path == "/big-write":
        write = start_response("200 OK", [("Content-Length", str(total))])
        for _ in range(NBLOCKS):
            write(BLOCK)
        return []
    if path == "/big-file":
        if not os.path.exists(BIGFILE):
            with open(BIGFILE + ".tmp", "wb") as fh:
                for _ in range(NBLOCKS):
                    fh.write(BLOCK)
            os.replace(BIGFILE + ".tmp", BIGFILE)
        start_response("200 OK", [("Content-Length", str(total))])
        return environ["wsgi.file_wrapper"](open(BIGFILE, "rb"), 65536)
    if path in ("/slow-chunked", "/slow-cl"):
        # a response that takes longer than the keep-alive time of the battery server (1 s): that time bounds the wait for the
        # NEXT request, not an exchange under way
        parts = [b"first-part;" * 50, b"second-part;" * 50]
        hdrs = [("Content-Type", "text/plain")]
        if path == "/slow-cl":
            hdrs.append(("Content-Length", str(sum(map(len, parts)))))
        start_response("200 OK", hdrs)
        def gen():
            yield parts[0]
            time.sleep(2.2)
            yield parts[1]
        return gen()
    return reply("no such path", "404 Not Found")
'''

BLOCK = bytes((i * 13 + 5) % 253 for i in range(65536))
NBLOCKS = 96
TOTAL = len(BLOCK) * NBLOCKS
_h = hashlib.sha1()
for _ in range(NBLOCKS):
    _h.update(BLOCK)
BIG_DIGEST = _h.hexdigest()

CLASSES = ("sync", "gthread", "gevent", "eventlet")


class BatteryServer(R.Server):
    def __init__(self, cls, extra=None, bind="unix", keepalive=5):
        R.Server.__init__(self, worker_class=cls, workers=1, graceful=3, bind=bind, keepalive=keepalive, timeout=30, extra=extra)
        if extra and "loglevel" in extra:
            self.cli_loglevel = None                # the error-log level comes from the configuration file
        with open(os.path.join(self.dir, "gvapp.py"), "w") as fh:
            fh.write(APP)

    def conn(self, timeout=15.0):
        return self.raw_connect(timeout=timeout)


def _exchange(srv, c, data_pieces, pause=0.0, wait=12.0):
    """send the pieces (pause between them), read one response -> (conn or None when closed, status, hdr, body, complete, err)"""
    try:
        for i, pc in enumerate(data_pieces):
            if i and pause:
                time.sleep(pause)
            c.sendall(pc)
    except OSError as e:
        return c, None, {}, b"", False, "send: " + type(e).__name__
    st, hd, body, complete, err = G.read_response(c, wait)
    return c, st, hd, body, complete, err


def part_bodies(cls):
    """-> list of failures (C07)"""
    fails = []
    srv = BatteryServer(cls)
    try:
        srv.start()
        lines_body = b"".join(b"line %04d of the body\n" % i for i in range(140))
        blob = bytes((i * 7 + 3) % 251 for i in range(3011))
        trap = b"GET /from-the-body HTTP/1.1\r\nHost: x\r\n\r\n" * 40
        steps = [
            ("GET", "/small", b"", False),
            ("POST", "/echo-read", blob, False),
            ("POST", "/echo-readn", blob, True),
            ("POST", "/echo-readline", lines_body, False),
            ("POST", "/echo-iter", lines_body, True),
            ("POST", "/unread", trap, False),
            ("POST", "/unread", trap[:1500], True),
            ("POST", "/echo-read", lines_body, True),
            ("GET", "/calls", b"", False),
        ]
        c = None
        for k, (method, path, body, chunked) in enumerate(steps):
            if c is None:
                c = srv.conn()
            what = "%s worker, request %d (%s %s, %s body of %d bytes sent after its head in pieces)" % (
                cls, k + 1, method, path, "chunked" if chunked else "Content-Length", len(body))
            head = "%s %s HTTP/1.1\r\nHost: x\r\n" % (method, path)
            pieces = []
            if method == "POST":
                head += "Transfer-Encoding: chunked\r\n" if chunked else "Content-Length: %d\r\n" % len(body)
                for i in range(0, len(body), 997):
                    pc = body[i:i + 997]
                    pieces.append((b"%x\r\n" % len(pc)) + pc + b"\r\n" if chunked else pc)
                if chunked:
                    pieces.append(b"0\r\n\r\n")
            if path == "/unread" and cls == "sync":
                # the sync worker answers and closes as soon as the application returns: the body travels with the head
                send = [head.encode() + b"\r\n" + b"".join(pieces)]
            else:
                send = [head.encode() + b"\r\n"] + pieces
            c, st, hd, got, complete, err = _exchange(srv, c, send, pause=0.06)
            if path.startswith("/echo"):
                want = ("%s %s %d" % (path, hashlib.sha1(body).hexdigest(), len(body))).encode()
                if st != 200 or not complete or got != want:
                    fails.append("%s: expected 200 with the digest of exactly the body; received status %r body %r%s"
                                 % (what, st, got[:120], (" (%s)" % err) if err else ""))
                    break
            elif path == "/calls":
                if st != 200 or not complete:
                    fails.append("%s: not answered: %r %r" % (what, st, err))
                    break
                seen = dict(kv.split("=") for kv in got.decode().split(";") if "=" in kv)
                if "/from-the-body" in seen:
                    fails.append("%s worker: bytes of an unread body were served as a request of their own (%s calls of /from-the-body)"
                                 % (cls, seen["/from-the-body"]))
                want_calls = {"/small": 1, "/echo-read": 2, "/echo-readn": 1, "/echo-readline": 1, "/echo-iter": 1, "/unread": 2}
                wrong = {p: seen.get(p) for p, n in want_calls.items() if str(n) != seen.get(p)}
                if wrong:
                    fails.append("%s worker: the application was not called exactly once per request sent: %r (expected %r)" % (cls, wrong, want_calls))
            elif st != 200 or not complete:
                fails.append("%s: not answered in full: status %r, %r%s" % (what, st, got[:80], (" (%s)" % err) if err else ""))
                break
            if hd.get("connection", "").lower() == "close" or cls == "sync":
                c.close()
                c = None
            time.sleep(0.1)
        if c is not None:
            c.close()
    except Exception as e:
        fails.append("harness: %s: %s | %s" % (type(e).__name__, e, srv.read_log()[-500:]))
    finally:
        srv.cleanup()
    return fails


def part_responses(cls):
    """-> list of failures (C02)"""
    fails = []
    srv = BatteryServer(cls, keepalive=1)
    try:
        srv.start()
        # slow responses (longer than the keep-alive time), followed by one more request on the same connection
        slow_want = b"first-part;" * 50 + b"second-part;" * 50
        for path in ("/slow-chunked", "/slow-cl"):
            c = srv.conn(timeout=15)
            what = "%s worker, %s (the response takes 2.2 s, keepalive is 1 s)" % (cls, path)
            try:
                c.sendall(("GET %s HTTP/1.1\r\nHost: x\r\n\r\n" % path).encode())
                st, hd, body, complete, err = G.read_response(c, 12)
                if st != 200 or not complete or body != slow_want:
                    fails.append("%s: the client received status %r, %d of %d body bytes, %s%s"
                                 % (what, st, len(body), len(slow_want), "complete framing" if complete else "framing CUT SHORT",
                                    (" (%s)" % err) if err else ""))
                elif hd.get("connection", "").lower() != "close" and cls != "sync":
                    c.sendall(b"GET /small HTTP/1.1\r\nHost: x\r\nConnection: close\r\n\r\n")
                    st2, hd2, body2, complete2, err2 = G.read_response(c, 8)
                    if st2 != 200 or not complete2 or not body2.startswith(b"ok pid="):
                        fails.append("%s: the next request on the same connection was answered with status %r body %r%s"
                                     % (what, st2, body2[:60], (" (%s)" % err2) if err2 else ""))
            except OSError as e:
                fails.append("%s: %s" % (what, type(e).__name__))
            finally:
                c.close()
        for path in ("/big-cl", "/big-chunked", "/big-write", "/big-file"):
            for second in (False, True):
                if second and cls == "sync":
                    continue                       # the sync worker closes after every response
                c = srv.conn(timeout=25)
                what = "%s worker, %s as the %s request of a connection" % (cls, path, "second" if second else "first")
                try:
                    if second:
                        c, st, hd, body, complete, err = _exchange(srv, c, [b"GET /small HTTP/1.1\r\nHost: x\r\n\r\n"])
                        if st != 200 or not complete:
                            fails.append("%s: the first (small) request was not answered: %r %r" % (what, st, err))
                            continue
                        if hd.get("connection", "").lower() == "close":
                            continue
                        time.sleep(0.2)
                    c.sendall(("GET %s HTTP/1.1\r\nHost: x\r\n\r\n" % path).encode())
                    time.sleep(0.6)                # the send buffers fill up before the client reads
                    st, hd, body, complete, err = G.read_response(c, 40)
                    if st != 200 or not complete or len(body) != TOTAL or hashlib.sha1(body).hexdigest() != BIG_DIGEST:
                        fails.append("%s: the application produced %d bytes, the client received status %r, %d body bytes, %s%s"
                                     % (what, TOTAL, st, len(body), "complete framing" if complete else "framing CUT SHORT",
                                        (" (%s)" % err) if err else ""))
                except OSError as e:
                    fails.append("%s: %s" % (what, type(e).__name__))
                finally:
                    c.close()
    except Exception as e:
        fails.append("harness: %s: %s | %s" % (type(e).__name__, e, srv.read_log()[-500:]))
    finally:
        srv.cleanup()
    return fails


HOSTILE = [
    ("space before the colon", b"GET /small HTTP/1.1\r\nHost : x\r\n\r\n"),
    ("bad request line", b"GET\r\n\r\n"),
    ("Content-Length and chunked", b"POST /echo-read HTTP/1.1\r\nHost: x\r\nContent-Length: 3\r\nTransfer-Encoding: chunked\r\n\r\n0\r\n\r\n"),
    ("two Content-Lengths", b"POST /echo-read HTTP/1.1\r\nHost: x\r\nContent-Length: 1\r\nContent-Length: 2\r\n\r\nab"),
    ("chunked on HTTP/1.0", b"POST /echo-read HTTP/1.0\r\nTransfer-Encoding: chunked\r\n\r\n0\r\n\r\n"),
    ("chunked not last", b"POST /echo-read HTTP/1.1\r\nHost: x\r\nTransfer-Encoding: chunked, gzip\r\n\r\n0\r\n\r\n"),
    ("NUL in a value", b"GET /small HTTP/1.1\r\nHost: x\r\nX-A: a\x00b\r\n\r\n"),
    ("request line too long", b"GET /" + b"a" * 9000 + b" HTTP/1.1\r\nHost: x\r\n\r\n"),
    ("binary junk", bytes(range(256)) * 3),
    ("truncated head, client leaves", b"GET /small HTTP/1.1\r\nHos"),
]


def part_hostile(cls):
    """-> list of failures (C05)"""
    fails = []
    srv = BatteryServer(cls)
    try:
        srv.start()

        def calls():
            c = srv.conn()
            c, st, hd, body, complete, err = _exchange(srv, c, [b"GET /calls HTTP/1.1\r\nHost: x\r\nConnection: close\r\n\r\n"])
            c.close()
            if st != 200:
                return None
            return dict(kv.split("=") for kv in body.decode().split(";") if "=" in kv)
        base = calls()
        if base is None:
            return ["harness: the battery application does not answer | " + srv.read_log()[-300:]]
        pid0 = base.get("pid")
        for name, data in HOSTILE:
            c = srv.conn(timeout=8)
            try:
                c.sendall(data)
                c.shutdown(socket.SHUT_WR)         # the client has said all it is going to say
            except OSError:
                pass
            raw = b""
            t_end = time.time() + 8
            closed = False
            while time.time() < t_end:
                try:
                    blk = c.recv(65536)
                except socket.timeout:
                    break
                except OSError:
                    closed = True
                    break
                if not blk:
                    closed = True
                    break
                raw += blk
            c.close()
            what = "%s worker, %s" % (cls, name)
            if not closed:
                fails.append("%s: the server did not close the connection within 8 s" % what)
            if raw:
                head = raw.split(b"\r\n\r\n", 1)[0]
                status = head.split(b"\r\n")[0].split()
                ok_status = len(status) >= 2 and status[1][:1] in (b"4", b"5")
                if not ok_status or raw.count(b"HTTP/1.") != 1 or b"connection: close" not in head.lower():
                    fails.append("%s: expected nothing or exactly one 4xx/5xx response marked Connection: close, received %r" % (what, raw[:160]))
            now = calls()
            if now is None:
                fails.append("%s: afterwards the worker does not serve a normal request" % what)
                break
            grown = {p: (base.get(p), now.get(p)) for p in now if p not in ("/calls", "pid") and now.get(p) != base.get(p)}
            if grown:
                fails.append("%s: the rejected request reached the application: call counts %r" % (what, grown))
            if now.get("pid") != pid0:
                fails.append("%s: the worker did not survive (pid %s -> %s)" % (what, pid0, now.get("pid")))
                pid0 = now.get("pid")
            base = now
        # interrupted by a disconnect: the client resets the connection while a large response is being written, or sends a
        # truncated upload and leaves without reading the answer - the worker keeps running (a write to a dead peer is an
        # error to handle, not a signal to die of)
        import struct
        for name, data in [("reset while /big-chunked is being written", b"GET /big-chunked HTTP/1.1\r\nHost: x\r\n\r\n"),
                           ("reset while /big-write is being written", b"GET /big-write HTTP/1.1\r\nHost: x\r\n\r\n"),
                           ("reset while /big-file is being written", b"GET /big-file HTTP/1.1\r\nHost: x\r\n\r\n"),
                           ("truncated upload, client gone before the answer",
                            b"POST /echo-readn HTTP/1.1\r\nHost: x\r\nContent-Length: 10\r\n\r\nabc")]:
            c = srv.conn(timeout=8)
            try:
                c.sendall(data)
                if "reset" in name:
                    c.recv(4096)                   # the response has begun
                c.setsockopt(socket.SOL_SOCKET, socket.SO_LINGER, struct.pack("ii", 1, 0))
            except OSError:
                pass
            c.close()
            time.sleep(0.4)
            now = calls()
            what = "%s worker, %s" % (cls, name)
            if now is None:
                time.sleep(1.5)                    # (a replacement worker may be booting)
                now = calls()
            if now is None:
                fails.append("%s: afterwards the server does not answer" % what)
                break
            if now.get("pid") != pid0:
                fails.append("%s: the worker did not survive (pid %s -> %s); log: %s"
                             % (what, pid0, now.get("pid"), [l for l in srv.read_log().splitlines() if "Worker" in l or "SIG" in l][-2:]))
                pid0 = now.get("pid")
    except Exception as e:
        fails.append("harness: %s: %s | %s" % (type(e).__name__, e, srv.read_log()[-500:]))
    finally:
        srv.cleanup()
    return fails


def part_records(cls):
    """-> list of failures (C19): the access log of a real master against what the clients received"""
    import re
    fails = []
    srv = None
    try:
        srv = BatteryServer(cls, extra={"loglevel": "warning" if cls in ("gthread", "eventlet") else "info"}, bind="tcp")
        logf = os.path.join(srv.dir, "access.log")
        srv.write_conf(accesslog=logf, access_log_format='%(s)s %(B)s "%(r)s"')
        srv.start()
        sent = []                                   # (request line, status, body bytes received)

        def one(path, method="GET", body=b"", slow=False):
            if slow:
                # a small receive window, set before the connection is made: the server's sends come back short
                c = socket.socket(socket.AF_INET, socket.SOCK_STREAM)
                c.setsockopt(socket.SOL_SOCKET, socket.SO_RCVBUF, 4096)
                c.settimeout(40)
                c.connect(("127.0.0.1", srv.port))
            else:
                c = srv.conn(timeout=40)
            head = "%s %s HTTP/1.1\r\nHost: x\r\nConnection: close\r\n" % (method, path)
            if body:
                head += "Content-Length: %d\r\n" % len(body)
            c.sendall(head.encode() + b"\r\n" + body)
            if slow:
                time.sleep(0.8)                    # the server's send buffer fills: short sends
            st, hd, got, complete, err = G.read_response(c, 40)
            c.close()
            sent.append(("%s %s HTTP/1.1" % (method, path), st, len(got), complete))
        one("/small")
        one("/echo-read", "POST", b"x" * 3000)
        one("/big-cl", slow=True)
        one("/big-chunked", slow=True)
        one("/big-write", slow=True)
        one("/big-file", slow=True)
        one("/big-file")
        one("/small")
        # a request the server rejects itself: at most one record
        c = srv.conn()
        c.sendall(b"GET /rejected HTTP/1.1\r\nHost : x\r\n\r\n")
        G.read_response(c, 5)
        c.close()
        time.sleep(0.5)
        try:
            with open(logf) as fh:
                recs = [l.rstrip("\n") for l in fh if l.strip()]
        except OSError:
            recs = []
        parsed = []
        for l in recs:
            m = re.fullmatch(r'(\d{3}) (\d+) "(.*)"', l)
            parsed.append((m.group(3), int(m.group(1)), int(m.group(2))) if m else (None, None, l))
        for line, st, nbytes, complete in sent:
            mine = [p for p in parsed if p[0] == line]
            want_n = sum(1 for x in sent if x[0] == line)
            if not complete or st != 200:
                fails.append("%s worker: %r was not answered in full (status %r, %d bytes)" % (cls, line, st, nbytes))
                continue
            if len(mine) != want_n:
                fails.append("%s worker (loglevel %s): %d request(s) %r completed with status 200, the access log has %d record(s) for them; log: %r"
                             % (cls, srv.settings.get("loglevel"), want_n, line, len(mine), recs[:12]))
                continue
            for p_ in mine:
                if p_[1] != st or p_[2] != nbytes:
                    fails.append("%s worker: the record for %r says status %r, %r body bytes; the client received status %r and %d body bytes"
                                 % (cls, line, p_[1], p_[2], st, nbytes))
                    break
        rej = [p for p in parsed if p[0] and "/rejected" in p[0]]
        if len(rej) > 1:
            fails.append("%s worker: a request the server rejected itself has %d records" % (cls, len(rej)))
        junk = [p for p in parsed if p[0] is None]
        if junk:
            fails.append("%s worker: access-log lines that are not records of the configured format: %r" % (cls, junk[:3]))
    except Exception as e:
        fails.append("harness: %s: %s | %s" % (type(e).__name__, e, srv.read_log()[-500:] if srv else ""))
    finally:
        if srv is not None:
            srv.cleanup()
    # one failure per kind is enough for a report
    out, seen = [], set()
    for f in fails:
        k = f.split(":")[1][:40] if ":" in f else f[:40]
        if k not in seen:
            seen.add(k)
            out.append(f)
    return out


PARTS = {"bodies": part_bodies, "responses": part_responses, "hostile": part_hostile, "records": part_records}


def run_part(part, classes=CLASSES):
    """all classes in parallel -> {cls: failures}; a run that could not be carried out is repeated once alone"""
    import threading
    out = {}

    def work(cls):
        out[cls] = PARTS[part](cls)
    ths = [threading.Thread(target=work, args=(c,)) for c in classes]
    for t in ths:
        t.start()
    for t in ths:
        t.join()
    for cls in classes:
        if any(f.startswith("harness:") for f in out.get(cls, ["harness: no result"])):
            out[cls] = PARTS[part](cls)
    return out


def report(ctx, part, replay_kind):
    res = run_part(part)
    n = 0
    for cls in CLASSES:
        ctx.count_case(("battery", part, cls), True)
        ctx.hist("real_battery_" + part, cls)
        for f in res[cls][:2]:
            n += 1
            if f.startswith("harness:"):
                ctx.broken.append("real-master battery (%s, %s) could not be carried out: %s" % (part, cls, f[:500]))
            else:
                ctx.violation("real master: " + f, {"kind": replay_kind, "part": part, "cls": cls})
    ctx.log("real masters (sync / gthread / gevent / eventlet), battery part %r: %d failures" % (part, n))


def replay(rep):
    fs = PARTS[rep["part"]](rep["cls"])
    print("failures:", fs)
    return 1 if fs else 0
