"""Real gunicorn master + worker processes started from $VERIF_REPO (thorough tiers of the arbiter family;
supporting exploration, never a stand-in for a theorem).  Everything lives in a scratch directory under the
build dir: unix socket, pid file, the WSGI application module, the log."""
import os
import shutil
import signal
import socket
import subprocess
import sys
import tempfile
import time

import vlib

APP_SRC = '''
import os, time
def app(environ, start_response):
    path = environ.get("PATH_INFO", "/")
    if path.startswith("/sleep/"):
        time.sleep(float(path[len("/sleep/"):]))
    body = ("%d %s" % (os.getpid(), os.environ.get("GV_MARK", "-"))).encode()
    start_response("200 OK", [("Content-Type", "text/plain"), ("Content-Length", str(len(body)))])
    return [body]
'''

HANGBOOT_SRC = '''
import os, time
if os.path.exists(os.path.join(os.path.dirname(os.path.abspath(__file__)), "HANG")):
    time.sleep(3600)            # the import of the application blocks (a dead backend, a lock, ...)
from app import app
'''

BOOTFAIL_SRC = '''
import time
time.sleep(0.4)
raise RuntimeError("cannot boot")
'''


def children_of(pid):
    """live (non-zombie) children and zombie children of pid, from /proc"""
    live, zombies = [], []
    for d in os.listdir("/proc"):
        if not d.isdigit():
            continue
        try:
            with open("/proc/%s/stat" % d) as fh:
                st = fh.read()
        except OSError:
            continue
        rp = st.rfind(")")
        fields = st[rp + 2:].split()
        state, ppid = fields[0], int(fields[1])
        if ppid == pid:
            (zombies if state == "Z" else live).append(int(d))
    return sorted(live), sorted(zombies)


class Server:
    def __init__(self, workers=2, worker_class="sync", timeout=30, graceful=5, app="app:app", extra=(), mark="a"):
        base = vlib.VERIF / ".build" / "scratch"
        base.mkdir(parents=True, exist_ok=True)
        self.dir = tempfile.mkdtemp(prefix="rp-", dir=str(base))
        with open(os.path.join(self.dir, "app.py"), "w") as fh:
            fh.write(APP_SRC)
        with open(os.path.join(self.dir, "bootfail.py"), "w") as fh:
            fh.write(BOOTFAIL_SRC)
        with open(os.path.join(self.dir, "hangapp.py"), "w") as fh:
            fh.write(HANGBOOT_SRC)
        self.sock = os.path.join(self.dir, "s.sock")
        self.pidfile = os.path.join(self.dir, "pid")
        self.log = os.path.join(self.dir, "log.txt")
        env = vlib.impl_env()
        env["PYTHONPATH"] = str(vlib.REPO) + os.pathsep + self.dir
        env["GV_MARK"] = mark
        cmd = ["/venv/bin/python", "-m", "gunicorn", "-w", str(workers), "-k", worker_class, "-t", str(timeout),
               "--graceful-timeout", str(graceful), "-b", "unix:" + self.sock, "-p", self.pidfile,
               "--log-level", "info", "--error-logfile", self.log] + list(extra) + [app]
        self.proc = subprocess.Popen(cmd, cwd=self.dir, env=env, stdout=subprocess.DEVNULL, stderr=subprocess.DEVNULL)
        self.pid = self.proc.pid

    def workers(self):
        return children_of(self.pid)

    def wait_for(self, pred, timeout, step=0.05):
        t0 = time.time()
        while time.time() - t0 < timeout:
            try:
                if pred():
                    return time.time() - t0
            except Exception:
                pass
            if self.proc.poll() is not None and not pred():
                return None
            time.sleep(step)
        return None

    def wait_workers(self, n, timeout=10.0):
        return self.wait_for(lambda: len(self.workers()[0]) == n and not self.workers()[1], timeout)

    def request(self, path="/", timeout=10.0):
        s = socket.socket(socket.AF_UNIX, socket.SOCK_STREAM)
        s.settimeout(timeout)
        try:
            s.connect(self.sock)
            s.sendall(("GET %s HTTP/1.1\r\nHost: x\r\nConnection: close\r\n\r\n" % path).encode())
            data = b""
            while True:
                try:
                    b = s.recv(65536)
                except (ConnectionResetError, socket.timeout):
                    break
                if not b:
                    break
                data += b
            return data
        finally:
            s.close()

    def signal(self, sig):
        os.kill(self.pid, sig)

    def logtext(self):
        try:
            with open(self.log) as fh:
                return fh.read()
        except OSError:
            return ""

    def stop(self):
        if self.proc.poll() is None:
            try:
                self.proc.send_signal(signal.SIGQUIT)
                self.proc.wait(timeout=10)
            except Exception:
                self.proc.kill()
                self.proc.wait()
        live, zombies = [], []
        # stray workers of a master that died without cleaning up
        for d in os.listdir("/proc"):
            if d.isdigit():
                try:
                    with open("/proc/%s/cmdline" % d, "rb") as fh:
                        c = fh.read()
                    if self.sock.encode() in c:
                        os.kill(int(d), signal.SIGKILL)
                except OSError:
                    pass
        shutil.rmtree(self.dir, ignore_errors=True)
        return self.proc.returncode
