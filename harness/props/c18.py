"""C18 - max_requests recycles workers without losing requests.

Counting runs on the real workers, in-process, for max_requests in {0,1,2,5} x jitter in {0,3}:
  * sync: connections one after the other while worker.alive (the gate of SyncWorker.run_for_one);
  * gthread: several keep-alive connections accepted through the real ThreadWorker.accept and dispatched, one
    request at a time and in any order, through the real on_client_socket_readable / handle / finish_request
    (synchronous executor), new connections only while worker.alive (the gate of ThreadWorker.run);
  * async: each connection is the real AsyncWorker.handle in its own thread, stepped request by request through
    gates in its scripted socket, so that requests of different connections interleave on the shared counters.
Every step's events are compared with Model/Recycle.v `wrun` (vm_compute), and the property is judged on the
real traces: the request that reaches the limit and the requests still served afterwards are answered in full,
at most one more request per connection that was open at the limit, no new connection afterwards, never
recycled when max_requests is unset.
Finally the real ThreadWorker.run() is driven with real sockets for the scenario of finding D14.
"""
import os
import socket
import threading
import time

import vlib
import lib_handle as L

KINDS = ("sync", "gthread", "async")
ADDR = ("10.0.0.1", 4321)


def request_bytes(i, j, close=False, v10=False):
    line = b"GET /c%d/r%d HTTP/%s\r\n" % (i, j, b"1.0" if v10 else b"1.1")
    hdrs = b"Host: h\r\n"
    if close:
        hdrs += b"Connection: close\r\n"
    if v10:
        hdrs += b"Connection: keep-alive\r\n"
    return line + hdrs + b"\r\n"


def body_of(i, j):
    return b"conn%d-req%d-" % (i, j) + b"x" * ((i * 7 + j * 3) % 11)


def app_script(rng, i, j):
    body = body_of(i, j)
    style = rng.randrange(8)
    # responses that have no body by their status (and carry no Content-Length): "close when told to" applies to them as well
    if style in (6, 7):
        return {"acts": [("start", 204 if style == 6 else 304, None), ("return",)], "file": None}, b""
    # a request that FAILS is a request the worker has handled all the same: it counts towards max_requests
    if style == 4:
        return {"acts": [("raise", ("Exception", "the application failed", False, False))], "file": None}, None
    if style == 5:
        return {"acts": [("start", 200, None), ("return",), ("write", body[:3]), ("raise", ("Exception", "iterable failed", False, False))],
                "file": None}, None
    if style == 0:
        return {"acts": [("start", 200, len(body)), ("return",), ("write", body)], "file": None}, body
    if style == 1:
        return {"acts": [("start", 200, None), ("return",), ("write", body[:3]), ("write", body[3:])], "file": None}, body
    if style == 2:
        return {"acts": [("start", 200, len(body)), ("write", body), ("return",)], "file": None}, body
    return {"acts": [("start", 200, None), ("return",)], "file": (body, 0, 8192, True)}, body


class GateSock(L.TSock):
    """scripted socket whose recv blocks at ("gate",) markers until the scheduler releases it"""

    def __init__(self, trace, segs):
        super().__init__(trace, segs=segs)
        self.release = threading.Event()
        self.idle = threading.Event()
        self.abort = False

    def recv(self, n):
        while self.segs and self.segs[0] == ("gate",):
            self.idle.set()
            self.release.wait()
            self.release.clear()
            if self.abort:
                self.segs = []
                return b""
            self.segs.pop(0)
        return super().recv(n)


class Run:
    """one worker, several connections, a schedule"""

    def __init__(self, kind, max_requests, jitter, pick, nconn_reqs, rng, keepalive=2):
        self.kind = kind
        self.W = L.World(kind, max_requests=max_requests, jitter=jitter, jitter_pick=pick, keepalive=keepalive)
        self.W.__enter__()
        self.W.begin()
        self.rng = rng
        self.w = self.W.w
        self.plan = nconn_reqs            # requests planned per connection
        self.conns = []                   # accepted connections: dict(sock, conn/thread, done, next_req, steps...)
        self.model_sched = []
        self.steps = []                   # (conn index, trace slice, wire slice, expected body, alive_before, alive_after, ended)
        self.cfg_params = (max_requests, jitter, pick)
        self.st0 = (self.w.nr, self.w.alive, getattr(self.w, "nr_conns", 0))

    def close(self):
        for c in self.conns:
            if self.kind == "async" and not c["done"]:
                c["sock"].abort = True
                c["sock"].release.set()
                c["thread"].join(2)
            c["sock"].dispose()
        self.W.__exit__(None, None, None)

    # ---- accept
    def accept(self):
        """the main loop takes a new connection (only while alive); returns the index or None"""
        idx_plan = len([s for s in self.model_sched if s[0] == "accept"])
        nreq = self.plan[idx_plan % len(self.plan)]
        self.model_sched.append(("accept", len(self.conns) if self.w.alive else None))
        if not self.w.alive:
            return None
        i = len(self.conns)
        reqs = []
        for j in range(nreq):
            last = (j == nreq - 1)
            reqs.append(request_bytes(i, j, close=last and self.rng.random() < 0.3, v10=self.rng.random() < 0.1))
        c = {"i": i, "reqs": reqs, "next": 0, "done": False, "ps": [], "apps": [], "faults": [], "wire_pos": 0}
        if self.kind == "async":
            segs = []
            for r in reqs:
                segs += [("gate",), r]
            segs.append(("gate",))
            sock = GateSock(self.W.trace, segs)
            c["sock"] = sock

            def body():
                try:
                    self.w.handle(L.FakeListener(), sock, ADDR)
                finally:
                    c["done"] = True
                    sock.idle.set()
            L.CURRENT = self.W
            L.install_patches()
            t = threading.Thread(target=body, daemon=True)
            c["thread"] = t
            sock.idle.clear()
            t.start()
            sock.idle.wait(5)
        elif self.kind == "gthread":
            sock = L.TSock(self.W.trace, segs=list(reqs))
            c["sock"] = sock
            self.w.accept(("127.0.0.1", 8000), L.FakeListener(sock, ADDR))
            c["conn"] = self.w.poller.get_key(sock).data.args[0]
        else:
            sock = L.TSock(self.W.trace, segs=list(reqs[:1]))
            c["sock"] = sock
        self.conns.append(c)
        return i

    # ---- dispatch one request of connection i
    def dispatch(self, i):
        c = self.conns[i]
        if c["done"]:
            return False
        W = self.W
        L.CURRENT = W
        L.install_patches()
        j = c["next"]
        script, body = app_script(self.rng, i, j)
        W.apps = [script]
        t0 = len(W.trace)
        e0 = len(W.eff_apps)
        alive_before = self.w.alive
        if self.kind == "sync":
            try:
                self.w.handle(L.FakeListener(), c["sock"], ADDR)
            finally:
                c["done"] = True
        elif self.kind == "gthread":
            self.w.on_client_socket_readable(c["conn"], c["conn"].sock)
            if c["conn"] in self.w._keep:
                W.trace.append(("keep",))
            else:
                c["done"] = True
        else:
            s = c["sock"]
            s.idle.clear()
            s.release.set()
            if not s.idle.wait(10):
                raise RuntimeError("async connection did not come back to a gate")
        sl = W.trace[t0:]
        c["next"] += 1
        for e in sl:
            if e[0] in ("head", "praise", "pnone"):
                c["ps"].append(e)
            elif e[0] in ("send100", "sendall", "sendfile", "shutdown", "close"):
                c["faults"].append(e[2])
        c["apps"] += W.eff_apps[e0:]
        wire = c["sock"].wire[c["wire_pos"]:]
        c["wire_pos"] = len(c["sock"].wire)
        ended = c["done"]
        obs_slice = list(sl)
        if ended and obs_slice and obs_slice[-1][0] == "close":
            obs_slice = obs_slice[:-1]          # the final util.close / conn.close is not part of one_request
        n_app = sum(1 for e in sl if e[0] == "app")
        self.steps.append({"conn": i, "trace": sl, "obs": obs_slice, "wire": wire, "body": body if n_app else None,
                           "n_app": n_app, "alive_before": alive_before, "alive_after": self.w.alive, "ended": ended,
                           "open_after": sum(1 for k in self.conns if not k["done"])})
        self.model_sched.append(("dispatch", i))
        return True

    # ---- observation / model
    def impl_obs(self):
        out = []
        for s in self.steps:
            out += [77] + L.enc_trace(s["obs"])
        out += [78] + [0 if c["done"] else 1 for c in self.conns]
        out += [79, self.w.nr, 1 if self.w.alive else 0]
        return out

    def model_expr(self):
        W = self.W
        items = []
        for s in self.model_sched:
            if s[0] == "accept":
                if s[1] is None:
                    items.append("SAccept [] [] []")
                else:
                    c = self.conns[s[1]]
                    ps = []
                    for e in c["ps"]:
                        if e[0] == "head":
                            h = e[1]
                            ce = "None" if h["create_exn"] is None else "(Some %s)" % L.coq_exn(h["create_exn"])
                            ps.append("Hd %s %s %s %d%%nat %s" % (vlib.coq_bool(h["v10"]), vlib.coq_bool(h["head"]), vlib.coq_bool(h["close"]), h["expect"], ce))
                        elif e[0] == "praise":
                            ps.append("PRaise %s" % L.coq_exn(e[2]))
                        else:
                            ps.append("PNone")
                    apps = [L.coq_app(a) for a in c["apps"]]
                    fs = [L.FAULT_NAME[f] for f in c["faults"]]
                    items.append("SAccept [%s] [%s] [%s]" % ("; ".join(ps), "; ".join(apps), "; ".join(fs)))
            else:
                items.append("SDispatch %d%%nat" % s[1])
        cfg = "(Cf %d%%N %s %s %s)" % (self.w.max_requests, vlib.coq_bool(bool(W.cfg.keepalive)), vlib.coq_bool(True),
                                       vlib.coq_Z(W.cfg.worker_connections - W.cfg.threads))
        st = "(St %d%%N %s 0 %s)" % (self.st0[0], vlib.coq_bool(self.st0[1]), vlib.coq_Z(self.st0[2]))
        return "obs_world (wrun %s %s (world0 %s) [%s])" % (L.WK[self.kind], cfg, st, "; ".join(items))


HEADER = L.HEADER.replace("Model.Handle.", "Model.Handle Model.Recycle.")


def gen_schedule(rng, kind):
    nconn = rng.choice([1, 2, 3, 4])
    plan = [rng.choice([1, 2, 3, 4]) for _ in range(nconn + 2)]
    n_steps = rng.randrange(4, 18)
    sched = []
    if kind == "sync":
        for _ in range(n_steps):
            sched.append(("accept+dispatch",))
        return plan, sched
    sched.append(("accept",))
    for _ in range(n_steps):
        x = rng.random()
        sched.append(("accept",) if x < 0.25 else ("dispatch", rng.randrange(8)))
    return plan, sched


def run_one(kind, mr, jit, pick, plan, sched, rng):
    """execute a schedule on a fresh worker; returns (run, oracle failures)"""
    R = Run(kind, mr, jit, pick, plan, rng)
    fails = []
    try:
        for s in sched:
            if s[0] == "accept":
                R.accept()
            elif s[0] == "accept+dispatch":
                i = R.accept()
                if i is not None:
                    R.dispatch(i)
            else:
                open_idx = [c["i"] for c in R.conns if not c["done"]]
                if open_idx:
                    R.dispatch(open_idx[s[1] % len(open_idx)])
        fails = judge(R)
        obs = R.impl_obs()
        expr = R.model_expr()
    finally:
        R.close()
    return R, obs, expr, fails


def effective_max(mr, pick):
    import sys
    return mr + pick if mr > 0 else sys.maxsize


def judge(R):
    """the property, on the real steps"""
    fails = []
    w = R.w
    mr, jit, pick = R.cfg_params
    if w.max_requests != effective_max(mr, min(pick, jit)):
        fails.append(("limit-value", "worker.max_requests = %r for max_requests=%d jitter=%d pick=%d" % (w.max_requests, mr, jit, pick)))
    limit = w.max_requests
    nr = R.st0[0]
    dead_at = None           # index of the step that cleared alive
    for k, s in enumerate(R.steps):
        nr += s["n_app"]
        # no request is dropped because of the recycling: an accepted request head reaches the application
        if any(e[0] == "head" for e in s["trace"]) and not s["n_app"]:
            fails.append(("request-dropped", "step %d (nr=%d, limit=%d, alive=%s): a parsed request was not handed to the application; "
                          "the client received %r" % (k, nr, limit, s["alive_before"], s["wire"][:80])))
        # answered in full: the new bytes on this connection are exactly one complete response with the expected body
        if s["n_app"] and s["body"] is not None:          # (body None: the application was scripted to fail)
            resps, leftover, bad = L.split_wire(s["wire"], [False])
            # (the scripts answer 200 with a body, or 204 / 304 without one)
            if not (len(resps) == 1 and not leftover and resps[0]["complete"] and resps[0]["body"] == s["body"]
                    and (resps[0]["status"] == 200 if s["body"] else resps[0]["status"] in (200, 204, 304))):
                fails.append(("not-answered-in-full", "step %d (nr=%d, limit=%d): response %r" % (k, nr, limit, s["wire"][:160])))
            elif not s["alive_after"] and not (L.says_close(resps[0]) and s["ended"]):
                fails.append(("served-without-close", "step %d: a request handled at/after the limit did not close its connection" % k))
        if s["alive_before"] and not s["alive_after"]:
            dead_at = k
            if nr != limit:
                fails.append(("limit-miscounted", "alive cleared at nr=%d, limit %d" % (nr, limit)))
        if s["alive_after"] and nr >= limit:
            fails.append(("not-recycled", "nr=%d reached the limit %d but the worker is still alive" % (nr, limit)))
        if mr == 0 and not s["alive_after"]:
            fails.append(("recycled-when-unset", "alive cleared although max_requests is unset"))
    if w.nr != nr:
        fails.append(("counter", "worker.nr=%d but %d application entries" % (w.nr, nr)))
    if dead_at is not None:
        open_at_limit = R.steps[dead_at]["open_after"]
        after = sum(s["n_app"] for s in R.steps[dead_at + 1:])
        if after > open_at_limit:
            fails.append(("served-beyond-in-flight", "%d requests entered the application after the limit, only %d connections were open" % (after, open_at_limit)))
        per = {}
        for s in R.steps[dead_at + 1:]:
            per[s["conn"]] = per.get(s["conn"], 0) + s["n_app"]
        if any(v > 1 for v in per.values()):
            fails.append(("kept-alive-after-limit", "a connection served more than one request after the limit"))
        # no new connection after the limit
        accepted_after = [s for s in R.model_sched if s[0] == "accept"]
    # connections accepted while not alive
    seen_dead = False
    k = 0
    for s in R.model_sched:
        if s[0] == "dispatch":
            if k < len(R.steps):
                seen_dead = seen_dead or not R.steps[k]["alive_after"]
            k += 1
        elif s[0] == "accept" and seen_dead and s[1] is not None:
            fails.append(("accepted-after-limit", "a connection was taken after alive was cleared"))
    return fails


# ----------------------------------------------------------------------------------------------------
# the real ThreadWorker.run() with real sockets: finding D14
# ----------------------------------------------------------------------------------------------------
def d14_probe(max_requests=1, idle=0.0):
    """Client A sends a request, client B only connects.  Both are accepted by the worker; A's request reaches
    max_requests.  B sends its request once run() has returned.  Returns a dict of what happened."""
    import logging
    import selectors
    import gunicorn.config
    import gunicorn.glogging
    from gunicorn.workers.gthread import ThreadWorker
    cfg = gunicorn.config.Config()
    cfg.set("threads", 2)
    cfg.set("max_requests", max_requests)
    cfg.set("graceful_timeout", 2)
    log = gunicorn.glogging.Logger(cfg)
    log.error_log.handlers = [logging.NullHandler()]
    log.error_log.propagate = False
    served = []

    def app(environ, start_response):
        served.append(environ["PATH_INFO"])
        start_response("200 OK", [("Content-Length", "2")])
        return [b"ok"]
    ls = socket.socket()
    ls.setsockopt(socket.SOL_SOCKET, socket.SO_REUSEADDR, 1)
    ls.bind(("127.0.0.1", 0))
    ls.listen(16)
    port = ls.getsockname()[1]
    accepted = []

    class W(ThreadWorker):
        def accept(self, server, listener):
            r = super().accept(server, listener)
            accepted.append(self.nr_conns)
            return r
    w = W(1, os.getppid(), [ls], app, 30, cfg, log)
    w.wsgi = app
    w.tpool = w.get_thread_pool()
    w.poller = selectors.DefaultSelector()
    w._lock = threading.RLock()
    t = threading.Thread(target=w.run, daemon=True)
    A = socket.create_connection(("127.0.0.1", port))
    B = socket.create_connection(("127.0.0.1", port))
    A.sendall(b"GET /a HTTP/1.1\r\nHost: x\r\n\r\n")
    t.start()
    t.join(8)
    out = {"run_returned": not t.is_alive(), "accepted": len(accepted), "nr": w.nr, "alive": w.alive,
           "nr_conns_at_exit": w.nr_conns}
    A.settimeout(3)
    try:
        out["A"] = A.recv(65536)
    except OSError as e:
        out["A"] = repr(e).encode()
    time.sleep(idle)
    try:
        B.sendall(b"GET /b HTTP/1.1\r\nHost: x\r\n\r\n")
        B.settimeout(3)
        out["B"] = B.recv(65536)
    except OSError as e:
        out["B"] = b""
        out["B_error"] = repr(e)
    out["served"] = list(served)
    for s in (A, B):
        try:
            s.close()
        except OSError:
            pass
    if t.is_alive():
        w.alive = False
        t.join(3)
    try:
        w.tmp.close()
    except Exception:
        pass
    return out




def gthread_queue_probe(threads=1, max_requests=2, nclients=6, delay=0.6):
    """The REAL ThreadWorker.run() with real sockets: nclients requests arrive at once, more than the pool has threads, and the
    limit is reached while some of them are still queued in the pool.  Every request the worker has taken (accepted and
    dispatched) must be answered in full before the worker goes away."""
    import logging
    import selectors
    import gunicorn.config
    import gunicorn.glogging
    from gunicorn.workers.gthread import ThreadWorker
    cfg = gunicorn.config.Config()
    cfg.set("threads", threads)
    cfg.set("max_requests", max_requests)
    cfg.set("graceful_timeout", 6)
    cfg.set("keepalive", 0)
    log = gunicorn.glogging.Logger(cfg)
    log.error_log.handlers = [logging.NullHandler()]
    log.error_log.propagate = False
    served = []

    def app(environ, start_response):
        time.sleep(delay)
        served.append(environ["PATH_INFO"])
        start_response("200 OK", [("Content-Length", "2")])
        return [b"ok"]
    ls = socket.socket()
    ls.setsockopt(socket.SOL_SOCKET, socket.SO_REUSEADDR, 1)
    ls.bind(("127.0.0.1", 0))
    ls.listen(16)
    port = ls.getsockname()[1]
    dispatched = []

    class W(ThreadWorker):
        def enqueue_req(self, conn):
            dispatched.append(conn)
            return super().enqueue_req(conn)
    w = W(1, os.getppid(), [ls], app, 30, cfg, log)
    w.wsgi = app
    w.tpool = w.get_thread_pool()
    w.poller = selectors.DefaultSelector()
    w._lock = threading.RLock()
    clients = []
    for i in range(nclients):
        c = socket.create_connection(("127.0.0.1", port))
        c.sendall(b"GET /q%d HTTP/1.1\r\nHost: x\r\n\r\n" % i)
        clients.append(c)
    time.sleep(0.1)
    t = threading.Thread(target=w.run, daemon=True)
    t.start()
    t.join(15)
    out = {"run_returned": not t.is_alive(), "dispatched": len(dispatched), "nr": w.nr, "served": list(served), "answers": []}
    if t.is_alive():
        w.alive = False
        t.join(3)
    for c in clients:
        c.settimeout(2)
        data = b""
        try:
            while True:
                blk = c.recv(65536)
                if not blk:
                    break
                data += blk
        except OSError as e:
            data += b"<" + type(e).__name__.encode() + b">"
        out["answers"].append(data)
        c.close()
    ls.close()
    try:
        w.tmp.close()
    except Exception:
        pass
    return out



def real_inflight_probe(cls, slow_on_second, max_requests=2, d=2.5, timeout=30):
    """A REAL master with one worker of class cls on two listeners: a request that takes d seconds is in flight on one listener
    while short requests on the OTHER listener take the worker to max_requests.  The worker stops accepting, but the request in
    flight must be answered in full (graceful_timeout 8 s) before it exits; afterwards a new worker serves."""
    import lib_arb2_real as R
    import socket as _s
    srv = R.Server(worker_class=cls, workers=1, graceful=8, bind="unix", keepalive=0, second_bind=True, timeout=timeout,
                   extra={"max_requests": max_requests})
    out = {"cls": cls, "slow_on_second": slow_on_second, "timeout": timeout, "d": d}
    try:
        srv.start()
        first = sorted(srv.children())
        out["first_worker"] = first
        paths = [srv.sock_path, os.path.join(srv.dir, "g2.sock")]
        slow_path, fast_path = (paths[1], paths[0]) if slow_on_second else (paths[0], paths[1])

        def conn(path):
            c = _s.socket(_s.AF_UNIX, _s.SOCK_STREAM)
            c.settimeout(d + 12)
            c.connect(path)
            return c

        def read_all(c):
            data = b""
            try:
                while True:
                    blk = c.recv(65536)
                    if not blk:
                        break
                    data += blk
            except OSError as e:
                data += b"<" + type(e).__name__.encode() + b">"
            return data
        slow = conn(slow_path)
        slow.sendall(R.Client.request(d=d))
        time.sleep(0.5)
        fast = []
        for _ in range(max_requests - 1):
            c = conn(fast_path)
            c.sendall(R.Client.request(d=0))
            fast.append(read_all(c))
            c.close()
        out["fast"] = [R.parse_response(x)["status"] for x in fast]
        data = read_all(slow)
        slow.close()
        r = R.parse_response(data)
        out["slow"] = {"status": r["status"], "complete": bool(r["complete"]), "pid": r.get("pid"), "bytes": len(data)}
        # the replacement
        def replaced():
            ch = sorted(srv.children())
            return ch if ch and not (set(ch) & set(first)) else None
        out["new_worker"] = R.wait_for(replaced, 12)
        # afterwards: both listeners still take clients (a refused connection IS the finding, not a harness problem)
        out["after"] = {}
        for k, path in enumerate(paths):
            try:
                c = conn(path)
                c.sendall(R.Client.request(d=0))
                r2 = R.parse_response(read_all(c))
                c.close()
                out["after"][k] = {"status": r2["status"], "pid": r2.get("pid")}
            except OSError as e:
                out["after"][k] = {"status": None, "error": "%s: %s" % (type(e).__name__, e)}
    except Exception as e:
        out["harness_error"] = "%s: %s | %s" % (type(e).__name__, e, srv.read_log()[-600:])
    finally:
        srv.cleanup()
    return out


def real_pair_recycle_probe(cls="sync", rounds=4, workers=2):
    """A REAL master with `workers` workers and max_requests=1: pairs of simultaneous requests take all the workers to the limit at
    the same moment, round after round.  EVERY one of them exits and is replaced (no dead worker left un-reaped, the pool back
    at its size) before the next pair."""
    import lib_arb2_real as R
    import socket as _s
    srv = R.Server(worker_class=cls, workers=workers, graceful=8, bind="unix", keepalive=0, timeout=30, extra={"max_requests": 1})
    out = {"cls": cls, "workers": workers, "rounds": []}
    try:
        srv.start()
        R.wait_for(lambda: len(srv.children()) == workers, 10)
        for rnd in range(rounds):
            before = sorted(srv.children())
            cs = []
            for _ in range(workers):
                c = _s.socket(_s.AF_UNIX, _s.SOCK_STREAM)
                c.settimeout(15)
                c.connect(srv.sock_path)
                c.sendall(R.Client.request(d=0.3))
                cs.append(c)
            sts, pids = [], []
            for c in cs:
                data = b""
                try:
                    while True:
                        blk = c.recv(65536)
                        if not blk:
                            break
                        data += blk
                except OSError as e:
                    data += b"<" + type(e).__name__.encode() + b">"
                c.close()
                r = R.parse_response(data)
                sts.append(r["status"])
                pids.append(r.get("pid"))

            def settled():
                ch = sorted(srv.children())
                return ch if len(ch) == workers and not (set(ch) & set(p for p in pids if p)) else None
            new = R.wait_for(settled, 10)
            zombies = []
            for n in os.listdir("/proc"):
                if n.isdigit() and R.proc_ppid(int(n)) == srv.master and not R.pid_alive(int(n)):
                    zombies.append(int(n))
            out["rounds"].append({"before": before, "statuses": sts, "served_by": pids, "after": sorted(srv.children()),
                                  "settled": bool(new), "unreaped": sorted(zombies)})
            if not new:
                break
    except Exception as e:
        out["harness_error"] = "%s: %s | %s" % (type(e).__name__, e, srv.read_log()[-600:])
    finally:
        srv.cleanup()
    return out


def judge_pair_recycle(res):
    if "harness_error" in res:
        return ["harness: " + res["harness_error"]]
    fails = []
    for i, r in enumerate(res["rounds"]):
        if any(st != 200 for st in r["statuses"]):
            fails.append("round %d: a request was not answered: statuses %r" % (i, r["statuses"]))
        if not r["settled"]:
            fails.append("round %d: the workers %r reached max_requests at the same moment; 10 s later the master's live workers are %r "
                         "(configured %d) and its un-reaped dead children %r" % (i, r["served_by"], r["after"], res["workers"], r["unreaped"]))
    return fails


def judge_real_inflight(res):
    fails = []
    if "harness_error" in res:
        return ["harness: " + res["harness_error"]]
    if any(st != 200 for st in res["fast"]):
        fails.append("a short request on the other listener was not answered: statuses %r" % (res["fast"],))
    sl = res["slow"]
    if sl["status"] != 200 or not sl["complete"]:
        fails.append("the request in flight when the worker reached max_requests was not answered in full: %r" % (sl,))
    elif sl["pid"] not in res["first_worker"]:
        fails.append("the request in flight was answered by pid %r, not by the worker that had it (%r)" % (sl["pid"], res["first_worker"]))
    if not res.get("new_worker"):
        fails.append("the worker that reached max_requests was not replaced within 12 s")
    for k, a in sorted((res.get("after") or {}).items()):
        if a.get("status") != 200:
            fails.append("after the recycling a new request on listener %d was not served: %r" % (k, a))
    if not res.get("after"):
        fails.append("after the recycling no request could be attempted")
    return fails


def judge_gthread_queue(res):
    fails = []
    full = sum(1 for a in res["answers"] if a.startswith(b"HTTP/1.1 200") and a.endswith(b"ok"))
    if not res["run_returned"]:
        fails.append("run() did not return after the limit was reached")
    if full < res["dispatched"]:
        bad = [a[:40] for a in res["answers"] if not (a.startswith(b"HTTP/1.1 200") and a.endswith(b"ok"))]
        fails.append("the worker had taken %d requests (accepted and handed to its pool) when it reached max_requests, but only %d were "
                     "answered in full; the others received %r" % (res["dispatched"], full, bad[:3]))
    return fails

def sync_backlog_probe(max_requests, nclients, nlisteners, jitter=0):
    """The REAL SyncWorker.run() (run_for_one / run_for_multiple) with real listeners whose accept queues already hold
    nclients complete requests when the loop starts: the worker must stop taking clients once it has handled its limit,
    answer the ones it took in full, and leave the others in the queue (for the next worker) - not reset them."""
    import logging
    import gunicorn.config
    import gunicorn.glogging
    from gunicorn.workers.sync import SyncWorker
    cfg = gunicorn.config.Config()
    cfg.set("max_requests", max_requests)
    cfg.set("max_requests_jitter", jitter)
    log = gunicorn.glogging.Logger(cfg)
    log.error_log.handlers = [logging.NullHandler()]
    log.error_log.propagate = False
    served = []

    def app(environ, start_response):
        served.append(environ["PATH_INFO"])
        start_response("200 OK", [("Content-Length", "2")])
        return [b"ok"]
    lss = []
    for _ in range(nlisteners):
        ls = socket.socket()
        ls.setsockopt(socket.SOL_SOCKET, socket.SO_REUSEADDR, 1)
        ls.bind(("127.0.0.1", 0))
        ls.listen(64)
        lss.append(ls)
    w = SyncWorker(1, os.getppid(), lss, app, 1, cfg, log)
    w.wsgi = app
    w.PIPE = os.pipe()
    w.wait_fds = w.sockets + [w.PIPE[0]]
    limit = w.max_requests
    clients = []
    for i in range(nclients):
        c = socket.create_connection(lss[i % nlisteners].getsockname())
        c.sendall(b"GET /c%d HTTP/1.1\r\nHost: x\r\nConnection: close\r\n\r\n" % i)
        clients.append(c)
    time.sleep(0.05)
    t = threading.Thread(target=w.run, daemon=True)
    t.start()
    t.join(8)
    out = {"returned": not t.is_alive(), "nr": w.nr, "limit": limit, "alive": w.alive, "served": list(served), "answers": []}
    if t.is_alive():
        w.alive = False
        t.join(3)
    for i, c in enumerate(clients):
        c.settimeout(0.3 if ("/c%d" % i) not in served else 3)
        try:
            data = b""
            while True:
                blk = c.recv(65536)
                if not blk:
                    break
                data += blk
            out["answers"].append(data)
        except socket.timeout:
            out["answers"].append(None)            # still waiting in the accept queue: fine
        except OSError as e:
            out["answers"].append(repr(e).encode())
    for c in clients:
        c.close()
    for ls in lss:
        ls.close()
    os.close(w.PIPE[0])
    os.close(w.PIPE[1])
    try:
        w.tmp.close()
    except Exception:
        pass
    return out


def judge_sync_backlog(res, max_requests):
    fails = []
    if not res["returned"]:
        fails.append("run() did not return after the worker reached its limit (nr=%d, limit=%d, alive=%r)" % (res["nr"], res["limit"], res["alive"]))
    if max_requests and res["nr"] > res["limit"]:
        fails.append("the worker handled %d requests, its limit (max_requests + jitter) is %d: it went on accepting queued clients"
                     % (res["nr"], res["limit"]))
    if max_requests and res["nr"] < min(res["limit"], len(res["answers"])):
        fails.append("the worker stopped after %d requests, before its limit %d" % (res["nr"], res["limit"]))
    for i, a in enumerate(res["answers"]):
        path = "/c%d" % i
        if path in res["served"]:
            if not (a and a.startswith(b"HTTP/1.1 200") and a.endswith(b"ok")):
                fails.append("request %s was taken by the worker but not answered in full: %r" % (path, (a or b"")[:60]))
        elif a is not None and a != b"":
            fails.append("request %s was never handled but the client received %r" % (path, a[:60]))
    return fails

# ----------------------------------------------------------------------------------------------------
def run(ctx):
    ok = ctx.build()
    L.table_classes()
    quick = ctx.quick()
    rng = ctx.rng
    cases = []
    nfail = 0
    n_runs = 0
    reps = 45 if quick else 600
    try:
        for kind in KINDS:
            for mr in (0, 1, 2, 5):
                for jit in (0, 3):
                    for rep in range(reps):
                        pick = rng.randrange(0, jit + 1)
                        plan, sched = gen_schedule(rng, kind)
                        keep_seed = rng.random()
                        r2 = __import__("random").Random(keep_seed)
                        R, obs, expr, fails = run_one(kind, mr, jit, pick, plan, sched, r2)
                        n_runs += 1
                        napps = sum(s["n_app"] for s in R.steps)
                        hit = any(s["alive_before"] and not s["alive_after"] for s in R.steps)
                        ctx.count_case((kind, mr, jit, pick, tuple(plan), tuple(sched), keep_seed), napps >= 1)
                        ctx.hist("worker", kind)
                        ctx.hist("max_requests", "%d+%d" % (mr, pick))
                        ctx.hist("limit", "reached" if hit else "not reached")
                        after = 0
                        if hit:
                            k = [i for i, s in enumerate(R.steps) if s["alive_before"] and not s["alive_after"]][0]
                            after = sum(s["n_app"] for s in R.steps[k + 1:])
                            ctx.hist("served_after_limit", after)
                            ctx.hist("open_at_limit", R.steps[k]["open_after"])
                        if n_runs % 41 == 0:
                            ctx.sample({"worker": kind, "max_requests": mr, "jitter": jit, "pick": pick, "plan": plan,
                                        "schedule": [list(s) for s in R.model_sched], "apps_per_step": [s["n_app"] for s in R.steps],
                                        "alive_after_step": [s["alive_after"] for s in R.steps]})
                        spec = {"kind": kind, "mr": mr, "jit": jit, "pick": pick, "plan": plan, "sched": [list(s) for s in sched], "seed": keep_seed}
                        cases.append((expr, obs, spec))
                        if fails:
                            nfail += 1
                            if len(ctx.violations) < 3:
                                ctx.violation("%s [%s worker, max_requests=%d jitter=%d pick=%d]: %s" % (fails[0][0], kind, mr, jit, pick, fails[0][1]),
                                              {"kind": "schedule", "spec": spec, "failures": [list(f) for f in fails]})
    finally:
        L.remove_patches()
    ctx.log("%d counting runs on the real workers; oracle failures: %d" % (n_runs, nfail))
    # the real main loop of the thread worker, finding D14
    n_probe = 1 if quick else 4
    for k in range(n_probe):
        res = d14_probe(max_requests=1, idle=0.0 if k == 0 else 0.2 * k)
        ctx.count_case(("d14", k), True)
        ctx.hist("d14_probe", "B answered" if res["B"].startswith(b"HTTP/1.1 200") else "B dropped")
        ctx.extra.setdefault("d14_probe", []).append({k2: (v.decode("latin-1")[:60] if isinstance(v, bytes) else v) for k2, v in res.items()})
        a_ok = res["A"].startswith(b"HTTP/1.1 200") and res["A"].endswith(b"ok")
        if not a_ok:
            ctx.violation("gthread run(): the request that reached max_requests was not answered in full: %r" % res["A"][:80],
                          {"kind": "d14", "result": {k2: repr(v) for k2, v in res.items()}})
        elif res["accepted"] >= 2 and not res["B"].startswith(b"HTTP/1.1 200"):
            ctx.violation("gthread run(): a connection accepted before the worker reached max_requests was closed without an answer "
                          "when the main loop exited (accepted=%d, served=%r, B received %r)" % (res["accepted"], res["served"], res["B"][:40]),
                          {"kind": "d14", "result": {k2: repr(v) for k2, v in res.items()}},
                          key="gthread-idle-conn-dropped-at-recycle")
    # the real main loop of the thread worker with more simultaneous requests than threads when the limit is reached
    # (the main loop notices alive == False up to 1 s late - poller.select(1.0) - so the requests must outlast that)
    for th, mr, nc in ([(1, 2, 6)] if quick else [(1, 2, 6), (2, 2, 9), (1, 1, 5), (2, 3, 10)]):
        res = gthread_queue_probe(threads=th, max_requests=mr, nclients=nc)
        ctx.count_case(("gthread-queue", th, mr, nc), True)
        ctx.hist("gthread_queue_probe", "%d dispatched / %d answered" % (res["dispatched"], sum(1 for a in res["answers"] if a.endswith(b"ok"))))
        for f in judge_gthread_queue(res)[:2]:
            ctx.violation("gthread run() with %d simultaneous requests, %d thread(s), max_requests=%d: %s" % (nc, th, mr, f),
                          {"kind": "gthread-queue", "threads": th, "max_requests": mr, "nclients": nc})
    # REAL masters, two listeners, a request in flight on one of them while the other takes the worker to the limit
    combos2 = ([("gevent", False), ("eventlet", True), ("gthread", False)] if quick else
               [(c, b) for c in ("gevent", "eventlet", "gthread") for b in (False, True)])
    # ... and the same with a request in flight that lasts LONGER than `timeout` (2 s against 4.5 s; graceful_timeout 8 s): for
    # these worker classes the heartbeat does not depend on how long a request takes - while the worker drains, too
    combos2 += [(c, False, 2, 4.5, 2) for c in ("gevent", "eventlet", "gthread")]
    results2 = [None] * len(combos2)
    pair_specs = [("sync", 4, 2)] if quick else [("sync", 6, 2), ("sync", 4, 3)]
    pair_res = [None] * len(pair_specs)

    def work2(i):
        results2[i] = real_inflight_probe(*combos2[i])

    def work3(i):
        pair_res[i] = real_pair_recycle_probe(*pair_specs[i])
    ths = [threading.Thread(target=work2, args=(i,)) for i in range(len(combos2))]
    ths += [threading.Thread(target=work3, args=(i,)) for i in range(len(pair_specs))]
    for t in ths:
        t.start()
    for t in ths:
        t.join()
    for i, combo in enumerate(combos2):
        cls2, sec = combo[0], combo[1]
        long_req = len(combo) > 2
        res = results2[i]
        if res is None or "harness_error" in res:
            res = real_inflight_probe(*combo)
        ctx.count_case(("real-inflight",) + tuple(combo), True)
        ctx.hist("real_inflight", "%s / slow request on the %s listener%s" % (cls2, "second" if sec else "first",
                                                                               " / longer than timeout" if long_req else ""))
        ctx.extra.setdefault("real_inflight", []).append({k: v for k, v in res.items()})
        for f in judge_real_inflight(res)[:2]:
            if f.startswith("harness:"):
                ctx.broken.append("real in-flight probe %s could not be carried out: %s" % (cls2, f[:500]))
            elif long_req and cls2 in ("gthread", "eventlet") and "in flight" in f:
                ctx.violation("real %s worker, max_requests=2, timeout=2: %s - the draining worker no longer notifies and the arbiter "
                              "kills it after `timeout` (WORKER TIMEOUT)" % (cls2, f),
                              {"kind": "real-inflight", "cls": cls2, "slow_on_second": sec, "args": list(combo)},
                              key="drain-without-heartbeat")
            else:
                ctx.violation("real %s worker, two listeners, max_requests=2%s: %s" % (cls2, ", timeout=2 < request" if long_req else "", f),
                              {"kind": "real-inflight", "cls": cls2, "slow_on_second": sec, "args": list(combo)})
    # REAL masters whose workers all reach the limit at the same moment
    for spec, res in zip(pair_specs, pair_res):
        if res is None or "harness_error" in res:
            res = real_pair_recycle_probe(*spec)
        ctx.count_case(("real-pair-recycle",) + tuple(spec), True)
        ctx.hist("real_pair_recycle", "%s x%d" % (spec[0], spec[2]))
        ctx.extra.setdefault("real_pair_recycle", []).append(res)
        for f in judge_pair_recycle(res)[:2]:
            if f.startswith("harness:"):
                ctx.broken.append("real pair-recycle probe %r could not be carried out: %s" % (spec, f[:500]))
            else:
                ctx.violation("real master, %d %s workers, max_requests=1, simultaneous requests: %s" % (spec[2], spec[0], f),
                              {"kind": "real-pair-recycle", "args": list(spec)})
    # the real accept loops of the sync worker with clients already queued on one / several listeners
    combos = [(1, 1), (2, 1), (2, 2), (1, 3), (3, 2)] if quick else [(m, n) for m in (1, 2, 3, 5) for n in (1, 2, 3)]
    for mr, nl in combos:
        res = sync_backlog_probe(mr, 6, nl)
        ctx.count_case(("sync-backlog", mr, nl), True)
        ctx.hist("sync_backlog", "%d listener(s)" % nl)
        ctx.extra.setdefault("sync_backlog", []).append({"max_requests": mr, "listeners": nl, "nr": res["nr"], "served": res["served"]})
        for f in judge_sync_backlog(res, mr)[:2]:
            ctx.violation("sync run() with 6 queued clients on %d listener(s), max_requests=%d: %s" % (nl, mr, f),
                          {"kind": "sync-backlog", "max_requests": mr, "listeners": nl})
    ctx.cov["rule"] = ("one run = a fresh worker (sync / gthread / async wrapper) with max_requests in {0,1,2,5}, jitter in {0,3} and a "
                       "forced jitter pick, 1-4 keep-alive connections of 1-4 requests each, and a random schedule of accepts (only while "
                       "alive) and single-request dispatches (4-18 steps; sync: accept+dispatch pairs); application responses with "
                       "Content-Length, chunked, write() and file-wrapper bodies; non-trivial = at least one application entry; "
                       "distinct by (worker, limit, plan, schedule, script seed); plus the real ThreadWorker.run() with real sockets for D14 "
                       "and the real SyncWorker.run() (one and several listeners) with clients already queued; real masters with one "
                       "gevent / eventlet / gthread worker on two listeners and a request in flight when the limit is reached")
    bad = ctx.correspond("sched", HEADER, cases, shard=150)
    if bad:
        i, m, im = bad[0]
        ctx.broken.append("correspondence Model/Recycle.v vs workers: %d of %d runs differ; first: %r model=%r impl=%r"
                          % (len(bad), len(cases), cases[i][2], m[:100], im[:100]))
        ctx.log("CORRESPONDENCE: %d runs differ, e.g. %r" % (len(bad), cases[i][2]))
        ctx.log("   model %r" % (m[:160],))
        ctx.log("   impl  %r" % (im[:160],))
    if (bad or not ok or bad is None) and not ctx.violations:
        search(ctx)


def search(ctx):
    ctx.log("failing-input search (oracle only) ...")
    rng = ctx.rng
    tried = 0
    try:
        for _ in range(4000):
            kind = rng.choice(KINDS)
            mr = rng.choice([0, 1, 2, 3, 5])
            jit = rng.choice([0, 3])
            pick = rng.randrange(0, jit + 1)
            plan, sched = gen_schedule(rng, kind)
            seed = rng.random()
            try:
                R, obs, expr, fails = run_one(kind, mr, jit, pick, plan, sched, __import__("random").Random(seed))
            except Exception:
                continue
            tried += 1
            if fails:
                spec = {"kind": kind, "mr": mr, "jit": jit, "pick": pick, "plan": plan, "sched": [list(s) for s in sched], "seed": seed}
                ctx.violation("%s [%s worker, max_requests=%d jitter=%d pick=%d]: %s" % (fails[0][0], kind, mr, jit, pick, fails[0][1]),
                              {"kind": "schedule", "spec": spec, "failures": [list(f) for f in fails]})
                return
    finally:
        L.remove_patches()
        ctx.extra["search_runs"] = tried


def replay(rep):
    if rep.get("kind") == "gthread-queue":
        res = gthread_queue_probe(rep["threads"], rep["max_requests"], rep["nclients"])
        fs = judge_gthread_queue(res)
        print({k: v for k, v in res.items() if k != "answers"}, [a[:30] for a in res["answers"]])
        print("failures:", fs)
        return 1 if fs else 0
    if rep.get("kind") == "real-inflight":
        res = real_inflight_probe(*rep["args"]) if rep.get("args") else real_inflight_probe(rep["cls"], rep["slow_on_second"])
        fs = judge_real_inflight(res)
        print(res)
        print("failures:", fs)
        return 1 if fs else 0
    if rep.get("kind") == "real-pair-recycle":
        res = real_pair_recycle_probe(*rep["args"])
        fs = judge_pair_recycle(res)
        print(res)
        print("failures:", fs)
        return 1 if fs else 0
    if rep.get("kind") == "sync-backlog":
        res = sync_backlog_probe(rep["max_requests"], 6, rep["listeners"])
        fs = judge_sync_backlog(res, rep["max_requests"])
        print(res)
        print("failures:", fs)
        return 1 if fs else 0
    if rep.get("kind") == "d14":
        res = d14_probe()
        print(res)
        return 1 if (res["accepted"] >= 2 and not res["B"].startswith(b"HTTP/1.1 200")) or not res["A"].startswith(b"HTTP/1.1 200") else 0
    s = rep["spec"]
    try:
        R, obs, expr, fails = run_one(s["kind"], s["mr"], s["jit"], s["pick"], s["plan"], [tuple(x) for x in s["sched"]],
                                      __import__("random").Random(s["seed"]))
    finally:
        L.remove_patches()
    for k, st in enumerate(R.steps):
        print("step", k, "conn", st["conn"], "apps", st["n_app"], "alive", st["alive_before"], "->", st["alive_after"], "ended", st["ended"], st["wire"][:100])
    print("failures:", fails)
    return 1 if fails else 0
