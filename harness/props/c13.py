"""C13 - threaded worker accounting.

The REAL gunicorn.workers.gthread.ThreadWorker (run(), accept, on_client_socket_readable, murder_keepalived,
handle, finish_request - nothing replicated) is driven by harness/lib_gthread.py under a deterministic cooperative
scheduler; schedules are generated on line from what is possible in the real worker's current state (parked
threads, client side), executed step by step, and
  * step 3: the state after every step (park point of the main thread, nr_conns, alive, futures, _keep with its
    deadlines, poller registrations, closes and responses per connection, request counter) is compared with
    Model/GThread.v evaluated by the Coq kernel on the same schedule;
  * step 4: the property itself is judged on the real run (independent of the model): accounting at loop heads,
    no double close, no close while a job of the connection is queued/running, the connection bound, no reaper
    close before the keep-alive time, and - in a deterministic epilogue that lets every thread run - every idle
    keep-alive connection expires, every request that arrived is answered, everything returns to zero.
"""
import json

import vlib
import lib_gthread as L

HEADER = """From Coq Require Import List ZArith Bool.
From GV Require Import Base.Enc Model.GThread.
Import ListNotations.
Open Scope Z_scope.
"""


# ---------------------------------------------------------------------------------------------------------
# schedule generation (on line, against the real worker)
# ---------------------------------------------------------------------------------------------------------

def choose_step(rng, w, nconn_cap, prof):
    """Pick the next schedule step from what the real worker / clients can do now."""
    en = w.enabled()
    opts = []
    for e in en:
        if e[0] == "m":
            opts += [e] * prof["main"]
        elif e[0] == "cancel":
            opts += [e] * prof["cancel"]
        else:
            opts += [e] * prof["pool"]
    live = [s for s in w.socks if not s.eof]
    if len(w.socks) < nconn_cap:
        opts += [("connect",)] * prof["connect"]
    for s in live:
        opts += [("send", s.cid)] * prof["send"]
        opts += [("cclose", s.cid)] * prof["cclose"]
    opts += [("tick",)] * prof["tick"]
    if rng.random() < prof["term"]:
        opts.append(("term",))
    if rng.random() < prof["term"] / 2:
        opts.append(("orphan",))
    if rng.random() < 0.04 and w.jobs:
        # a step that must NOT be possible: model and driver have to agree on that too
        j = rng.choice(w.jobs)
        opts.append((rng.choice(["start", "handle", "finish", "finlock"]), j.cid))
    e = rng.choice(opts)
    if e[0] == "m":
        evs = []
        if w.main_label() == "select":
            evs = w.ready_events()
            rng.shuffle(evs)
            if evs and rng.random() < 0.15:
                evs = evs[:rng.randrange(len(evs))]          # the rest became readable "just after"
            if rng.random() < 0.05 and not any(x[0] == "acc" for x in evs):
                evs.append(("acc", rng.randrange(w.cfgv[4])))    # spurious listener wake-up (EAGAIN)
        inline = rng.random() < prof["inline"] and len(w.running_jobs()) < w.cfgv[0]
        return ("m", evs, 1 if inline else 0)
    if e[0] == "send":
        r = rng.random()
        if r < 0.55:
            ks = ["KA"]
        elif r < 0.70:
            ks = ["CL"]
        elif r < 0.76:
            ks = ["ERR"]
        elif r < 0.80:
            ks = ["BAD"]
        elif r < 0.93:
            ks = ["KA", rng.choice(["KA", "CL"])]
        else:
            ks = ["KA", "KA", "KA"]
        return ("send", e[1], ks)
    return e


PROFILES = [
    dict(main=6, pool=4, cancel=0, connect=2, send=2, cclose=1, tick=2, term=0.02, inline=0.15),
    dict(main=8, pool=3, cancel=1, connect=3, send=1, cclose=1, tick=1, term=0.0, inline=0.3),
    dict(main=5, pool=5, cancel=0, connect=1, send=3, cclose=0, tick=3, term=0.05, inline=0.0),
    dict(main=10, pool=2, cancel=0, connect=4, send=2, cclose=2, tick=1, term=0.0, inline=0.5),
]


def enc_snapshot(sn):
    out = [sn["park"], sn["nr_conns"], 1 if sn["alive"] else 0, sn["nfut"], sn["nfut_pending"]]
    out += vlib.enc_list(vlib.enc_int, sn["keep"])
    out += vlib.enc_list(lambda d: [-1 if d is None else int(d)], sn["deadlines"])
    out += vlib.enc_list(vlib.enc_int, sn["registered"])
    out += vlib.enc_list(vlib.enc_int, sn["closes"])
    out += vlib.enc_list(vlib.enc_int, sn["responses"])
    out += [sn["nr"]]
    return out


def coq_label(st):
    k = st[0]
    n = lambda x: "%d%%nat" % x
    if k == "m":
        evs = "; ".join(("EvAcc %s" % n(e[1])) if e[0] == "acc" else ("EvRd %s" % n(e[1])) for e in st[1])
        return "LMain [%s] %s" % (evs, vlib.coq_bool(st[2]))
    if k in ("start", "handle", "finish", "finlock", "cancel"):
        return "%s %s" % ({"start": "LStart", "handle": "LHandle", "finish": "LFinish", "finlock": "LFinLock",
                           "cancel": "LCancel"}[k], n(st[1]))
    if k == "connect":
        return "LConnect"
    if k == "send":
        return "LSend %s [%s]" % (n(st[1]), "; ".join(st[2]))
    if k == "cclose":
        return "LCClose %s" % n(st[1])
    return {"term": "LTerm", "tick": "LTick", "orphan": "LOrphan"}[k]


def model_expr(cfgv, steps):
    th, wc, ka, mr, nl = cfgv
    g = "(mkCfg %d %d %d %d %d%%nat)" % (th, wc, ka, mr, nl)
    return "run_obs %s (init %s) [%s]" % (g, g, "; ".join(coq_label(s) for s in steps))


# ---------------------------------------------------------------------------------------------------------
# running a schedule on the real worker, with the property oracle
# ---------------------------------------------------------------------------------------------------------

class Run:
    def __init__(self, cfgv):
        self.cfgv = tuple(cfgv)
        self.w = L.World(*cfgv)
        self.steps = []
        self.obs = []
        self.fails = []          # (kind, text)
        self.known = []          # (key, text)
        self.idle_since = {}     # cid -> virtual time when its last job finished with keep-alive
        self.stopped_alive = False

    def close(self):
        self.w.close()

    def do(self, st):
        w = self.w
        before_closes = len(w.close_log)
        before_anom = len(w.anomalies)
        keep_before = len(w.worker._keep)
        out_before = len(w.socks[st[1]].out) if st[0] == "handle" and st[1] < len(w.socks) else 0
        ok = w.do(st)
        if ok and st[0] == "handle":
            # admission to the keep-alive queue: a handler that starts while the queue already holds worker_connections - threads
            # idle connections answers with Connection: close (that bound is what leaves a slot for connections with requests)
            th, wc, ka, mr, nl = self.cfgv
            head = bytes(w.socks[st[1]].out[out_before:]).split(b"\r\n\r\n", 1)[0].lower()
            if ka > 0 and w.worker.alive and keep_before >= max(0, wc - th) and b"connection: keep-alive" in head:
                self.fails.append(("kept-beyond-budget", "connection %d was answered with Connection: keep-alive although the keep-alive queue "
                                   "already held %d idle connection(s) when its handler started (worker_connections - threads = %d)"
                                   % (st[1], keep_before, max(0, wc - th))))
        self.steps.append(st)
        sn = w.snapshot()
        self.obs += ([1] + enc_snapshot(sn)) if ok else [0]
        if ok:
            self.judge(st, sn, before_closes, before_anom)
        return ok

    # -- safety part of the property, judged after every step of the real run --
    def judge(self, st, sn, before_closes, before_anom):
        w = self.w
        th, wc, ka, mr, nl = self.cfgv
        for a in w.anomalies[before_anom:]:
            self.fails.append((a[0], "%s on connection %d at step %d %r" % (a[0], a[1], len(self.steps), st)))
        exc = w.main_exc()
        if exc is not None and not getattr(self, "_exc_seen", False):
            self._exc_seen = True
            self.fails.append(("main-loop-died", "run() raised %s: %s" % (type(exc).__name__, exc)))
        if st[0] == "finish":
            j = [x for x in w.jobs if x.cid == st[1]][-1]
            if j.result:
                self.idle_since[st[1]] = w.now
        # reaper closes: never before the keep-alive time has passed since the connection became idle
        for cl in w.close_log[before_closes:]:
            if cl["by"] == "main" and st[0] == "m" and not st[2] and cl["cid"] in self.idle_since:
                conn = self.conn_of(w.socks[cl["cid"]])
                if conn is not None and self.parser_buffered(conn):
                    self.known.append(("gthread-pipelined-request-dropped",
                                       "connection %d closed at keep-alive expiry with %d unparsed request bytes in its parser"
                                       % (cl["cid"], self.parser_buffered(conn))))
                t0 = self.idle_since[cl["cid"]]
                if cl["now"] < t0 + ka:
                    self.fails.append(("keepalive-closed-early",
                                       "connection %d idle since t=%d closed by the reaper at t=%d, keepalive=%d"
                                       % (cl["cid"], t0, cl["now"], ka)))
        # the reaper runs in EVERY iteration of the main loop, busy or not: an idle connection that was already past its deadline
        # when the loop last stood at its head is gone when the loop stands there again
        # (judged at poller.select only: futures.wait is a park point in the middle of an iteration as well)
        if st[0] == "m" and w.main_label() == "select" and w.worker.alive:
            first = w.worker._keep[0] if w.worker._keep else None
            mark = None
            if first is not None:
                s0 = first.sock
                if first.timeout <= w.now and s0.closes == 0 and not s0.inbuf and not s0.eof:
                    mark = (s0.cid, first.timeout)
            if mark is not None and mark == getattr(self, "_expired_at_head", None):
                self.fails.append(("keepalive-not-reaped", "connection %d, the oldest idle one, was past its keep-alive deadline (%r, t=%d) when "
                                   "the main loop stood at poller.select, and it still is when the loop stands there again: a whole "
                                   "iteration without closing it" % (mark[0], mark[1], w.now)))
            self._expired_at_head = mark
        elif st[0] == "m":
            self._expired_at_head = None if not w.worker.alive else getattr(self, "_expired_at_head", None)
        open_socks = len([s for s in w.socks if s.accepted and s.closes == 0])
        bound = wc + nl - 1
        if open_socks > bound or sn["nr_conns"] > bound:
            self.fails.append(("bound-exceeded", "%d open connections, nr_conns=%d, worker_connections=%d, listeners=%d"
                               % (open_socks, sn["nr_conns"], wc, nl)))
        # the budget of idle keep-alive connections: worker_connections - threads, plus at most threads - 1 handlers that passed
        # the admission test together (it is this budget that leaves a slot for a connection with a request on it)
        budget = max(0, wc - th) + max(0, th - 1)
        if len(w.worker._keep) > budget and ka > 0:
            self.fails.append(("keepalive-budget-exceeded", "the keep-alive queue holds %d idle connections; worker_connections - threads = %d "
                               "(+ %d for handlers admitted together): with them and one more connection the worker is full of idle "
                               "connections while every handler thread is free" % (len(w.worker._keep), max(0, wc - th), max(0, th - 1))))
        if w.main_label() in ("select", "wait") and sn["nr_conns"] != open_socks:
            self.fails.append(("accounting", "at the loop head nr_conns=%d but %d accepted connections are open"
                               % (sn["nr_conns"], open_socks)))

    # -- liveness part: a deterministic epilogue in which every thread gets to run --
    def settle(self, rounds=40):
        """Let the main loop iterate (select reporting everything readable) and all jobs run until nothing changes."""
        w = self.w
        last = None
        for _ in range(rounds):
            for _ in range(200):
                en = [e for e in w.enabled() if e[0] not in ("m", "cancel")]
                if not en:
                    break
                self.do(en[0])
            if w.main_label() is None:
                break
            # one full iteration of the main loop (up to the next loop head)
            passed_wait = False
            for i in range(400):
                lab = w.main_label()
                if lab is None:
                    break
                if lab == "wait":
                    passed_wait_next = True
                else:
                    passed_wait_next = passed_wait
                evs = w.ready_events() if lab == "select" else []
                self.do(("m", evs, 0))
                new = w.main_label()
                if new is None or new == "select" or (new == "wait" and passed_wait):
                    break
                passed_wait = passed_wait_next
            sn = json.dumps(w.snapshot(), sort_keys=True) + repr([(j.cid, j.state) for j in w.jobs])
            if sn == last and not [e for e in w.enabled() if e[0] not in ("m", "cancel")]:
                break
            last = sn

    def epilogue(self):
        w = self.w
        th, wc, ka, mr, nl = self.cfgv
        if self.fails:
            return
        # 1. requests that arrived are answered as long as the worker is serving
        self.settle()
        self.classify_unserved("after letting the loop and the handler threads run")
        if self.fails:
            return
        # 2. idle keep-alive connections expire
        for _ in range(ka + 1):
            self.do(("tick",))
        self.settle()
        now0 = w.now
        self.settle(rounds=2)            # at least one more full iteration of the loop, no clock tick
        if w.worker.alive and w.main_label() is not None:
            blocked = False
            for c in list(w.worker._keep):
                s = c.sock
                if c.timeout > now0:
                    blocked = True       # the reaper stops at the first connection that has not expired
                elif not blocked and s.closes == 0 and not s.inbuf and not s.eof:
                    self.fails.append(("keepalive-not-expired", "connection %d still idle in _keep at t=%d, deadline %r"
                                       % (s.cid, w.now, c.timeout)))
            # the same seen from the connections: an open, accepted connection that has been answered, has nothing to read,
            # whose client is still there and which no handler holds is an idle keep-alive connection - if the keep-alive
            # queue does not know it, nothing will ever close it (and, registered or not, its next request finds it gone
            # from the books)
            known_to_timer = set(c.sock.cid for c in w.worker._keep)
            for s in w.socks:
                if (s.accepted and s.closes == 0 and not s.inbuf and not s.eof and s.responses() >= 1
                        and w.job_state(s.cid) not in ("queued", "running", "returned")
                        and s.cid not in known_to_timer and not self.is_capacity_stall()):
                    self.fails.append(("keepalive-unknown-connection", "connection %d was answered and kept open, the keep-alive time "
                                       "has passed (t=%d), it is still open and the keep-alive queue does not hold it: _keep=%r registered=%r"
                                       % (s.cid, w.now, sorted(known_to_timer), w.registered_cids())))
        self.classify_unserved("after the keep-alive time")
        if self.fails:
            return
        # 3. clients leave: everything returns to zero
        for s in w.socks:
            if not s.eof:
                self.do(("cclose", s.cid))
        self.settle()
        for _ in range(ka + 1):
            self.do(("tick",))
        self.settle()
        if w.worker.alive and w.main_label() is not None:
            left = [s.cid for s in w.socks if s.accepted and s.closes == 0]
            if left or w.worker.nr_conns != 0:
                if self.is_capacity_stall():
                    self.known.append(("gthread-capacity-stall",
                                       "clients of connections %r left, nr_conns stays %d" % (left, w.worker.nr_conns)))
                else:
                    self.fails.append(("not-back-to-zero", "all clients left, connections %r still open, nr_conns=%d"
                                       % (left, w.worker.nr_conns)))

    def is_capacity_stall(self):
        """Signature of D20: the loop is in its wait branch (nr_conns >= worker_connections), no job is pending and
        no keep-alive connection is waiting to expire: nothing can ever free a slot."""
        w = self.w
        wk = w.worker
        open_socks = [s for s in w.socks if s.accepted and s.closes == 0]
        reg = set(w.registered_cids())
        return (wk.nr_conns >= wk.worker_connections and not [f for f in wk.futures if not f.done()]
                and not w.enabled()[1:] and w.wait_timeouts[-1:] == [1.0]
                # the accounting is intact: the slots are taken by really open, registered (idle) connections
                and wk.nr_conns == len(open_socks) and all(s.cid in reg for s in open_socks))

    def classify_unserved(self, when):
        w = self.w
        wk = w.worker
        if not wk.alive or w.main_label() is None:
            return          # told to stop: shutdown behaviour is property C04
        for s in w.socks:
            if not s.accepted or s.closes:
                continue
            conn = self.conn_of(s)
            buffered = self.parser_buffered(conn)
            if s.inbuf:
                # a request is readable on an open, accepted connection and nobody handles it
                if w.job_state(s.cid) in ("queued", "running", "returned"):
                    continue
                if self.is_capacity_stall():
                    self.known.append(("gthread-capacity-stall", "request on connection %d not dispatched %s (nr_conns=%d)"
                                       % (s.cid, when, wk.nr_conns)))
                else:
                    self.fails.append(("request-not-served", "request readable on connection %d is not dispatched %s; "
                                       "nr_conns=%d registered=%r" % (s.cid, when, wk.nr_conns, w.registered_cids())))
        # requests lost with their connection
        for s in w.socks:
            if s.accepted and s.closes and not s.eof:
                pass
        for s in w.socks:
            sent = getattr(s, "sent", 0)
            if not s.accepted or sent == 0:
                continue
            conn = self.conn_of(s)
            if conn is None:
                continue
            buffered = self.parser_buffered(conn)
            if buffered and conn in wk._keep and not s.inbuf:
                self.known.append(("gthread-pipelined-request-dropped",
                                   "connection %d idle in _keep with %d unparsed request bytes in its parser %s"
                                   % (s.cid, buffered, when)))

    def conn_of(self, s):
        for j in self.w.jobs:
            if j.cid == s.cid:
                return j.args[0]
        return None

    @staticmethod
    def parser_buffered(conn):
        try:
            return len(conn.parser.unreader.buf.getvalue())
        except Exception:
            return 0


def run_schedule(cfgv, steps, epilogue=True):
    """Replay a recorded schedule on the real worker (used for shrinking and --replay)."""
    r = Run(cfgv)
    try:
        for st in steps:
            r.do(tuple(st) if not isinstance(st, tuple) else st)
        if epilogue:
            r.epilogue()
        return r
    finally:
        r.close()


def gen_and_run(rng, cfgv, nsteps, prof, nconn_cap):
    r = Run(cfgv)
    try:
        for _ in range(nsteps):
            st = choose_step(rng, r.w, nconn_cap, prof)
            r.do(st)
        r.nsched = len(r.steps)
        r.epilogue()
        return r
    finally:
        r.close()


def fixed_schedules():
    m = lambda evs=(), inl=0: ("m", list(evs), inl)
    out = []
    # D20: worker_connections=1, the only connection is accepted and idle; its request is never polled
    out.append(((1, 1, 2, 0, 1), [("connect",), m([("acc", 0)]), m(), m(), m(), m(), ("send", 0, ["KA"]), m(), m(), m(), m()]))
    # D21: two pipelined requests in one segment; the second stays in the parser and is dropped at expiry
    out.append(((1, 2, 1, 0, 1), [("connect",), m([("acc", 0)]), m(), m(), m(), m(), ("send", 0, ["KA", "KA"]),
                                  m([("rd", 0)]), m(), m(), m(), ("start", 0), ("handle", 0), ("finish", 0), ("finlock", 0),
                                  m(), m(), m(), ("tick",), ("tick",), m(), m(), m(), m(), m()]))
    # plain keep-alive life cycle, inline job, expiry
    out.append(((2, 3, 1, 0, 1), [("connect",), m([("acc", 0)]), m(), m(), m(), m(), ("send", 0, ["KA"]),
                                  m([("rd", 0)]), m([], 1), m(), m(), m(), ("tick",), m(), m(), m(), m(), m()]))
    # max_requests reached: alive goes False inside a handler
    out.append(((1, 2, 2, 1, 1), [("connect",), m([("acc", 0)]), m(), m(), m(), m(), ("send", 0, ["KA"]),
                                  m([("rd", 0)]), m(), ("start", 0), ("handle", 0), ("finish", 0), m(), m(), m(), m()]))
    # cancel of a queued future
    out.append(((1, 2, 2, 0, 1), [("connect",), m([("acc", 0)]), m(), m(), m(), m(), ("send", 0, ["KA"]),
                                  m([("rd", 0)]), m(), ("cancel", 0), m(), m(), m()]))
    # parent gone while a keep-alive job finishes after the loop ended (register on the closed poller)
    out.append(((1, 3, 2, 0, 1), [("connect",), m([("acc", 0)]), m(), m(), m(), m(), ("send", 0, ["KA"]),
                                  m([("rd", 0)]), m(), ("start", 0), ("handle", 0), ("orphan",), m(), m(), m(),
                                  ("finish", 0), ("finlock", 0)]))
    # two handlers pass the keep-alive admission test together (threads = 2, one slot): the queue overshoots by one, both
    # connections are kept, both expire
    two = [("connect",), ("connect",), m([("acc", 0)]), m(), m(), m(), m(), m([("acc", 0)]), m(), m(), m(), m(),
           ("send", 0, ["KA"]), ("send", 1, ["KA"]), m([("rd", 0), ("rd", 1)]), m(), m(), m(),
           ("start", 0), ("start", 1), ("handle", 0), ("handle", 1), ("finish", 0), ("finlock", 0), ("finish", 1), ("finlock", 1),
           m(), m(), m(), m()]
    out.append(((2, 3, 2, 0, 1), list(two)))
    # ... and the one that was queued first sends its next request before the time is up
    out.append(((2, 3, 2, 0, 1), two + [("tick",), ("send", 0, ["KA"]), m([("rd", 0)]), m(), m(), m(), ("start", 0), ("handle", 0),
                                        ("finish", 0), ("finlock", 0), m(), m(), m()]))
    # threads = 2, worker_connections = 3 (one keep-alive slot): two connections served ONE AFTER THE OTHER both ask to be kept - the
    # second one is told to close
    out.append(((2, 3, 2, 0, 1), [("connect",), ("connect",), m([("acc", 0)]), m(), m(), m(), m(), m([("acc", 0)]), m(), m(), m(), m(),
                                  ("send", 0, ["KA"]), m([("rd", 0)]), m(), m(), m(), ("start", 0), ("handle", 0), ("finish", 0), ("finlock", 0),
                                  m(), m(), m(), ("send", 1, ["KA"]), m([("rd", 1)]), m(), m(), m(), ("start", 1), ("handle", 1),
                                  ("finish", 1), ("finlock", 1), m(), m(), m(), m()]))
    # two listeners: both report a connection in the same select
    out.append(((1, 1, 2, 0, 2), [("connect",), ("connect",), m([("acc", 0), ("acc", 1)]), m(), m(), m(), m(), m(), m()]))
    return out


def run(ctx):
    ok = ctx.build()
    quick = ctx.quick()
    nsched = 1200 if quick else 12000
    maxsteps = 25 if quick else 40
    runs = []
    for cfgv, steps in fixed_schedules():
        r = run_schedule(cfgv, steps)
        r.nsched = len(steps)
        runs.append(r)
    rng = ctx.rng
    for i in range(nsched):
        th = rng.choice([1, 2])
        wc = rng.choice([1, 2, 3])
        ka = rng.choice([0, 1, 2])
        mr = rng.choice([0, 0, 0, 0, 2, 3])
        nl = 1 if rng.random() < 0.9 else 2
        prof = PROFILES[i % len(PROFILES)]
        n = rng.randint(8, maxsteps)
        runs.append(gen_and_run(rng, (th, wc, ka, mr, nl), n, prof, nconn_cap=4))
    cases = []
    nfail = 0
    for r in runs:
        cases.append((model_expr(r.cfgv, r.steps), r.obs, (r.cfgv, r.steps)))
        kinds = set(s[0] for s in r.steps[:r.nsched])
        nontrivial = "m" in kinds and ("handle" in kinds or any(s[0] == "m" and s[2] for s in r.steps))
        ctx.count_case((r.cfgv, tuple(map(repr, r.steps[:r.nsched]))), nontrivial)
        ctx.hist("config(threads,conns,keepalive)", r.cfgv[:3])
        for s in r.steps[:r.nsched]:
            ctx.hist("steps", s[0])
        ctx.hist("schedule_len", len(r.steps[:r.nsched]) // 5 * 5)
        if len(r.steps) > 10:
            ctx.sample({"cfg(threads,worker_connections,keepalive,max_requests,listeners)": list(r.cfgv),
                        "schedule": [repr(s) for s in r.steps[:r.nsched]]})
        for key, text in r.known:
            ctx.hist("known", key)
        if r.fails:
            nfail += 1
    ctx.cov["rule"] = ("schedules of 8-%d steps over {main thread to its next yield point (select batch chosen from what is "
                       "readable, optionally inline jobs), job start/handle/finish/lock-block, cancel, connect, send (1-3 "
                       "requests, keep-alive/close/app error/malformed), client close, TERM, parent gone, clock tick} generated "
                       "on line from the enabled set of the REAL worker, threads in {1,2}, worker_connections in {1,2,3}, "
                       "keepalive in {0,1,2}, max_requests in {0,2,3}, 1-2 listeners, followed by a deterministic epilogue "
                       "(settle, expire, clients leave); non-trivial = the main loop ran and at least one request was handled; "
                       "distinct by (config, schedule)" % maxsteps)
    ctx.log("ran %d schedules on the real ThreadWorker; %d with oracle failures" % (len(runs), nfail))
    report_oracle(ctx, runs)
    for f in real_socket_keepalive_probe():
        ctx.violation("real sockets: " + f, {"kind": "real-socket-keepalive"})
    ctx.count_case(("real-socket-keepalive",), True)
    if not quick:
        real_process_probe(ctx)
    bad = ctx.correspond("sched", HEADER, cases, shard=100)
    if bad:
        i, m, im = bad[0]
        k = first_diff(m, im)
        ctx.broken.append("correspondence Model/GThread.v vs gunicorn/workers/gthread.py: %d of %d schedules differ; first: cfg=%r "
                          "steps=%r (observation index %d: model %r impl %r)"
                          % (len(bad), len(cases), cases[i][2][0], cases[i][2][1], k, m[k:k + 12], im[k:k + 12]))
        ctx.log("CORRESPONDENCE: %d schedules differ, e.g. cfg=%r %r" % (len(bad), cases[i][2][0], cases[i][2][1]))
        if not ctx.violations:
            search(ctx)
    elif (not ok or bad is None) and not ctx.violations:
        search(ctx)


def first_diff(a, b):
    for k in range(min(len(a), len(b))):
        if a[k] != b[k]:
            return k
    return min(len(a), len(b))


def still_fails(cfgv, kind):
    def f(steps):
        try:
            r = run_schedule(cfgv, steps)
        except Exception:
            return False
        return any(k == kind for k, _ in r.fails)
    return f


def report_oracle(ctx, runs):
    for r in runs:
        for key, text in r.known:
            if not ctx.known.has(ctx.prop, key):
                steps = vlib.shrink_list(r.steps[:r.nsched], lambda c, r=r, key=key: still_known(r.cfgv, key)(c), max_steps=120)
                ctx.violation("%s: %s" % (key, text), {"cfg": list(r.cfgv), "steps": [list(s) for s in steps], "kind": key}, key=key)
            else:
                ctx.violation(text, {}, key=key)
    reported = 0
    seen_kinds = set()
    for r in runs:
        if not r.fails or reported >= 3:
            continue
        kind, text = r.fails[0]
        if kind in seen_kinds:
            continue
        seen_kinds.add(kind)
        steps = vlib.shrink_list(r.steps[:r.nsched], still_fails(r.cfgv, kind), max_steps=60)
        r2 = run_schedule(r.cfgv, steps)
        f2 = [t for k, t in r2.fails if k == kind] or [text]
        ctx.violation("%s: %s" % (kind, f2[0]), {"cfg": list(r.cfgv), "steps": [list(s) for s in steps], "kind": kind,
                                                 "failures": f2[:5],
                                                 "executed_including_epilogue": [repr(s) for s in r2.steps]})
        reported += 1


def still_known(cfgv, key):
    def f(steps):
        try:
            r = run_schedule(cfgv, steps)
        except Exception:
            return False
        return any(k == key for k, _ in r.known)
    return f


def search(ctx):
    """Failing-input search: a larger oracle-only run (no model involved)."""
    ctx.log("failing-input search (oracle only) ...")
    rng = ctx.rng
    tried = 0
    for i in range(6000):
        cfgv = (rng.choice([1, 2]), rng.choice([1, 2, 3]), rng.choice([0, 1, 2]), rng.choice([0, 0, 2]), 1)
        try:
            r = gen_and_run(rng, cfgv, rng.randint(10, 40), PROFILES[i % len(PROFILES)], nconn_cap=4)
        except Exception as e:
            continue
        tried += 1
        if r.fails:
            report_oracle(ctx, [r])
            if ctx.violations:
                break
    ctx.extra["search_schedules"] = tried


def replay(rep):
    if rep.get("kind") == "real-socket-keepalive":
        fs = real_socket_keepalive_probe()
        print("failures:", fs)
        return 1 if fs else 0
    steps = [tuple(tuple(x) if isinstance(x, list) and x and isinstance(x[0], list) else x for x in s) for s in rep["steps"]]
    steps = [normalize(s) for s in rep["steps"]]
    r = run_schedule(tuple(rep["cfg"]), steps)
    for s in r.steps:
        print(s)
    print("oracle failures:", r.fails)
    print("known-finding signatures:", r.known)
    kind = rep.get("kind")
    if any(k == kind for k, _ in r.fails) or any(k == kind for k, _ in r.known):
        return 1
    return 1 if r.fails else 0


def normalize(s):
    s = list(s)
    if s[0] == "m":
        return ("m", [tuple(e) for e in s[1]], s[2])
    return tuple(s)


# ---------------------------------------------------------------------------------------------------------
# thorough tier, supporting exploration: the two known findings on a real gunicorn process with real sockets
# ---------------------------------------------------------------------------------------------------------


def real_socket_keepalive_probe():
    """The REAL ThreadWorker.run() with real sockets (blocking modes, partial arrivals - what the scripted sockets of the
    schedules do not have): on one connection, request 1 in one piece, then request 2 in two pieces with a pause inside the
    head, then request 3 as head + body with a pause before the body.  A handler thread is free all the time, so every
    request must be served and the connection must stay open until the client leaves.  -> list of failures"""
    import logging
    import os
    import selectors
    import socket
    import threading
    import time
    import gunicorn.config
    import gunicorn.glogging
    from gunicorn.workers.gthread import ThreadWorker
    cfg = gunicorn.config.Config()
    cfg.set("threads", 2)
    cfg.set("keepalive", 5)
    cfg.set("graceful_timeout", 2)
    log = gunicorn.glogging.Logger(cfg)
    log.error_log.handlers = [logging.NullHandler()]
    log.error_log.propagate = False

    def app(environ, start_response):
        n = int(environ.get("CONTENT_LENGTH") or 0)
        body = ("%s %s %d" % (environ["REQUEST_METHOD"], environ["PATH_INFO"], len(environ["wsgi.input"].read(n)))).encode()
        start_response("200 OK", [("Content-Length", str(len(body)))])
        return [body]
    ls = socket.socket()
    ls.setsockopt(socket.SOL_SOCKET, socket.SO_REUSEADDR, 1)
    ls.bind(("127.0.0.1", 0))
    ls.listen(8)
    w = ThreadWorker(1, os.getppid(), [ls], app, 30, cfg, log)
    w.wsgi = app
    w.tpool = w.get_thread_pool()
    w.poller = selectors.DefaultSelector()
    w._lock = threading.RLock()
    t = threading.Thread(target=w.run, daemon=True)
    t.start()
    fails = []

    def answer(c, what, want):
        c.settimeout(4)
        data = b""
        try:
            while not data.endswith(want):
                blk = c.recv(65536)
                if not blk:
                    break
                data += blk
        except OSError as e:
            data += b"<" + type(e).__name__.encode() + b">"
        if not (data.startswith(b"HTTP/1.1 200") and data.endswith(want)):
            fails.append("%s was not served although a handler thread was free: the client received %r" % (what, data[:80]))
            return False
        # a response that announces "Connection: close" ends the connection: nothing more can be asked of it
        return b"connection: close" not in data.split(b"\r\n\r\n", 1)[0].lower()
    def send(c, data, what):
        try:
            c.sendall(data)
            return True
        except OSError as e:
            fails.append("%s: the worker had closed the connection (send failed with %s) although it was kept alive and the "
                         "keep-alive time (5 s) had not passed" % (what, type(e).__name__))
            return False
    try:
        c = socket.create_connection(ls.getsockname())
        c.sendall(b"GET /one HTTP/1.1\r\nHost: x\r\n\r\n")
        if answer(c, "request 1 (one piece)", b"GET /one 0"):
            time.sleep(0.3)
            ok = send(c, b"GET /two HTTP/1.1\r\nHo", "request 2")
            time.sleep(0.5)
            ok = ok and send(c, b"st: x\r\n\r\n", "request 2")
            if ok and answer(c, "request 2 of a kept-alive connection (head in two pieces)", b"GET /two 0"):
                time.sleep(0.3)
                ok = send(c, b"POST /three HTTP/1.1\r\nHost: x\r\nContent-Length: 10\r\n\r\n", "request 3")
                time.sleep(0.5)
                if ok and send(c, b"0123456789", "request 3"):
                    answer(c, "request 3 of a kept-alive connection (body after its head)", b"POST /three 10")
        c.close()
        # the first request of a fresh connection in two pieces
        c = socket.create_connection(ls.getsockname())
        c.sendall(b"GET /four HT")
        time.sleep(0.4)
        c.sendall(b"TP/1.1\r\nHost: x\r\n\r\n")
        answer(c, "request 1 of a connection (head in two pieces)", b"GET /four 0")
        c.close()
    finally:
        w.alive = False
        t.join(6)
        ls.close()
        try:
            w.tmp.close()
        except Exception:
            pass
    return fails

def real_process_probe(ctx):
    import os
    import socket
    import subprocess
    import sys
    import tempfile
    import time
    d = tempfile.mkdtemp(prefix="c13-real-", dir=str(vlib.VERIF / ".build"))
    res = {}
    try:
        with open(os.path.join(d, "app13.py"), "w") as fh:
            fh.write("def app(environ, start_response):\n"
                     "    body = b'ok'\n"
                     "    start_response('200 OK', [('Content-Type','text/plain'),('Content-Length',str(len(body)))])\n"
                     "    return [body]\n")
        for name, wc, th, ka in (("D20", 1, 1, 5), ("D21", 3, 1, 2)):
            sockp = os.path.join(d, name + ".sock")
            env = vlib.impl_env()
            env["PYTHONPATH"] = str(vlib.REPO) + os.pathsep + d
            p = subprocess.Popen([sys.executable, "-m", "gunicorn", "-k", "gthread", "--threads", str(th),
                                  "--worker-connections", str(wc), "--keep-alive", str(ka), "-w", "1",
                                  "-b", "unix:" + sockp, "--chdir", d, "app13:app"],
                                 env=env, stdout=subprocess.DEVNULL, stderr=subprocess.DEVNULL)
            try:
                for _ in range(100):
                    if os.path.exists(sockp):
                        break
                    time.sleep(0.1)
                time.sleep(1.0)
                c = socket.socket(socket.AF_UNIX, socket.SOCK_STREAM)
                c.connect(sockp)
                c.settimeout(4.0)
                if name == "D20":
                    time.sleep(1.5)                 # accepted and idle: the worker is at capacity
                    c.sendall(L.REQ["KA"])
                    try:
                        data = c.recv(4096)
                    except socket.timeout:
                        data = None
                    res[name] = "no answer within 4 s" if data is None else "answered (%d bytes)" % len(data)
                else:
                    c.sendall(L.REQ["KA"] + L.REQ["KA"])
                    got = b""
                    t0 = time.time()
                    try:
                        while time.time() - t0 < ka + 3:
                            chunk = c.recv(4096)
                            if not chunk:
                                break
                            got += chunk
                    except (socket.timeout, ConnectionResetError):
                        pass
                    res[name] = "%d response(s) for 2 pipelined requests" % got.count(b"HTTP/1.1 ")
                c.close()
            finally:
                p.terminate()
                try:
                    p.wait(10)
                except Exception:
                    p.kill()
    except Exception as e:      # supporting exploration only
        res["error"] = repr(e)
    finally:
        import shutil
        shutil.rmtree(d, ignore_errors=True)
    ctx.extra["real_process_probe"] = res
    ctx.log("real gthread worker over unix sockets: %r" % (res,))
    if res.get("D20", "").startswith("no answer"):
        ctx.violation("real process: " + res["D20"], {"kind": "gthread-capacity-stall", "real_process": True},
                      key="gthread-capacity-stall")
    if res.get("D21", "").startswith("1 response"):
        ctx.violation("real process: " + res["D21"], {"kind": "gthread-pipelined-request-dropped", "real_process": True},
                      key="gthread-pipelined-request-dropped")
