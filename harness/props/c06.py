"""C06 - parsing does not depend on how bytes are split across reads.
Real RequestParser under many segmentations of the same stream, compared (a) with Model/Parser.v
evaluated by the Coq kernel and (b) with itself on the unsegmented stream (the property oracle)."""
import vlib
import lib_parser as lp


def gen_cases(ctx, n_streams, kinds):
    rng = ctx.rng
    specs = [lp.make_spec()] * 6 + lp.small_limit_specs() + lp.flag_specs()
    cases = []
    for _ in range(n_streams):
        spec = rng.choice(specs)
        s, infos, mutated = lp.gen_stream(rng, spec)
        progs = [lp.gen_prog(rng, len(i["body"])) for i in infos] + [[("read", None)]]
        if not s:
            continue
        cases.append((spec, s, progs, mutated))
    return cases


def fixed_cases():
    """Corpus: the situations named by the property and by the fixed defects."""
    out = []
    d = lp.make_spec()
    # D6: header cap straddle
    sp = lp.make_spec(limit_request_fields=1, limit_request_field_size=10)
    s = b"GET / HTTP/1.1\r\nA: b\r\n\r\nGET /second HTTP/1.1\r\nA: b\r\n\r\n"
    out.append((sp, s, [[], []], False))
    # chunk terminator read-ahead, size line split, trailer split
    s = b"POST / HTTP/1.1\r\nTransfer-Encoding: chunked\r\n\r\n5\r\nhello\r\n3;x=y\r\nabc\r\n0\r\nX-T: 1\r\n\r\nGET /n HTTP/1.1\r\n\r\n"
    out.append((d, s, [[("read", None)], []], False))
    out.append((d, s, [[("read", 2), ("readline", None)], []], False))
    out.append((d, s, [[], []], False))
    s = b"POST / HTTP/1.1\r\nContent-Length: 10\r\n\r\n0123456789POST /b HTTP/1.1\r\nContent-Length: 3\r\n\r\nabcGET /c HTTP/1.1\r\n\r\n"
    out.append((d, s, [[("read", 4)], [("readline", None)], []], False))
    out.append((lp.make_spec(proxy_protocol=True), b"PROXY TCP4 192.168.0.1 192.168.0.11 56324 443\r\nGET / HTTP/1.1\r\nHost: x\r\n\r\nGET /2 HTTP/1.1\r\n\r\n", [[], []], False))
    out.append((lp.make_spec(limit_request_line=10), b"GET /aaaaaaaaaaaaaaaaaaaaaaaaaaaa HTTP/1.1\r\n\r\n", [[]], False))
    # a PROXY line against the line limit, in both directions: longer than a small limit_request_line, and very long (zero-padded
    # ports) under the default limit - whatever the verdict, it is the same for a first read of 1 byte and of 100
    pline = b"PROXY TCP4 192.168.0.1 192.168.0.11 56324 443\r\n"
    rest = b"GET /p HTTP/1.1\r\nHost: x\r\n\r\nGET /2 HTTP/1.1\r\n\r\n"
    for lim in (20, 40, 46, 47, 60):
        out.append((lp.make_spec(proxy_protocol=True, limit_request_line=lim), pline + rest, [[], []], False))
    for pad in (40, 60, 200):
        long_line = b"PROXY TCP4 192.168.0.1 192.168.0.11 " + b"0" * pad + b"56324 " + b"0" * pad + b"443\r\n"
        out.append((lp.make_spec(proxy_protocol=True), long_line + rest, [[], []], False))
        out.append((lp.make_spec(proxy_protocol=True, limit_request_line=150), long_line + rest, [[], []], False))
    # an empty line where a request line is expected: before the first request, after a body
    out.append((d, b"\r\nGET /only HTTP/1.1\r\nHost: example\r\n\r\n", [[]], False))
    out.append((d, b"POST /form HTTP/1.1\r\nHost: example\r\nContent-Length: 7\r\n\r\na=1&b=2\r\nGET /next HTTP/1.1\r\nHost: example\r\n\r\n", [[], []], False))
    out.append((d, b"POST /form HTTP/1.1\r\nTransfer-Encoding: chunked\r\n\r\n3\r\nabc\r\n0\r\n\r\n\r\n\r\nGET /next HTTP/1.1\r\n\r\n", [[("read", None)], []], False))
    # every truncation of two short pipelines (the stream ends inside a head, a chunk-size line, chunk data, a chunk
    # terminator, the trailer section, a Content-Length body): whatever the parser answers must not depend on the reads
    t1 = b"POST /a HTTP/1.1\r\nTransfer-Encoding: chunked\r\n\r\n5\r\nhello\r\n3;x=y\r\nabc\r\n0\r\nX-T: 1\r\n\r\nGET /n HTTP/1.1\r\n\r\n"
    t2 = b"POST /b HTTP/1.1\r\nContent-Length: 10\r\n\r\n0123456789GET /c HTTP/1.1\r\nHost: x\r\n\r\n"
    for t in (t1, t2):
        for i in range(1, len(t)):
            out.append((d, t[:i], [[("read", None)], []], True))
    # a chunk that is not closed by CRLF (junk after its data, or the stream ends there), with chunks larger and smaller than
    # the sizes the application reads with: how many body bytes it has been given when the stream is refused is part of
    # "every body byte ... and the point at which the stream is rejected"
    for size in (1, 10, 1500, 3072):
        data = bytes((i * 11 + 1) % 251 for i in range(size))
        head = b"POST /c HTTP/1.1\r\nTransfer-Encoding: chunked\r\n\r\n"
        for bad in (b"XX", b"\rX", b"\n\r", b""):
            for pre in (b"", b"4\r\nabcd\r\n"):
                stream = head + pre + (b"%x\r\n" % size) + data + bad + (b"0\r\n\r\n" if bad else b"")
                for prog in ([("read", 1024)] * 5, [("read", 1)] * 4 + [("read", None)], [("readline", None)] * 3, [("read", size)] + [("read", 7)] * 2,
                             [("iter", None)] if False else [("read", 100), ("readline", 50), ("read", None)]):
                    out.append((d, stream, [list(prog), []], True))
    # the lines INSIDE a chunked body against their bound (limit_request_fields * (limit_request_field_size + 2) + 4 for one
    # chunk-size line with its extensions, and for the trailer block): lengths on both sides of it - accepted or refused, the
    # verdict is a function of the bytes
    for (nf, fs) in ((2, 30), (3, 26)):
        sp = lp.make_spec(limit_request_fields=nf, limit_request_field_size=fs)
        bound = nf * (fs + 2) + 4
        head = b"POST /c HTTP/1.1\r\nTransfer-Encoding: chunked\r\n\r\n"
        tail = b"GET /n HTTP/1.1\r\nHost: x\r\n\r\n"
        for total in (bound - 3, bound - 2, bound - 1, bound, bound + 1, bound + 2, bound + 9, bound + 40, 3 * bound):
            line = b"5;pad=" + b"x" * (total - 2 - 6)                 # len(line + CRLF) == total
            out.append((sp, head + line + b"\r\nhello\r\n0\r\n\r\n" + tail, [[("read", None)], []], True))
            out.append((sp, head + b"3\r\nabc\r\n" + line + b"\r\nhello\r\n0\r\n\r\n" + tail, [[("read", 2), ("read", None)], []], True))
            last = b"0;pad=" + b"x" * (total - 2 - 6)
            out.append((sp, head + b"5\r\nhello\r\n" + last + b"\r\n\r\n" + tail, [[("read", None)], []], True))
            trl = b"X-T: " + b"t" * max(1, min(fs - 5, total - 9))
            blk = trl + b"\r\n"
            while len(blk) + 2 < total:
                blk += b"Y: " + b"u" * max(0, min(fs - 3, total - len(blk) - 2 - 5)) + b"\r\n"
            out.append((sp, head + b"5\r\nhello\r\n0\r\n" + blk + b"\r\n" + tail, [[("read", None)], []], True))
        # an EMPTY trailer section followed by a request whose head ends beyond that bound (in one read, the end of the body
        # and the whole next head are in the buffer together): the next request's bytes are not the trailer block's
        for extra in (bound - 20, bound + 40, 4 * bound):
            nxt = b"GET /" + b"a" * extra + b" HTTP/1.1\r\nHost: x\r\n\r\n"
            out.append((sp, head + b"5\r\nhello\r\n0\r\n\r\n" + nxt + tail, [[("read", None)], [], []], True))
            out.append((sp, head + b"5\r\nhello\r\n0\r\n\r\n" + nxt, [[], []], True))
    return out


def obs_for(spec, s, progs, chunks):
    return lp.run_impl(spec, chunks, progs)


def run(ctx):
    ok = ctx.build()
    quick = ctx.quick()
    n_streams = 700 if quick else 20000
    kinds = ["whole", "bytes", "lines", "random", "random", "cut", "small"] if quick else \
            ["whole", "bytes", "lines", "random", "random", "random", "cut", "cut", "cut", "small", "small"]
    base = [(sp, s, pr, m) for (sp, s, pr, m) in fixed_cases()] + gen_cases(ctx, n_streams, kinds)
    cases = []          # for the model correspondence
    oracle_fail = []
    npairs = 0
    for (spec, s, progs, mutated) in base:
        try:
            whole_obs, _ = lp.run_impl(spec, [c for _, chs in lp.segmentations(ctx.rng, s, ["whole"]) for c in chs], progs)
        except Exception as e:                # harness-level failure: treat as broken tie
            raise
        segs = list(lp.segmentations(ctx.rng, s, kinds))
        if len(s) <= 300:
            # every single cut position of short streams
            segs += [("cut@%d" % c, [s[:c], s[c:]]) for c in range(1, len(s))][:: (1 if quick and len(s) <= 120 else 3)]
        for name, chunks in segs:
            # one pair in four goes through the socket interface (SocketUnreader.chunk = recv), the others through IterUnreader
            via_sock = ctx.rng.random() < 0.25
            try:
                obs, rec = lp.run_impl(spec, chunks, progs, sock=via_sock)
            except Exception as e:
                if not via_sock:
                    raise
                # the same bytes cannot even be read through the socket interface
                oracle_fail.append((spec, s, progs, chunks, ["%s: %s" % (type(e).__name__, e)], whole_obs, via_sock))
                continue
            ctx.hist("source", "socket" if via_sock else "iterator")
            npairs += 1
            nontrivial = len(chunks) > 1 and 100 in obs
            ctx.count_case((s, tuple(len(c) for c in chunks), repr(progs), repr(sorted(spec.items(), key=str))), nontrivial)
            ctx.hist("segmentation", name.split("@")[0])
            ctx.hist("terminal", terminal_of(obs))
            if obs != whole_obs:
                oracle_fail.append((spec, s, progs, chunks, obs, whole_obs, via_sock))
            # a sample of the pairs goes to the model (the kernel is slower than the parser)
            if name in ("whole", "random", "lines", "small") or name.startswith("cut") and ctx.rng.random() < 0.08 or (name == "bytes" and len(s) < 400):
                if len(s) <= 6000:
                    cases.append((lp.model_expr(spec, chunks, progs, rec), obs,
                                  {"spec": spec, "stream": s, "chunks": [len(c) for c in chunks], "progs": progs}))
        ctx.hist("mutated", mutated)
        ctx.hist("requests_parsed", sum(1 for x in whole_obs if False) or whole_obs.count(100) if True else 0)
        if len(ctx.cov["samples"]) < 5 and len(s) < 200:
            ctx.sample({"stream": s.decode("latin-1"), "progs": repr(progs), "segmentations": [n for n, _ in segs][:8]})
    ctx.cov["rule"] = ("grammar-based request streams (1-3 pipelined requests, Content-Length / chunked with extensions and trailers / none, "
                       "PROXY line, small-limit and flag configs), ~35% mutated; each under segmentations {whole, per byte, per line, "
                       "random cuts, every single cut for short streams, fixed small blocks}; read program per request; "
                       "non-trivial = more than one read and at least one request parsed; distinct by (stream, cut positions, programs, config)")
    ctx.log("%d (stream, segmentation) pairs on the real parser; %d differ from the unsegmented run" % (npairs, len(oracle_fail)))
    for (spec, s, progs, chunks, obs, whole_obs, via_sock) in oracle_fail[:3]:
        ctx.violation("segmentation changes the parse: chunks %r give a different observation than the whole stream" % ([len(c) for c in chunks],),
                      {"kind": "c06", "spec": spec, "stream": s.decode("latin-1"), "chunks": [c.decode("latin-1") for c in chunks],
                       "progs": progs, "obs_segmented": obs, "obs_whole": whole_obs, "via_socket_interface": via_sock})
    # cap the model run
    limit = 2500 if quick else 15000
    if len(cases) > limit:
        ctx.rng.shuffle(cases)
        cases = cases[:limit]
    bad = ctx.correspond("parse", lp.HEADER, cases, shard=120)
    if bad:
        i, m, im = bad[0]
        info = cases[i][2]
        ctx.broken.append("correspondence Model/Parser.v vs RequestParser: %d of %d cases differ; first: stream=%r chunks=%r progs=%r model=%r impl=%r"
                          % (len(bad), len(cases), info["stream"], info["chunks"], info["progs"], m[:60], im[:60]))
        ctx.log("CORRESPONDENCE: %d cases differ" % len(bad))
        ctx.extra["first_disagreement"] = {"stream": info["stream"].decode("latin-1"), "chunks": info["chunks"], "progs": repr(info["progs"]),
                                           "model": m, "impl": im}


def terminal_of(obs):
    if obs and obs[-1] == 201:
        return "close"
    if len(obs) >= 2 and obs[-2] == 200:
        return lp.CODE_NAMES.get(obs[-1], str(obs[-1]))
    return "?"


def replay(rep):
    chunks = [c.encode("latin-1") for c in rep["chunks"]]
    s = rep["stream"].encode("latin-1")
    progs = [[tuple(c) for c in p] for p in rep["progs"]]
    a, _ = lp.run_impl(rep["spec"], chunks, progs, sock=rep.get("via_socket_interface", False))
    b, _ = lp.run_impl(rep["spec"], [s[i:i + 8192] for i in range(0, len(s), 8192)], progs)
    print("segmented:", a)
    print("whole    :", b)
    return 1 if a != b else 0
