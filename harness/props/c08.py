"""C08 - only trusted peers can set scheme, script name or client address.

The real handle() of SyncWorker, ThreadWorker and a minimal AsyncWorker subclass serves generated
connections over a socketpair with an arbitrary peer address; the environ is captured inside the
application.  Step 3 compares the whole observation (every environ, error status) with
Model/Environ.v evaluated by the Coq kernel; step 4 judges the property itself on the real environs
against the reference of harness/lib_env.py (trust rules written from the property text and the
settings documentation)."""
import vlib
import lib_env as L

P_LOOP = ("127.0.0.1", 5000)
P_CUSTOM = ("10.1.1.1", 5001)
P_OUT = ("8.8.8.8", 5002)
P_SUB = ("27.0.0.1", 5003)          # a substring of a default entry
P_SUB2 = ("0.1.1.1", 5004)          # a substring of the custom entry
P_V6 = ("::1", 5005, 0, 0)
P_LOOP2 = ("127.0.0.2", 5006)       # same network as a listed address, not listed
P_UNIX = ""
PEERS = [P_LOOP, P_CUSTOM, P_OUT, P_SUB, P_SUB2, P_V6, P_LOOP2, P_UNIX]
PEER_NAME = {P_LOOP: "loopback", P_CUSTOM: "custom-listed", P_OUT: "unlisted", P_SUB: "substring-of-default",
             P_SUB2: "substring-of-custom", P_V6: "ipv6-loopback", P_LOOP2: "other-loopback-unlisted", P_UNIX: "unix"}
ALLOW = ["127.0.0.1,::1", "10.1.1.1", "*"]
MODES = ["drop", "refuse", "dangerous"]
FWD_HEADERS = ["SCRIPT_NAME,PATH_INFO", "REMOTE_USER", "*"]

SCENARIOS = [
    ("proto-https", [("X-Forwarded-Proto", "https")]),
    ("proto-lower", [("x-forwarded-proto", "https")]),
    ("proto-underscore", [("X_Forwarded_Proto", "https")]),
    ("proto-mixed-underscore", [("X-Forwarded_Proto", "https")]),
    ("protocol-ssl+ssl-on", [("X-Forwarded-Protocol", "ssl"), ("X-Forwarded-Ssl", "on")]),
    ("scheme-conflict", [("X-Forwarded-Proto", "https"), ("X-Forwarded-Ssl", "off")]),
    ("scheme-conflict-rev", [("X-Forwarded-Ssl", "off"), ("X-Forwarded-Proto", "https")]),
    ("proto-http", [("X-Forwarded-Proto", "http")]),
    ("proto-value-case", [("X-Forwarded-Proto", "HTTPS")]),
    ("proto-twice", [("X-Forwarded-Proto", "https"), ("X-Forwarded-Proto", "https")]),
    ("script-name", [("SCRIPT_NAME", "/app")]),
    ("script-name-lower", [("script_name", "/app")]),
    ("script-name-hyphen", [("Script-Name", "/app")]),
    ("script-both", [("Script-Name", "/zzz"), ("SCRIPT_NAME", "/app")]),
    ("script-both-rev", [("SCRIPT_NAME", "/app"), ("Script-Name", "/zzz")]),
    ("script-twice", [("SCRIPT_NAME", "/zzz"), ("SCRIPT_NAME", "/app")]),
    ("path-info", [("PATH_INFO", "/evil")]),
    ("path-info-hyphen", [("Path-Info", "/evil")]),
    ("collide-xfoo", [("X-Foo", "1"), ("X_Foo", "2")]),
    ("collide-xfoo-rev", [("X_Foo", "2"), ("X-Foo", "1")]),
    ("same-name-case", [("X-Foo", "1"), ("x-foo", "2")]),
    # names that differ in a token character other than '-' / '_' are different fields with different variables
    ("collide-dot", [("X-Forwarded-For", "1.1.1.1"), ("X.Forwarded.For", "2.2.2.2")]),
    ("collide-dot-rev", [("X.Real.Ip", "2.2.2.2"), ("X-Real-Ip", "1.1.1.1")]),
    ("collide-tokens", [("X-Foo", "1"), ("X~Foo", "2"), ("X+Foo", "3"), ("X!Foo", "4"), ("X|Foo", "5")]),
    ("collide-proto-dot", [("X.Forwarded-Proto", "https"), ("X-Forwarded.Proto", "https")]),
    ("remote-user", [("REMOTE_USER", "root"), ("Remote-User", "joe")]),
    ("xff", [("X-Forwarded-For", "1.1.1.1"), ("X_Forwarded_For", "2.2.2.2")]),
    ("content-length-underscore", [("Content_Length", "5")]),
    ("none", []),
]

PROXY_VARIANTS = [
    ("none", None, None),
    ("tcp4@1", b"PROXY TCP4 1.2.3.4 5.6.7.8 1111 80", None),
    ("tcp6@1", b"PROXY TCP6 2001:db8::1 ::1 65535 0", None),
    ("bad-addr@1", b"PROXY TCP4 999.2.3.4 5.6.7.8 1111 80", None),
    ("bad-port@1", b"PROXY TCP4 1.2.3.4 5.6.7.8 65536 80", None),
    ("family-mismatch@1", b"PROXY TCP6 1.2.3.4 5.6.7.8 1111 80", None),
    ("sloppy@1", b"PROXYX TCP4 1.2.3.4 5.6.7.8 +1_1 \t80", None),
    ("nul-in-addr@1", b"PROXY TCP4 1.2.3.4\x00 5.6.7.8 1111 80", None),
    ("bad-then-nul@1", b"PROXY TCP6 ::g ::1\x00 1111 80", None),
    ("tcp4@2", None, b"PROXY TCP4 1.2.3.4 5.6.7.8 1111 80"),
    ("tcp4@1+other@2", b"PROXY TCP4 1.2.3.4 5.6.7.8 1111 80", b"PROXY TCP4 6.6.6.6 5.6.7.8 2222 80"),
]


def request(target, headers, version=b"1.1", method=b"GET"):
    out = method + b" " + target + b" HTTP/" + version + b"\r\n"
    for n, v in headers:
        n = n if isinstance(n, bytes) else n.encode("latin-1")
        v = v if isinstance(v, bytes) else v.encode("latin-1")
        out += n + b": " + v + b"\r\n"
    return out + b"\r\n"


def header_matrix():
    """peer x forwarded_allow_ips x header_map x forwarder_headers x scenario, one request each; the
    worker class rotates (the header path is shared by the three handle() implementations; the
    PROXY matrix below runs every cell on all three)."""
    cases = []
    kinds = ["sync", "gthread", "async"]
    n = 0
    for peer in PEERS:
        for allow in ALLOW:
            for mode in MODES:
                for fh in FWD_HEADERS:
                    for sname, hdrs in SCENARIOS:
                        cfg = {"forwarded_allow_ips": allow, "header_map": mode, "forwarder_headers": fh}
                        cases.append({"kind": kinds[n % 3], "cfg": cfg, "peer": peer,
                                      "data": request(b"/app/x?y=1", hdrs),
                                      "tag": ("hdr", PEER_NAME[peer], allow, mode, fh, sname)})
                        n += 1
    # scheme details: custom secure_scheme_headers, TLS listener, nobody trusted
    extra = [
        ({"secure_scheme_headers": {"X-SECURE": "yes"}}, [("X-Secure", "yes")]),
        ({"secure_scheme_headers": {"X-SECURE": "yes"}}, [("X-Forwarded-Proto", "https")]),
        ({"secure_scheme_headers": {"X-SECURE": "yes", "X-OTHER": "1"}}, [("X-Secure", "yes"), ("X-Other", "0")]),
        ({"is_ssl": True}, [("X-Forwarded-Proto", "http")]),
        ({"is_ssl": True}, [("X-Forwarded-Proto", "https"), ("X-Forwarded-Ssl", "off")]),
        ({"is_ssl": True}, []),
        ({"forwarded_allow_ips": ""}, [("X-Forwarded-Proto", "https"), ("SCRIPT_NAME", "/app")]),
        ({"os_script_name": "/app"}, [("SCRIPT_NAME", "/app/x")]),
        ({"os_script_name": "/app"}, [("Script-Name", "/zzz")]),
        ({"secure_scheme_headers": {}}, [("X-Forwarded-Proto", "https")]),
    ]
    for peer in PEERS:
        for over, hdrs in extra:
            for mode in MODES:
                cfg = dict(over, header_map=mode)
                cases.append({"kind": kinds[n % 3], "cfg": cfg, "peer": peer, "data": request(b"/app/x", hdrs),
                              "tag": ("scheme", PEER_NAME[peer], repr(sorted(over)), mode)})
                n += 1
    return cases


def proxy_matrix():
    cases = []
    for kind in ("sync", "gthread", "async"):
        for peer in PEERS:
            for pp in (False, True):
                for pallow in ALLOW:
                    for vname, first, second in PROXY_VARIANTS:
                        for depth in (1, 2, 3):
                            if second is not None and depth < 2:
                                continue
                            data = (first + b"\r\n") if first is not None else b""
                            for k in range(1, depth + 1):
                                if k == 2 and second is not None:
                                    data += second + b"\r\n"
                                data += request(b"/r%d" % k, [("X-K", str(k))])
                            cfg = {"proxy_protocol": pp, "proxy_allow_ips": pallow}
                            cases.append({"kind": kind, "cfg": cfg, "peer": peer, "data": data,
                                          "tag": ("proxy", kind, PEER_NAME[peer], pp, pallow, vname, depth)})
    # keepalive off, HTTP/1.0, Connection headers: how far the carry has to reach
    for kind in ("gthread", "async"):
        for peer in (P_LOOP, P_UNIX, P_OUT):
            base = b"PROXY TCP4 1.2.3.4 5.6.7.8 1111 80\r\n"
            variants = [
                ({"keepalive": 0}, base + request(b"/1", []) + request(b"/2", [])),
                ({}, base + request(b"/1", [], version=b"1.0") + request(b"/2", [])),
                ({}, base + request(b"/1", [("Connection", "keep-alive")], version=b"1.0") + request(b"/2", [("Connection", "Keep-Alive")], version=b"1.0") + request(b"/3", [])),
                ({}, base + request(b"/1", [("Connection", "close")]) + request(b"/2", [])),
                ({}, base + request(b"/1", [("Content-Length", "3")], method=b"POST") + b"abc" + request(b"/2", [])),
                ({}, base + request(b"/1", [("Transfer-Encoding", "identity")]) + request(b"/2", [])),
                ({}, base + request(b"/1", [("Transfer-Encoding", "gzip")]) + request(b"/2", [])),
                ({"forwarded_allow_ips": "*"}, base + request(b"/1", []) + request(b"/2", [("X-Forwarded-Proto", "https")]) + request(b"/3", [])),
            ]
            for over, data in variants:
                cfg = dict(over, proxy_protocol=True)
                cases.append({"kind": kind, "cfg": cfg, "peer": peer, "data": data,
                              "tag": ("proxy-extra", kind, PEER_NAME[peer], repr(sorted(over)))})
    return cases


# ---- random connections -------------------------------------------------------------------------------------

NAME_POOL = ["X-Forwarded-Proto", "X-Forwarded-Protocol", "X-Forwarded-Ssl", "SCRIPT_NAME", "PATH_INFO", "REMOTE_USER",
             "X-Forwarded-For", "X-Foo", "Host", "Content-Type", "X-Secure", "Forwarded", "REMOTE_ADDR", "X-Real-Ip"]
VALUE_POOL = ["https", "http", "ssl", "on", "off", "/app", "/", "/app/x", "1", "", "yes", "a,b", "HTTPS", "root"]


def vary_name(rng, name):
    out = []
    for ch in name:
        r = rng.random()
        if ch in "-_" and r < 0.35:
            ch = "_" if ch == "-" else "-"
        elif ch in "-_" and r < 0.43:
            ch = "."       # another token character: a different field name, a different variable
        elif ch.isalpha() and r < 0.3:
            ch = ch.swapcase()
        out.append(ch)
    return "".join(out)


def gen_random(rng):
    peer = rng.choice(PEERS + [("10.1.1.10", 7), ("127.0.0.11", 8)])
    cfg = {}
    if rng.random() < 0.7:
        cfg["forwarded_allow_ips"] = rng.choice(ALLOW + ["", "10.1.1.1,8.8.8.8", "::1"])
    if rng.random() < 0.7:
        cfg["header_map"] = rng.choice(MODES)
    if rng.random() < 0.5:
        cfg["forwarder_headers"] = rng.choice(FWD_HEADERS + ["", "SCRIPT_NAME", "X_FOO,SCRIPT_NAME", "script_name"])
    if rng.random() < 0.3:
        cfg["secure_scheme_headers"] = rng.choice([{"X-SECURE": "yes"}, {}, {"X-FORWARDED-PROTO": "https"},
                                                   {"X_FORWARDED_PROTO": "https", "X-FORWARDED-PROTO": "https"}])
    if rng.random() < 0.15:
        cfg["is_ssl"] = True
    if rng.random() < 0.5:
        cfg["proxy_protocol"] = True
    if rng.random() < 0.5:
        cfg["proxy_allow_ips"] = rng.choice(ALLOW + ["", "8.8.8.8"])
    if rng.random() < 0.2:
        cfg["os_script_name"] = rng.choice(["/app", "/a"])
    if rng.random() < 0.1:
        cfg["keepalive"] = 0
    kind = rng.choice(["sync", "gthread", "async"])
    depth = rng.choice([1, 1, 2, 3])
    data = b""
    if rng.random() < 0.45:
        data += rng.choice([v[1] for v in PROXY_VARIANTS if v[1]]) + b"\r\n"
    for k in range(depth):
        if k > 0 and rng.random() < 0.1:
            data += rng.choice([v[1] for v in PROXY_VARIANTS if v[1]]) + b"\r\n"
        hdrs = []
        for _ in range(rng.choice([0, 1, 2, 3, 4])):
            hdrs.append((vary_name(rng, rng.choice(NAME_POOL)), rng.choice(VALUE_POOL)))
        target = rng.choice([b"/app/x", b"/app", b"/a/b?c", b"/", b"*", b"http://h/app/x"])
        version = b"1.0" if rng.random() < 0.15 else b"1.1"
        if rng.random() < 0.1:
            hdrs.append(("Connection", rng.choice(["close", "keep-alive"])))
        data += request(target, hdrs, version=version)
    if rng.random() < 0.12 and len(data) > 4:
        # mutation stream: one byte changed somewhere
        i = rng.randrange(len(data))
        data = data[:i] + bytes([rng.choice([0, 9, 10, 13, 32, 58, 95, 45, 127, 200, rng.randrange(256)])]) + data[i + 1:]
    return {"kind": kind, "cfg": cfg, "peer": peer, "data": data, "tag": ("random",)}


# ---- the property, judged on the real environs ------------------------------------------------------------------

def judge(case):
    """Returns a list of (key or None, description)."""
    fails = []
    cfgd, peer, data, envs = case["cfg"], case["peer"], case["data"], case["envs"]
    proxy_line, reqs = L.split_requests(data)
    peer_host = peer[0] if isinstance(peer, tuple) else peer
    allowed = L.ref_proxy_allowed(cfgd, peer)
    strict = L.ref_proxy_line(proxy_line) if (proxy_line is not None and allowed) else None
    for k, env in enumerate(envs):
        # --- client address
        ra = env.get("REMOTE_ADDR")
        if ra != peer_host:
            declared = proxy_line.split(b" ")[2].decode("latin-1") if proxy_line and len(proxy_line.split(b" ")) > 2 else None
            if not allowed or proxy_line is None or ra != declared:
                fails.append((None, "request %d: REMOTE_ADDR %r is not the peer %r and not legitimately declared "
                                    "(proxy gate open: %s, first line: %r)" % (k + 1, ra, peer_host, allowed, proxy_line)))
        if strict is not None:
            want = (strict[0].decode(), strict[1].decode())
            if (ra, env.get("REMOTE_PORT")) != want:
                fails.append((None, "request %d: PROXY-declared client %r not applied: REMOTE_ADDR/PORT = %r" %
                              (k + 1, want, (ra, env.get("REMOTE_PORT")))))
        if k > 0 and (ra, env.get("REMOTE_PORT")) != (envs[0].get("REMOTE_ADDR"), envs[0].get("REMOTE_PORT")):
            fails.append((None, "request %d sees client %r, request 1 saw %r" %
                          (k + 1, (ra, env.get("REMOTE_PORT")), (envs[0].get("REMOTE_ADDR"), envs[0].get("REMOTE_PORT")))))
        # --- scheme, script name, path, header mapping
        if k >= len(reqs):
            continue
        exp, refuse = L.ref_env(cfgd, peer, reqs[k], None)
        if exp is None:
            continue
        if refuse:
            fails.append((None, "request %d was served although it must be refused (%s)" % (k + 1, refuse)))
            continue
        pr = L.ref_parse_request(reqs[k])
        names = [L.ascii_upper(n) for n, _ in pr[3]]
        c = L.real_cfg(L.full_cfg(cfgd))
        dangerous_untrusted = (L.full_cfg(cfgd)["header_map"] == "dangerous" and not L.ref_trusted(c.forwarded_allow_ips, peer)
                               and b"SCRIPT_NAME" in names)
        if env.get("wsgi.url_scheme") != exp.get("wsgi.url_scheme"):
            fails.append((None, "request %d: wsgi.url_scheme = %r, reference %r" % (k + 1, env.get("wsgi.url_scheme"), exp.get("wsgi.url_scheme"))))
        bad_path = L.ref_path_check(env, exp)
        if bad_path:
            fails.append(("dangerous-untrusted-script-name" if dangerous_untrusted else None, "request %d: %s" % (k + 1, bad_path)))
        got = {k2: v for k2, v in env.items() if k2.startswith("HTTP_")}
        want = {k2: v for k2, v in exp.items() if k2.startswith("HTTP_")}
        if got != want:
            diff = sorted(set(got.items()) ^ set(want.items()))
            fails.append((None, "request %d: header variables differ from the reference mapping: %r" % (k + 1, diff[:4])))
    return fails


def judge_fresh(case):
    c = dict(case)
    c["envs"], c["errs"], c["codes"] = L.run_conn(c["kind"], c["cfg"], c["peer"], c["data"])
    return judge(c)


def report(ctx, case, fails):
    """One violation (or known finding) per distinct key among the failures of a case."""
    done = set()
    for key, what in fails:
        if key in done:
            continue
        done.add(key)
        if key is not None and ctx.known.has(ctx.prop, key):
            ctx.violation(what, {}, key=key)
            continue
        small = L.shrink_case(case, lambda cc: [f for f in judge_fresh(cc) if f[0] == key])
        f2 = [f for f in judge_fresh(small) if f[0] == key] or [(key, what)]
        rep = L.case_json(small)
        rep["failures"] = [w for _, w in f2]
        rep["environs"] = L.run_conn(small["kind"], small["cfg"], small["peer"], small["data"])[0]
        ctx.violation(f2[0][1], rep, key=key)


def real_gthread_proxy_probe():
    """The REAL ThreadWorker.run() with proxy_protocol on and the peer allowed: the address declared by the PROXY line at the start
    of a connection holds for every request of it - requests sent one by one, the connection parked in between.  A PROXY line
    in front of a LATER request cannot replace it (such a request is refused).  -> list of failures"""
    import time
    import lib_gthread_real as G

    def app(environ, start_response):
        body = ("addr=%s;port=%s" % (environ.get("REMOTE_ADDR"), environ.get("REMOTE_PORT"))).encode()
        start_response("200 OK", [("Content-Length", str(len(body)))])
        return [body]
    fails = []
    with G.RealGthread(app, threads=2, keepalive=5, settings={"proxy_protocol": True, "proxy_allow_ips": "127.0.0.1"}) as srv:
        c = srv.connect()
        try:
            c.sendall(b"PROXY TCP4 203.0.113.7 10.0.0.1 4711 80\r\nGET /1 HTTP/1.1\r\nHost: x\r\n\r\n")
            st, hd, body, complete, err = G.read_response(c, 8)
            if st != 200 or body != b"addr=203.0.113.7;port=4711":
                fails.append("request 1 after the PROXY line: status %r, %r (expected the declared client 203.0.113.7:4711)" % (st, body[:60]))
            else:
                for k in (2, 3):
                    time.sleep(0.3)
                    c.sendall(("GET /%d HTTP/1.1\r\nHost: x\r\n\r\n" % k).encode())
                    st, hd, body, complete, err = G.read_response(c, 8)
                    if st != 200 or body != b"addr=203.0.113.7;port=4711":
                        fails.append("request %d of the connection (sent after the connection was parked): status %r, %r - the address declared at the "
                                     "start of the connection (203.0.113.7:4711) no longer applies" % (k, st, body[:60]))
                        break
                else:
                    time.sleep(0.3)
                    c.sendall(b"PROXY TCP4 198.51.100.66 10.0.0.1 666 80\r\nGET /4 HTTP/1.1\r\nHost: x\r\n\r\n")
                    st, hd, body, complete, err = G.read_response(c, 8)
                    if st == 200:
                        fails.append("a PROXY line in front of request 4 of the connection was accepted: the application ran with %r (declared "
                                     "at the start of the connection: 203.0.113.7:4711)" % (body[:60],))
        except OSError as e:
            fails.append("connection failed: %s" % type(e).__name__)
        finally:
            c.close()
    return fails


def run(ctx):
    ok = ctx.build()
    cases = header_matrix() + proxy_matrix()
    n_matrix = len(cases)
    n_random = 1500 if ctx.quick() else 40000
    for _ in range(n_random):
        cases.append(gen_random(ctx.rng))
    ctx.log("%d matrix cells + %d random connections" % (n_matrix, n_random))
    rf = real_gthread_proxy_probe()
    ctx.count_case(("real-gthread-proxy",), True)
    ctx.hist("family", "real gthread loop, PROXY connection of 4 requests")
    for f in rf[:2]:
        ctx.violation("real gthread worker: " + f, {"kind": "real-gthread-proxy"})
    bad = L.run_cases(ctx, "conn", cases)
    # coverage
    for c in cases:
        t = c["tag"]
        ctx.hist("family", t[0])
        ctx.hist("envs_per_connection", len(c["envs"]))
        ctx.hist("outcome", "served" if c["envs"] and not c["errs"] else ("served+error" if c["envs"] else (str(c["errs"][0]) if c["errs"] else "closed")))
        if t[0] == "hdr":
            ctx.hist("peer", t[1])
            ctx.hist("header_map", t[3])
        nontrivial = (b": " in c["data"]) or c["data"].startswith(b"PROXY") or c["data"].count(b"HTTP/") > 1
        ctx.count_case((c["kind"], repr(sorted(c["cfg"].items())), c["peer"], c["data"]), nontrivial)
    for c in cases[:n_matrix:977] + cases[n_matrix:n_matrix + 2]:
        ctx.sample({"worker": c["kind"], "cfg": c["cfg"], "peer": c["peer"], "data": c["data"].decode("latin-1"),
                    "environs": c["envs"], "error_statuses": c["errs"]})
    ctx.cov["exhaustive"] = False
    ctx.cov["rule"] = ("exhaustive matrix: 8 peers (two listed, unlisted, two that are substrings of a listed address, IPv6 loopback, an unlisted address in a listed one's network, unix) x "
                       "forwarded_allow_ips {default, custom, *} x header_map {drop, refuse, dangerous} x forwarder_headers {default, custom, *} x "
                       "%d header scenarios (case / hyphen / underscore variants of the scheme headers, SCRIPT_NAME, PATH_INFO, a custom forwarder "
                       "header, colliding pairs, conflicting scheme headers) with the worker class rotating, + scheme extras; PROXY matrix on all 3 "
                       "workers: 8 peers x proxy_protocol x proxy_allow_ips {default, custom, *} x 11 line variants (valid, invalid, sloppy, NUL in an address, at "
                       "request 1 / 2 / both) x keep-alive depth 1-3, + keep-alive/Connection/body extras; then %d seeded random connections "
                       "(random settings, peers, header sets with spelling variants, PROXY lines, depth 1-3, 12%% with one byte mutated). "
                       "non-trivial = carries a header field, a PROXY line or more than one request; distinct by (worker, settings, peer, bytes)"
                       % (len(SCENARIOS), n_random))
    # step 4: the property judged on the real environs
    nfail = 0
    for c in cases:
        fails = judge(c)
        if fails:
            nfail += 1
            if len(ctx.violations) < 3:
                report(ctx, c, fails)
            else:
                for key, what in fails:
                    if key is not None and ctx.known.has(ctx.prop, key):
                        ctx.violation(what, {}, key=key)
    ctx.log("oracle: %d of %d connections fail the reference" % (nfail, len(cases)))
    # step 3 result
    if bad:
        i = bad[0]
        c = cases[i]
        ctx.broken.append("correspondence Model/Environ.v vs the workers' handle(): %d of %d connections differ; first: %r model=%r impl=%r"
                          % (len(bad), len(cases), L.case_json(c), c.get("model"), c["obs"]))
        ctx.log("CORRESPONDENCE: %d connections differ, e.g. %r" % (len(bad), L.case_json(c)))
    if (bad or bad is None or not ok) and not ctx.violations:
        search(ctx, [cases[i] for i in (bad or [])[:40]])


def search(ctx, seeds):
    """Failing-input search: the oracle alone over a much larger random space, seeded with the
    disagreeing connections and their neighbours (other workers, other peers)."""
    ctx.log("failing-input search (oracle only) ...")
    tried = 0
    cands = []
    for s in seeds:
        for kind in ("sync", "gthread", "async"):
            for peer in PEERS:
                cands.append(dict(s, kind=kind, peer=peer))
    for c in cands:
        tried += 1
        fails = [f for f in judge_fresh(c) if not (f[0] and ctx.known.has(ctx.prop, f[0]))]
        if fails:
            report(ctx, c, fails)
            return
    for _ in range(30000 if ctx.quick() else 200000):
        c = gen_random(ctx.rng)
        tried += 1
        fails = [f for f in judge_fresh(c) if not (f[0] and ctx.known.has(ctx.prop, f[0]))]
        if fails:
            report(ctx, c, fails)
            break
    ctx.extra["search_connections"] = tried


def replay(rep):
    if rep.get("kind") == "real-gthread-proxy":
        fs = real_gthread_proxy_probe()
        print("failures:", fs)
        return 1 if fs else 0
    case = L.case_from_json(rep)
    envs, errs, codes = L.run_conn(case["kind"], case["cfg"], case["peer"], case["data"])
    case.update(envs=envs, errs=errs, codes=codes)
    print("worker:", case["kind"], "peer:", case["peer"], "settings:", case["cfg"])
    print("bytes:", case["data"])
    for e in envs:
        print("environ:", e)
    print("statuses on the wire:", codes)
    fails = judge(case)
    for key, what in fails:
        print("FAILS:", what, "(known key %s)" % key if key else "")
    return 1 if fails else 0
