"""C16 - configuration sources are merged in the documented order of authority.

The real gunicorn.app.wsgiapp.WSGIApplication is loaded in-process (controlled sys.argv, GUNICORN_CMD_ARGS,
gunicorn.conf.py / -c file in a scratch working directory, a framework dict returned by init()) and
  * compared with Model/Config.v (evaluated by the Coq kernel) on the complete outcome: exit class or the
    set of settings whose value differs from the built-in default, with their values   (correspondence)
  * judged directly against the property: every setting has the value the real validator gives to the raw
    value of the most authoritative source that *syntactically* mentions it; unmentioned settings keep the
    built-in default; any rejected value stops the start   (oracle; independent of the model and of argparse)

A case is a flat list of parts (one assignment in one source), so a failing case shrinks to the few
assignments that matter."""
import contextlib
import io
import json
import os
import shutil
import sys
import tempfile
import types

import vlib
import lib_c16 as L

SOURCES = ("dict", "file", "env", "cli")          # increasing authority (after the built-in defaults)
APP = "app:app"
POOLMOD = "lib_c16pool"


# ---------------------------------------------------------------------------------------------------
# the world: scratch directory, settings table, value pools, the real loader
# ---------------------------------------------------------------------------------------------------
class World:
    def __init__(self):
        self.old_cwd = os.getcwd()
        base = vlib.VERIF / ".build" / "scratch"
        base.mkdir(parents=True, exist_ok=True)
        self.root = os.path.realpath(tempfile.mkdtemp(prefix="c16-", dir=str(base)))
        # gunicorn.config freezes the working directory at import time (default of `chdir`), and the
        # default gunicorn.conf.py is looked up there: import it from inside the scratch directory
        os.chdir(self.root)
        if "gunicorn.config" in sys.modules:
            raise RuntimeError("gunicorn.config was imported before the scratch directory was entered")
        self.info = L.settings_info()
        self.gc = self.info["module"]
        self.rows = self.info["rows"]
        self.byname = {r["name"]: r for r in self.rows}
        self.reg = L.default_registry(self.rows)
        self.ref = []                 # validated built-in defaults
        self.ref_enc = []
        for r in self.rows:
            kind, val = L.validated_default(r)
            self.ref.append(val if kind == "ok" else None)
            self.ref_enc.append(L.canon_default_enc(r, val, self.reg) if kind == "ok" else None)
        self.defaults_ok = all(L.validated_default(r)[0] == "ok" for r in self.rows)
        # files and directories the validators may look at
        self.paths = {}
        for n in ("dirA", "dirB"):
            os.mkdir(os.path.join(self.root, n))
            self.paths[n] = os.path.join(self.root, n)
        for n in ("fileA", "fileB"):
            p = os.path.join(self.root, n)
            with open(p, "w") as fh:
                fh.write("x\n")
            self.paths[n] = p
        # opaque objects
        self.pool = {}
        tag = [0]

        def reg(obj):
            tag[0] += 1
            self.reg.add(obj, tag[0])
            self.pool[tag[0]] = obj
            return obj

        class K1:
            pass

        class K2:
            pass
        self.opaque = [reg({"X-A": "b"}), reg({"X-C": "d", "X-E": "f"}), reg(K1), reg(K2), reg(3.5), reg(("t", 1)),
                       reg(["a", 3])]
        fns = []
        for ar in range(0, 6):
            for j in range(2):
                args = ", ".join("a%d" % k for k in range(ar))
                ns = {}
                exec("def hook_%d_%d(%s):\n    return None\n" % (ar, j, args), ns)
                fns.append(reg(ns["hook_%d_%d" % (ar, j)]))
        self.opaque += fns
        # the module configuration files import their values from
        m = types.ModuleType(POOLMOD)
        m.V = []
        sys.modules[POOLMOD] = m
        self.poolmod = m
        self.vt = {}                  # (idx, raw_key) -> (coq raw literal, enc or None)
        self.make_pools()
        from gunicorn.app.wsgiapp import WSGIApplication
        world = self

        class App(WSGIApplication):
            def init(self, parser, opts, args):
                super().init(parser, opts, args)
                return dict(world.cur_dict) if world.cur_dict else None

            def load(self):
                return None
        self.App = App
        self.cur_dict = None

    def close(self):
        os.chdir(self.old_cwd)
        shutil.rmtree(self.root, ignore_errors=True)

    # ---- values -----------------------------------------------------------------------------------
    def enc_value(self, idx, v):
        r = self.ref[idx]
        if self.ref_enc[idx] is not None and (v is r or (type(v) is type(r) and v == r)):
            return list(self.ref_enc[idx])
        return L.enc_py(v, self.reg)

    def validate(self, idx, pyval):
        """('ok', value) / ('raise', exc) with the real validator of the tree under test"""
        try:
            with quiet():
                return ("ok", self.rows[idx]["validator"](pyval))
        except BaseException as e:      # noqa - validators may raise anything
            return ("raise", e)

    def vt_add(self, idx, pyval):
        key = (idx, L.raw_key(pyval, self.reg))
        kind, val = self.validate(idx, pyval)
        enc = self.enc_value(idx, val) if kind == "ok" else None
        if key in self.vt:
            if self.vt[key][1] != enc:
                raise RuntimeError("validator of %s is not a function of its argument: %r" % (self.rows[idx]["name"], pyval))
            return
        self.vt[key] = (L.coq_raw(pyval, self.reg), enc)

    def universe(self):
        P = self.paths
        return ([True, False, "true", "False", 0, 1, 7, 12, "5", "0x10", -3, "abc", " padded ", "", "x,y",
                 "127.0.0.1,10.0.0.1", "*", ["a", "b"], ["c"], [], "sync", "gthread", "auto", "poll", "drop", "refuse",
                 "/", P["dirA"], P["dirB"], "/nonexistent/x", "root", "nobody", "nosuchuser_xyz", "localhost:8125",
                 "unix:8125", P["fileA"], P["fileB"], [P["fileA"]], [P["fileB"], P["fileA"]], None] + self.opaque)

    def tokens(self):
        P = self.paths
        return ["3", "12", "0", "0x10", "-1", "abc", " padded ", "", "x,y", "127.0.0.1,10.0.0.1", "*", "sync", "gthread",
                "auto", "poll", "drop", "refuse", "/", P["dirA"], P["dirB"], "/nonexistent/x", "root", "nobody",
                "nosuchuser_xyz", "localhost:8125", "unix:8125", "true", P["fileA"], P["fileB"], "0022", "0o17", "1_0", "08",
                "a=b", "it's", 'say "hi"', "back\\slash"]

    def make_pools(self):
        """per setting: valid / invalid Python values (dict, file) and tokens (env, cli), classified by the real
        validators and type functions of the tree under test"""
        uni = self.universe()
        toks = self.tokens()
        self.pyvalid, self.pyinvalid, self.tokvalid, self.tokinvalid, self.tokusage = {}, {}, {}, {}, {}
        problems = []
        for r in self.rows:
            idx = r["idx"]
            valid, invalid = [], []
            seen = set()
            for v in uni:
                if r["name"] == "chdir" and isinstance(v, str) and os.path.exists(v) and not os.path.isdir(v):
                    continue          # the validator accepts any existing path; os.chdir() then fails: not a value to test with
                kind, val = self.validate(idx, v)
                if kind == "ok":
                    e = tuple(self.enc_value(idx, val))
                    if e in seen or e == (9, -1):
                        continue
                    seen.add(e)
                    # prefer values the validator visibly normalises
                    normalises = tuple(L.enc_py(v, self.reg)) != e
                    valid.append((v, e, normalises))
                else:
                    invalid.append(v)
            # two values that differ from each other and, if possible, from the default; normalising ones first
            dflt = tuple(self.ref_enc[idx] or ())
            valid.sort(key=lambda x: (x[1] == dflt, not x[2]))
            self.pyvalid[idx] = [v for v, _, _ in valid]
            self.pyinvalid[idx] = invalid
            if len(valid) < 2:
                problems.append(r["name"])
            if r["flags"] and r["action"] != "AStoreConst":
                tv, ti, tu = [], [], []
                seen = set()
                for t in toks:
                    if r["name"] == "chdir" and os.path.exists(t) and not os.path.isdir(t):
                        continue
                    try:
                        raw = r["typefn"](t) if r["action"] == "AStore" else [t]
                    except (TypeError, ValueError):
                        tu.append(t)
                        continue
                    kind, val = self.validate(idx, raw)
                    if kind == "ok":
                        e = tuple(self.enc_value(idx, val))
                        if e in seen:
                            continue
                        seen.add(e)
                        tv.append((t, e))
                    else:
                        ti.append(t)
                tv.sort(key=lambda x: x[1] == dflt)
                self.tokvalid[idx] = [t for t, _ in tv]
                self.tokinvalid[idx] = ti
                self.tokusage[idx] = tu
                if len(tv) < 2:
                    problems.append(r["name"] + " (tokens)")
        if problems:
            raise RuntimeError("value pools: fewer than two distinct valid values for " + ", ".join(problems))

    # ---- long-option abbreviations ------------------------------------------------------------------
    def abbreviations(self):
        flags = list(self.info["extra_flags"])
        for r in self.rows:
            flags += r["flags"]
        out = {}
        for r in self.rows:
            for f in r["flags"]:
                if not f.startswith("--"):
                    continue
                for n in range(len(f) - 1, 3, -1):
                    p = f[:n]
                    if p in flags:
                        break
                    if sum(1 for g in flags if g.startswith(p)) == 1:
                        out.setdefault(f, []).append(p)
        return out

    # ---- running the real implementation ----------------------------------------------------------------
    def run_real(self, rc):
        """rc: rendered case.  Returns ('ok', [value per setting], app_uri) / ('exit', code) / ('exc', name)."""
        saved_argv, saved_path, saved_env = sys.argv, list(sys.path), os.environ.get("GUNICORN_CMD_ARGS")
        conf = os.path.join(self.root, "gunicorn.conf.py")
        written = []
        try:
            os.chdir(self.root)
            self.poolmod.V = rc["pool"]
            for fname, text in rc["files"].items():
                p = os.path.join(self.root, fname)
                with open(p, "w") as fh:
                    fh.write(text)
                written.append(p)
            for mod in rc["modules"]:
                sys.modules.pop(mod, None)
            sys.argv = ["gunicorn"] + list(rc["argv"])
            if rc["env"] is None:
                os.environ.pop("GUNICORN_CMD_ARGS", None)
            else:
                os.environ["GUNICORN_CMD_ARGS"] = rc["env"]
            self.cur_dict = rc["dict"]
            with quiet():
                try:
                    app = self.App("%(prog)s [OPTIONS] [APP_MODULE]", prog="gunicorn")
                    vals = [app.cfg.settings[r["name"]].value for r in self.rows]
                    return ("ok", vals, app.app_uri)
                except SystemExit as e:
                    return ("exit", e.code)
                except Exception as e:     # noqa
                    return ("exc", type(e).__name__)
        finally:
            sys.argv = saved_argv
            sys.path[:] = saved_path
            if saved_env is None:
                os.environ.pop("GUNICORN_CMD_ARGS", None)
            else:
                os.environ["GUNICORN_CMD_ARGS"] = saved_env
            for p in written:
                with contextlib.suppress(OSError):
                    os.unlink(p)
            with contextlib.suppress(OSError):
                os.unlink(conf)
            for mod in rc["modules"]:
                sys.modules.pop(mod, None)
            sys.modules.pop("__config__", None)
            os.chdir(self.root)


@contextlib.contextmanager
def quiet():
    buf = io.StringIO()
    with contextlib.redirect_stderr(buf), contextlib.redirect_stdout(buf):
        yield


# ---------------------------------------------------------------------------------------------------
# cases
# ---------------------------------------------------------------------------------------------------
# part = dict(src=..., key=..., val=<python value> | tok=<str or None>, flag=<option string>, style=...)
#   src "dict"/"file": key (as written), val
#   src "env"/"cli"  : key = setting name, flag = option string as spelled (may be an abbreviation),
#                      tok = argument string (None for flags without argument), style in
#                      "sep" (flag, tok) | "eq" (flag=tok) | "att" (-ftok)
#   src "env"/"cli" with key None: raw = list of argument strings that are not a correct spelling of any
#                      setting, expect = "usage" | "help"
# case = dict(app=bool, parts=[...], env_present=bool, file_present=bool,
#             fileloc=None | dict(via="cli"|"env", form="plain"|"file:"|"python:"), envquote=int)

def sh_quote(tok, mode):
    """one shell word for tok, in one of several equivalent spellings"""
    def safe(c):
        return c.isalnum() or c in "-_=:/.,*@%+"
    if mode == 0:
        if tok != "" and all(safe(c) for c in tok):
            return tok
        mode = 1
    if mode == 1:
        if "'" not in tok:
            return "'" + tok + "'"
        mode = 2
    if mode == 2:
        return '"' + tok.replace("\\", "\\\\").replace('"', '\\"') + '"'
    if tok == "":
        return "''"
    return "".join(c if safe(c) else "\\" + c for c in tok)


def render_occ(p):
    if p["key"] is None:
        return list(p["raw"])
    f, t, st = p["flag"], p["tok"], p.get("style", "sep")
    if t is None:
        return [f]
    if st == "eq":
        return [f + "=" + t]
    if st == "att":
        return [f + t]
    return [f, t]


def render(W, case):
    """structured case -> what the process sees"""
    argv, envtoks, d, fitems = [], [], [], []
    pool = []

    def pv(v):
        pool.append(v)
        return "_P.V[%d]" % (len(pool) - 1)
    for p in case["parts"]:
        if p["src"] == "cli":
            argv += render_occ(p)
        elif p["src"] == "env":
            envtoks += render_occ(p)
        elif p["src"] == "dict":
            d.append((p["key"], p["val"]))
        elif p["src"] == "file":
            fitems.append((p["key"], p["val"]))
    files, modules = {}, []
    text = "import %s as _P\n" % POOLMOD + "".join("%s = %s\n" % (k, pv(v)) for k, v in fitems)
    loc = case.get("fileloc")
    locname = None
    if loc is None:
        if case["file_present"] or fitems:
            files["gunicorn.conf.py"] = text
    else:
        if loc["form"] == "python:":
            files["c16altmod.py"] = text
            modules.append("c16altmod")
            locname = "python:c16altmod"
        else:
            files["alt_conf.py"] = text
            locname = ("file:" if loc["form"] == "file:" else "") + os.path.join(W.root, "alt_conf.py")
        if case["file_present"]:
            # a default file that must not be read when -c is given
            files["gunicorn.conf.py"] = "import %s as _P\nbacklog = 999\nkeepalive = 999\n" % POOLMOD
        occ = ["-c", locname] if loc.get("short") else ["--config", locname]
        if loc["via"] == "cli":
            argv = occ + argv
        else:
            envtoks = occ + envtoks
    # further configuration files on disk, named by a LESS authoritative --config occurrence (or by none): never a source
    for fname, items in sorted((case.get("extra_files") or {}).items()):
        files[fname] = "import %s as _P\n" % POOLMOD + "".join("%s = %s\n" % (k, pv(v)) for k, v in items)
    if case["app"]:
        pos = case.get("app_at", "end")
        argv = ([APP] + argv) if pos == "start" else (argv + [APP])
    env = None
    if case["env_present"] or envtoks:
        q = case.get("envquote", 0)
        env = " ".join(sh_quote(t, (q + i) % 4 if q else 0) for i, t in enumerate(envtoks))
    return {"argv": argv, "env": env, "dict": d, "files": files, "modules": modules, "pool": pool,
            "fitems": fitems, "locname": locname}


# ---- the oracle: the property, judged on one real load -----------------------------------------------
def occ_mentions(W, parts):
    """syntactic mentions of one argv-like source: {idx: raw python value}; 'usage' when a type function rejects"""
    m = {}
    for p in parts:
        if p["key"] is None:
            return p["expect"], {}
        r = W.byname[p["key"]]
        idx = r["idx"]
        if r["action"] == "AStore":
            try:
                m[idx] = r["typefn"](p["tok"])
            except (TypeError, ValueError):
                return "usage", {}
        elif r["action"] == "AStoreConst":
            m[idx] = r["const"]
        else:
            m[idx] = m.get(idx, []) + [p["tok"]]
    return None, m


def expectation(W, case, rc):
    """('exit', why) or ('ok', {idx: (source, raw)}) by the documented order of authority"""
    by = {s: [p for p in case["parts"] if p["src"] == s] for s in SOURCES}
    loc = case.get("fileloc")
    cfg_occ = None
    if loc is not None:
        cfg_occ = {"src": loc["via"], "key": "config", "flag": "--config", "tok": rc["locname"], "style": "sep"}
        by[loc["via"]] = [cfg_occ] + by[loc["via"]]
    if not W.defaults_ok:
        return ("exit", "a built-in default is rejected by its validator")
    bad, cli_m = occ_mentions(W, by["cli"])
    if bad:
        return ("exit", "command line: " + bad)
    bad, env_m = occ_mentions(W, by["env"])
    if bad:
        return ("exit", "GUNICORN_CMD_ARGS: " + bad)
    fw_m = {}
    if case["app"]:
        fw_m[W.byname["default_proc_name"]["idx"]] = APP
    for p in by["dict"]:
        name = p["key"].lower()
        if name not in W.byname:
            return ("exit", "framework dict names an unknown setting")
        fw_m[W.byname[name]["idx"]] = p["val"]
    file_m = {}
    for p in by["file"]:
        if p["key"] in W.byname:
            file_m[W.byname[p["key"]]["idx"]] = p["val"]
    winner = {}
    for src, m in (("dict", fw_m), ("file", file_m), ("env", env_m), ("cli", cli_m)):
        for idx, raw in m.items():
            if W.validate(idx, raw)[0] != "ok":
                return ("exit", "%s gives %s a value its validator rejects" % (src, W.rows[idx]["name"]))
            winner[idx] = (src, raw)
    if not case["app"]:
        i = W.byname["wsgi_app"]["idx"]
        v = W.validate(i, winner[i][1])[1] if i in winner else W.ref[i]
        if v is None:
            return ("exit", "no application named")
    return ("ok", winner)


def judge(W, case, rc, real):
    """list of failure descriptions (empty = the property holds on this load)"""
    exp = expectation(W, case, rc)
    if exp[0] == "exit":
        if real[0] == "ok":
            return ["startup-not-stopped: %s, but the configuration was loaded" % exp[1]]
        return []
    if real[0] != "ok":
        return ["refused-valid-configuration: every mentioned value is valid but loading ended with %r" % (real[1:],)]
    fails = []
    winner = exp[1]
    for r in W.rows:
        idx = r["idx"]
        got = W.enc_value(idx, real[1][idx])
        if idx in winner:
            src, raw = winner[idx]
            wantv = W.validate(idx, raw)[1]
            want = W.enc_value(idx, wantv)
            if got != want:
                fails.append("authority: %s is %s, but the most authoritative source that mentions it is %s with %s, "
                             "which its validator turns into %s"
                             % (r["name"], short(real[1][idx]),
                                {"dict": "the framework", "file": "the configuration file",
                                 "env": "GUNICORN_CMD_ARGS", "cli": "the command line"}[src],
                                short(raw), short(wantv)))
        elif got != W.ref_enc[idx]:
            fails.append("untouched: no source mentions %s, but its value is %r instead of the built-in default"
                         % (r["name"], short(real[1][idx])))
    return fails


def short(v):
    s = "%s %r" % (type(v).__name__, v) if isinstance(v, (bool, int, str)) else repr(v)
    return s if len(s) < 80 else s[:77] + "..."


# ---- the model side ------------------------------------------------------------------------------------
HEADER_TMPL = """From Coq Require Import List NArith ZArith.
From GV Require Import Base.Enc Base.Dec Model.Config Gen.GenConfig.
Import ListNotations.
Open Scope Z_scope.
Definition VT : list vt_entry := default_vt ++ [
%s
].
Definition R := run_obs extra_flags settings VT.
"""


def coq_items(W, items):
    return "[" + ";".join("(%s, %s)" % (L.coq_str(k), L.coq_raw(v, W.reg)) for k, v in items) + "]"


def model_expr(W, case, rc):
    files, modules = "[]", "[]"
    default_file = "None"
    loc = case.get("fileloc")
    if loc is None:
        if "gunicorn.conf.py" in rc["files"]:
            default_file = "(Some %s)" % coq_items(W, rc["fitems"])
    else:
        if loc["form"] == "python:":
            modules = "[(%s, %s)]" % (L.coq_str("c16altmod"), coq_items(W, rc["fitems"]))
        else:
            files = "[(%s, %s)]" % (L.coq_str(os.path.join(W.root, "alt_conf.py")), coq_items(W, rc["fitems"]))
        if "gunicorn.conf.py" in rc["files"]:
            default_file = "(Some [(%s, (RInt 999)); (%s, (RInt 999))])" % (L.coq_str("backlog"), L.coq_str("keepalive"))
    extra = ["(%s, %s)" % (L.coq_str(os.path.join(W.root, fname)), coq_items(W, items))
             for fname, items in sorted((case.get("extra_files") or {}).items())]
    if extra:
        files = "[" + "; ".join(([files[1:-1]] if files != "[]" else []) + extra) + "]"
    return ("R {| i_argv := %s; i_dict := %s; i_env := %s; i_files := %s; i_modules := %s; i_default_file := %s |}" % (
        L.coq_strs(rc["argv"]), coq_items(W, rc["dict"]),
        "None" if rc["env"] is None else "(Some %s)" % L.coq_str(rc["env"]), files, modules, default_file))


def register_vt(W, case, rc):
    """every (setting, raw value) the model may hand to `validate` in this case"""
    by = {s: [p for p in case["parts"] if p["src"] == s] for s in SOURCES}
    loc = case.get("fileloc")
    if loc is not None:
        by[loc["via"]] = [{"src": loc["via"], "key": "config", "tok": rc["locname"]}] + by[loc["via"]]
        W.vt_add(W.byname["backlog"]["idx"], 999)
        W.vt_add(W.byname["keepalive"]["idx"], 999)
    if case["app"]:
        W.vt_add(W.byname["default_proc_name"]["idx"], APP)
    for p in by["dict"]:
        if p["key"].lower() in W.byname:
            W.vt_add(W.byname[p["key"].lower()]["idx"], p["val"])
    for p in by["file"]:
        if p["key"] in W.byname:
            W.vt_add(W.byname[p["key"]]["idx"], p["val"])
    for items in (case.get("extra_files") or {}).values():
        for k, v in items:
            if k in W.byname:
                W.vt_add(W.byname[k]["idx"], v)
    for s in ("env", "cli"):
        acc = {}
        for p in by[s]:
            if p["key"] is None:
                continue
            r = W.byname[p["key"]]
            if r["action"] == "AStore":
                try:
                    W.vt_add(r["idx"], r["typefn"](p["tok"]))
                except (TypeError, ValueError):
                    pass
            elif r["action"] == "AAppend":
                acc[r["idx"]] = acc.get(r["idx"], []) + [p["tok"]]
                W.vt_add(r["idx"], list(acc[r["idx"]]))


def impl_obs(W, case, real):
    if real[0] == "exit":
        return {0: [3], 1: [1], 2: [2]}.get(real[1], [8])
    if real[0] != "ok":
        return [8]
    delta = []
    for r in W.rows:
        e = W.enc_value(r["idx"], real[1][r["idx"]])
        if e != W.ref_enc[r["idx"]]:
            delta.append([r["idx"]] + e)
    out = [0, len(delta)]
    for d in delta:
        out += d
    if case["app"]:
        uri = real[2] if isinstance(real[2], str) else "?"
        out += [1, len(uri)] + [ord(c) for c in uri]
    else:
        i = W.byname["wsgi_app"]["idx"]
        out += [2] if real[2] == real[1][i] else [7]
    return out


# ---- generation ------------------------------------------------------------------------------------------
def flag_for(r, which=0):
    fl = r["flags"]
    return fl[which % len(fl)]


def cli_part(W, src, r, tok, style="sep", which=0):
    f = flag_for(r, which)
    if tok is not None and style == "att" and (f.startswith("--") or tok == "" or tok.startswith("=")):
        style = "eq" if tok != "" else "sep"
    return {"src": src, "key": r["name"], "flag": f, "tok": tok, "style": style}


def decoy_parts(W, target, srcs):
    name = "keepalive" if target == "backlog" else "backlog"
    vals = {"dict": 101, "file": 102, "env": "103", "cli": "104"}
    out = []
    for s in srcs:
        if s in ("dict", "file"):
            out.append({"src": s, "key": name, "val": vals[s]})
        else:
            out.append(cli_part(W, s, W.byname[name], vals[s]))
    return out


def applicable(r):
    if r["name"] == "config":        # its command-line values must be loadable files: covered by the fileloc cases
        return ("dict", "file")
    if not r["flags"] or r["name"] == "paste":
        return ("dict", "file") if not r["flags"] else ("dict", "file", "env")
    return SOURCES


def value_for(W, r, src, k):
    """k-th valid value of setting r as source src can express it; (part, ) or None"""
    idx = r["idx"]
    if src in ("dict", "file"):
        vals = W.pyvalid[idx]
        return {"src": src, "key": r["name"], "val": vals[k % len(vals)]}
    if r["action"] == "AStoreConst":
        return cli_part(W, src, r, None)
    toks = W.tokvalid[idx]
    return cli_part(W, src, r, toks[k % len(toks)], which=k)


def other_value(W, r, src, avoid_enc):
    """a valid value for src whose validated encoding differs from avoid_enc (None if impossible)"""
    idx = r["idx"]
    if src in ("dict", "file"):
        for v in W.pyvalid[idx]:
            if W.enc_value(idx, W.validate(idx, v)[1]) != avoid_enc:
                return {"src": src, "key": r["name"], "val": v}
        return None
    if r["action"] == "AStoreConst":
        p = cli_part(W, src, r, None)
        return p if part_enc(W, p) != avoid_enc else None
    for t in W.tokvalid[idx]:
        p = cli_part(W, src, r, t)
        if part_enc(W, p) != avoid_enc:
            return p
    return None


def part_enc(W, p):
    """validated encoding of the value a single part gives"""
    if p["src"] in ("dict", "file"):
        r = W.byname[p["key"].lower()]
        raw = p["val"]
    else:
        r = W.byname[p["key"]]
        raw = r["typefn"](p["tok"]) if r["action"] == "AStore" else (r["const"] if r["action"] == "AStoreConst" else [p["tok"]])
    kind, val = W.validate(r["idx"], raw)
    return W.enc_value(r["idx"], val) if kind == "ok" else None


def matrix(W, thorough=False):
    """every setting x every non-empty subset of the sources able to mention it x two value assignments
    (the most authoritative source says one value, all others another; then swapped), without and with
    decoy assignments to another setting in the remaining sources; then the invalid values"""
    cases = []
    nbad = 8 if thorough else 2
    for r in W.rows:
        app = applicable(r)
        n = len(app)
        for mask in range(1, 1 << n):
            S = [app[i] for i in range(n) if mask >> i & 1]
            top = S[-1]
            for variant in ((0, 1, 2, 3) if thorough else (0, 1)):
                ptop = value_for(W, r, top, variant)
                e_top = part_enc(W, ptop)
                parts = []
                for s in S[:-1]:
                    p = other_value(W, r, s, e_top)
                    if p is None:           # e.g. --reload below --reload: the same value is all there is
                        p = value_for(W, r, s, variant)
                    parts.append(p)
                parts.append(ptop)
                rest = [s for s in SOURCES if s not in S]
                if variant % 2 == 1:
                    parts = decoy_parts(W, r["name"], rest) + parts
                if variant >= 2:            # the other spellings: second option string, --flag=value
                    for p in parts:
                        if p["src"] in ("env", "cli") and p.get("tok") is not None and p["key"] == r["name"]:
                            p["flag"] = flag_for(r, 1)
                            p["style"] = "eq"
                cases.append({"app": r["name"] != "wsgi_app" or variant % 2 == 0, "parts": parts, "env_present": variant % 2 == 1,
                              "file_present": variant % 2 == 1, "kind": "matrix", "target": r["name"],
                              "envquote": variant if variant >= 2 else 0})
        # invalid values: alone, and below a more authoritative valid one (nothing is silently replaced)
        for s in app:
            bad = []
            if s in ("dict", "file"):
                bad = [{"src": s, "key": r["name"], "val": v} for v in W.pyinvalid[r["idx"]][:nbad]]
            elif r["action"] != "AStoreConst":
                bad = [cli_part(W, s, r, t) for t in W.tokinvalid[r["idx"]][:nbad]]
                bad += [cli_part(W, s, r, t, style="eq") for t in W.tokusage[r["idx"]][:nbad]]
            for b in bad:
                cases.append({"app": True, "parts": [b], "env_present": False, "file_present": False, "kind": "invalid",
                              "target": r["name"], "envquote": 0})
                higher = [x for x in app if SOURCES.index(x) > SOURCES.index(s)]
                if higher:
                    cases.append({"app": True, "parts": [b, value_for(W, r, higher[-1], 0)], "env_present": False,
                                  "file_present": False, "kind": "invalid-overridden", "target": r["name"], "envquote": 0})
    return cases


def fixed_cases(W):
    """spellings and corner cases of the three front ends (argparse, shlex, config file selection)"""
    B = W.byname
    C = []

    def case(parts, app=True, **kw):
        c = {"app": app, "parts": parts, "env_present": False, "file_present": False, "kind": "fixed", "envquote": 0}
        c.update(kw)
        C.append(c)

    def raw(src, toks, expect):
        return {"src": src, "key": None, "raw": toks, "expect": expect}
    w, b, D, R = B["workers"], B["bind"], B["daemon"], B["enable_stdio_inheritance"]
    case([])
    case([], app=False)
    case([{"src": "file", "key": "wsgi_app", "val": "m:a"}], app=False)
    case([{"src": "dict", "key": "wsgi_app", "val": "m:a"}], app=False)
    case([{"src": "dict", "key": "WORKERS", "val": 5}])                        # k.lower()
    case([{"src": "dict", "key": "Workers", "val": 5}, {"src": "file", "key": "Workers", "val": 6}])
    case([{"src": "file", "key": "WORKERS", "val": 6}, {"src": "file", "key": "not_a_setting", "val": 1}])   # ignored
    case([{"src": "dict", "key": "not_a_setting", "val": 1}])                  # AttributeError
    case([{"src": "dict", "key": "default_proc_name", "val": "fw"}])            # after init()'s own set
    case([{"src": "file", "key": "default_proc_name", "val": "ff"}])
    case([{"src": "dict", "key": "workers", "val": None}])                     # None from a dict is a value
    case([{"src": "file", "key": "proc_name", "val": None}, {"src": "dict", "key": "proc_name", "val": "x"}])
    for st in ("sep", "eq", "att"):
        case([cli_part(W, "cli", w, "3", st, 0), cli_part(W, "env", w, "4", st, 0)])
        case([cli_part(W, "cli", w, "3", st, 1), cli_part(W, "env", w, "4", st, 1)])
        case([cli_part(W, "cli", b, "x:1", st, 0), cli_part(W, "cli", b, "y:2", st, 1), cli_part(W, "env", b, "z:3", st, 0)])
    case([cli_part(W, "cli", w, "3"), cli_part(W, "cli", w, "5")])               # last occurrence wins
    case([cli_part(W, "cli", w, "3"), cli_part(W, "cli", w, "x")])
    case([cli_part(W, "cli", w, " 7 "), cli_part(W, "env", w, "+8")])
    case([cli_part(W, "cli", w, "-1")])
    case([cli_part(W, "cli", B["umask"], t, "eq") for t in ["0"]])
    for t in ["0", "0o0", "0x0", "0xFF", "0022", "022", "18", "0b11", "0_7", "00", "09", " 022", "-0x1", "0x", "0o_7", "1__0", "+5"]:
        case([cli_part(W, "cli", B["umask"], t, "eq")])
        case([cli_part(W, "env", B["umask"], t, "sep")])
    # clusters of short flags
    case([raw("cli", ["-DR"], None)], expect_parts=[cli_part(W, "cli", D, None), cli_part(W, "cli", R, None)])
    case([raw("cli", ["-Dw3"], None)], expect_parts=[cli_part(W, "cli", D, None), cli_part(W, "cli", w, "3")])
    case([raw("cli", ["-DRw", "3"], None)], expect_parts=[cli_part(W, "cli", D, None), cli_part(W, "cli", R, None), cli_part(W, "cli", w, "3")])
    case([raw("cli", ["-Dx"], "usage")])
    case([raw("cli", ["-D="], "usage")])
    case([raw("cli", ["--daemon=1"], "usage")])
    case([raw("cli", ["--workers"], "usage")])
    case([raw("cli", ["--workers", "--daemon"], "usage")])
    case([raw("cli", ["--worker", "3"], "usage")])                             # ambiguous
    case([raw("cli", ["--help", "--worker", "3"], "usage")])                   # ambiguity is found before --help runs
    case([raw("cli", ["--nosuch"], "usage")])
    case([raw("cli", ["--nosuch", "--help"], "help")])
    case([raw("cli", ["--workers", "x", "--help"], "usage")])
    case([raw("cli", ["-h"], "help")])
    case([raw("cli", ["--version"], "help")])
    case([raw("cli", ["-v"], "help")])
    case([raw("env", ["--help"], "help")])
    case([raw("env", ["--nosuch=1"], "usage")])
    case([raw("cli", ["extra:app"], None)], app_at="start", expect_parts=[])      # two positionals in one group are fine
    c = {"app": True, "parts": [cli_part(W, "cli", w, "3"), raw("cli", ["two:app"], "usage")], "env_present": False,
         "file_present": False, "kind": "fixed", "envquote": 0, "app_at": "start"}
    C.append(c)
    case([cli_part(W, "cli", w, "3")], app_at="start")
    case([raw("cli", ["-1"], None)], app_at="start", expect_parts=[])             # a negative number is a positional
    case([raw("cli", ["a b"], None)], app_at="start", expect_parts=[])
    case([cli_part(W, "cli", w, "3"), raw("cli", ["-1"], "usage")], app_at="start")  # ... a second positional group here
    case([cli_part(W, "cli", w, "3"), raw("cli", ["-x y"], "usage")], app_at="start")
    # env quoting
    for q in (1, 2, 3):
        case([cli_part(W, "env", B["proc_name"], "it's", "sep"), cli_part(W, "env", b, 'say "hi"', "eq"),
              cli_part(W, "env", B["pidfile"], "back\\slash", "sep"), cli_part(W, "env", B["accesslog"], "", "sep")], envquote=q)
    case([], env_raw="--workers 3 'unterminated", expect="exit")
    case([], env_raw="--workers 3 trailing\\", expect="exit")
    case([], env_raw="  ", expect=None)
    case([], env_raw="\t--workers\n3\r", expect_parts=[cli_part(W, "env", w, "3")])
    case([], env_raw="--name \"a\\\"b\\\\c\\d\" -b 'x y'\"z\"",
         expect_parts=[cli_part(W, "env", B["proc_name"], 'a"b\\c\\d'), cli_part(W, "env", b, "x yz")])
    case([], env_raw="--name '' -b \"\"", expect_parts=[cli_part(W, "env", B["proc_name"], ""), cli_part(W, "env", b, "")])
    # configuration file selection
    for via in ("cli", "env"):
        for form in ("plain", "file:", "python:"):
            for fp in (False, True):
                case([{"src": "file", "key": "workers", "val": 6}, {"src": "file", "key": "proc_name", "val": "fromfile"}],
                     fileloc={"via": via, "form": form}, file_present=fp)
                case([{"src": "file", "key": "workers", "val": 6}, cli_part(W, "env", w, "4")],
                     fileloc={"via": via, "form": form, "short": True}, file_present=fp)
    # BOTH the command line and GUNICORN_CMD_ARGS name a configuration file: the command line's is the configuration file, the
    # other one is not a source at all (settings only it mentions keep their defaults)
    envfile = os.path.join(W.root, "env_conf.py")
    for form in ("plain", "file:", "python:"):
        for fp in (False, True):
            case([{"src": "file", "key": "workers", "val": 6}, cli_part(W, "env", B["config"], envfile)],
                 fileloc={"via": "cli", "form": form}, file_present=fp,
                 extra_files={"env_conf.py": [("timeout", 77), ("graceful_timeout", 11), ("workers", 9)]})
            case([{"src": "file", "key": "proc_name", "val": "fromfile"}, cli_part(W, "env", B["config"], "file:" + envfile),
                  cli_part(W, "env", w, "4")],
                 fileloc={"via": "cli", "form": form, "short": True}, file_present=fp,
                 extra_files={"env_conf.py": [("proc_name", "from-the-env-file"), ("backlog", 12), ("keepalive", 13)]})
    # a file lying around that nobody names
    case([{"src": "file", "key": "workers", "val": 6}], fileloc={"via": "env", "form": "plain"},
         extra_files={"env_conf.py": [("timeout", 77)], "other_conf.py": [("workers", 8)]})
    case([raw("cli", ["-c", os.path.join(W.root, "missing.py")], "exit")])
    case([raw("env", ["-c", "python:c16nosuchmodule"], "exit")])
    case([raw("cli", ["--config="], None), {"src": "file", "key": "workers", "val": 6}],
         expect_parts=[cli_part(W, "cli", B["config"], "")])
    return C


def random_case(W, rng, abbr):
    parts = []
    k = rng.choice([1, 1, 2, 2, 3, 4])
    rows = rng.sample(W.rows, k)
    for r in rows:
        app = applicable(r)
        S = [s for s in app if rng.random() < 0.55] or [rng.choice(app)]
        for s in S:
            invalid = rng.random() < 0.06
            if s in ("dict", "file"):
                pool = (W.pyinvalid if invalid and W.pyinvalid[r["idx"]] else W.pyvalid)[r["idx"]]
                key = r["name"]
                x = rng.random()
                if x < 0.08:
                    key = key.upper()
                elif x < 0.12:
                    key = key.capitalize()
                parts.append({"src": s, "key": key, "val": rng.choice(pool)})
            else:
                reps = 2 if rng.random() < 0.2 else 1
                for _ in range(reps):
                    if r["action"] == "AStoreConst":
                        p = cli_part(W, s, r, None, which=rng.randrange(2))
                    else:
                        x = rng.random()
                        if invalid and W.tokinvalid[r["idx"]]:
                            pool = W.tokinvalid[r["idx"]]
                        elif invalid and W.tokusage[r["idx"]]:
                            pool = W.tokusage[r["idx"]]
                        else:
                            pool = W.tokvalid[r["idx"]]
                        tok = rng.choice(pool)
                        st = rng.choice(["sep", "sep", "eq", "att"])
                        p = cli_part(W, s, r, tok, st, which=rng.randrange(2))
                        if tok.startswith("-") and p["style"] == "att":
                            p["style"] = "eq"
                    if p["flag"] in abbr and rng.random() < 0.25:
                        p["flag"] = rng.choice(abbr[p["flag"]])
                    parts.append(p)
    x = rng.random()
    if x < 0.03:
        parts.append({"src": "dict", "key": "no_such_setting", "val": 1})
    elif x < 0.06:
        parts.append({"src": "file", "key": rng.choice(["no_such_setting", "Bind", "_private"]), "val": 1})
    elif x < 0.10:
        s = rng.choice(["cli", "env"])
        toks, exp = rng.choice([(["--nosuch"], "usage"), (["--worker", "2"], "usage"), (["--threads"], "usage"),
                                (["--reload=1"], "usage"), (["-Z"], "usage"), (["--backlog", "ten"], "usage"),
                                (["--help"], "help"), (["-v"], "help")])
        parts.append({"src": s, "key": None, "raw": toks, "expect": exp})
    rng.shuffle(parts)
    # a bad spelling must come last in its source so that the parts before it are still well-formed occurrences
    parts.sort(key=lambda p: p.get("key") is None and p["src"] in ("cli", "env"))
    c = {"app": rng.random() < 0.85, "parts": parts, "env_present": rng.random() < 0.3, "file_present": rng.random() < 0.3,
         "kind": "random", "envquote": rng.choice([0, 0, 1, 2, 3]), "app_at": rng.choice(["end", "end", "start"])}
    if rng.random() < 0.15:
        c["fileloc"] = {"via": rng.choice(["cli", "env"]), "form": rng.choice(["plain", "file:", "python:"]),
                        "short": rng.random() < 0.5}
    if c["app_at"] == "start" and any(p["src"] == "cli" and p.get("key") is None for p in parts):
        c["app_at"] = "end"
    return c


# ---- evaluating one case ---------------------------------------------------------------------------------
def run_real_reload(W, rc1, rc2):
    """The application object loads the sources of rc1, then - the way a HUP does it - loads again (Application.do_load_config)
    after the files on disk have become those of rc2 (same command line, same environment).  Returns like run_real."""
    saved_argv, saved_path, saved_env = sys.argv, list(sys.path), os.environ.get("GUNICORN_CMD_ARGS")
    written = set()
    try:
        os.chdir(W.root)

        def put(rc):
            W.poolmod.V = rc["pool"]
            for fname, text in rc["files"].items():
                with open(os.path.join(W.root, fname), "w") as fh:
                    fh.write(text)
                written.add(os.path.join(W.root, fname))
            for mod in rc["modules"]:
                sys.modules.pop(mod, None)
            W.cur_dict = rc["dict"]
        put(rc1)
        sys.argv = ["gunicorn"] + list(rc1["argv"])
        if rc1["env"] is None:
            os.environ.pop("GUNICORN_CMD_ARGS", None)
        else:
            os.environ["GUNICORN_CMD_ARGS"] = rc1["env"]
        with quiet():
            try:
                app = W.App("%(prog)s [OPTIONS] [APP_MODULE]", prog="gunicorn")
                for fname in rc1["files"]:
                    if fname not in rc2["files"]:
                        with contextlib.suppress(OSError):
                            os.unlink(os.path.join(W.root, fname))
                put(rc2)
                app.do_load_config()
                vals = [app.cfg.settings[r["name"]].value for r in W.rows]
                return ("ok", vals, app.app_uri)
            except SystemExit as e:
                return ("exit", e.code)
            except Exception as e:     # noqa
                return ("exc", type(e).__name__)
    finally:
        sys.argv = saved_argv
        sys.path[:] = saved_path
        if saved_env is None:
            os.environ.pop("GUNICORN_CMD_ARGS", None)
        else:
            os.environ["GUNICORN_CMD_ARGS"] = saved_env
        for pth in written:
            with contextlib.suppress(OSError):
                os.unlink(pth)
        for mod in list(rc1["modules"]) + list(rc2["modules"]):
            sys.modules.pop(mod, None)
        sys.modules.pop("__config__", None)
        os.chdir(W.root)


def same_value(a, b):
    try:
        return bool(a is b or (type(a) is type(b) and a == b))
    except Exception:     # noqa
        return repr(a) == repr(b)


def reload_pairs(W, cases, rng, limit):
    """(case, case after the configuration file lost some of its lines) for cases whose file mentions settings"""
    out = []
    for case in cases:
        fparts = [p for p in case["parts"] if p["src"] == "file"]
        if not fparts or (case.get("fileloc") or {}).get("form") == "python:" or case.get("expect") or "env_raw" in case:
            continue
        drop = set(id(p) for p in fparts if rng.random() < 0.6) or {id(fparts[0])}
        c2 = dict(case)
        c2["parts"] = [p for p in case["parts"] if id(p) not in drop]
        c2["file_present"] = True
        out.append((case, c2, [p["key"] for p in fparts if id(p) in drop]))
        if len(out) >= limit:
            break
    return out


def reload_layer(ctx, W, cases):
    """A reload is a load: after the sources changed, do_load_config() gives what a fresh start with the new sources gives -
    in particular a setting that no source mentions ANY MORE is back at its built-in default.  Oracle only."""
    nbad = n = 0
    for c1, c2, dropped in reload_pairs(W, cases, ctx.rng, 150 if ctx.quick() else 1500):
        rc1, _ = prepare(W, c1)
        rc2, _ = prepare(W, c2)
        first = W.run_real(rc1)
        fresh = W.run_real(rc2)
        if first[0] != "ok" or fresh[0] != "ok":
            continue
        again = run_real_reload(W, rc1, rc2)
        n += 1
        ctx.count_case(("reload", json.dumps(ser_case(W, c1), sort_keys=True, default=repr), tuple(dropped)), True)
        ctx.hist("reload_layer", "%d line(s) removed from the file" % len(dropped))
        what = None
        if again[0] != "ok":
            what = "the reload ended with %r although a fresh start with the same sources loads" % (again[:2],)
        else:
            diff = [(r["name"], short(a), short(f)) for r, a, f in zip(W.rows, again[1], fresh[1]) if not same_value(a, f)]
            if diff:
                what = ("after the configuration file lost its line(s) for %r, a reload leaves %s = %s; a fresh start with the same "
                        "sources gives %s (no source mentions it any more / a less authoritative one does)"
                        % (dropped, diff[0][0], diff[0][1], diff[0][2]))
        if what:
            nbad += 1
            if nbad <= 2:
                ctx.violation("reload: " + what, {"kind": "reload", "case": ser_case(W, c1), "dropped": dropped,
                                                  "case_after": ser_case(W, c2), "failure": what})
    ctx.log("reload layer: %d (load, edit the file, load again) pairs against fresh loads; %d failures" % (n, nbad))


def prepare(W, case):
    """(rendered, oracle-case): cases written with explicit argument strings carry the parts they mean"""
    rc = render(W, case)
    if "env_raw" in case:
        rc["env"] = case["env_raw"]
    oc = case
    if "expect_parts" in case or "expect" in case:
        oc = dict(case)
        keep = [p for p in case["parts"]
                if not (p["src"] in ("cli", "env") and p.get("key") is None and p.get("expect") is None)]
        oc["parts"] = keep + list(case.get("expect_parts", []))
        if case.get("expect") == "exit":
            oc["parts"].append({"src": "env", "key": None, "raw": [], "expect": "exit"})
    return rc, oc


def evaluate(W, case):
    rc, oc = prepare(W, case)
    real = W.run_real(rc)
    fails = judge(W, oc, rc, real)
    return rc, oc, real, fails


def safe_fails(W, case):
    try:
        return evaluate(W, case)[3]
    except Exception:     # noqa
        return []


# ---- (de)serialisation for replay files --------------------------------------------------------------------
def ser_val(W, v):
    k = L.raw_kind(v)
    if k == "opaque":
        return {"$pool": W.reg.tag(v), "repr": short(v)}
    if k == "none":
        return {"$none": True}
    return {"$" + k: v}


def de_val(W, d):
    if "$pool" in d:
        return W.pool[d["$pool"]]
    if "$none" in d:
        return None
    (k, v), = [(k, v) for k, v in d.items() if k.startswith("$")]
    return v


def rel(W, s):
    return s.replace(W.root, "$ROOT") if isinstance(s, str) else s


def unrel(W, s):
    return s.replace("$ROOT", W.root) if isinstance(s, str) else s


def ser_case(W, case):
    c = {k: v for k, v in case.items() if k not in ("parts", "expect_parts")}
    for fld in ("parts", "expect_parts"):
        if fld in case:
            c[fld] = []
            for p in case[fld]:
                q = dict(p)
                if "val" in q:
                    v = q["val"]
                    if isinstance(v, str):
                        v = rel(W, v)
                    elif isinstance(v, list):
                        v = [rel(W, x) for x in v]
                    q["val"] = ser_val(W, v)
                if q.get("tok") is not None:
                    q["tok"] = rel(W, q["tok"])
                if "raw" in q:
                    q["raw"] = [rel(W, t) for t in q["raw"]]
                c[fld].append(q)
    return c


def de_case(W, c):
    case = {k: v for k, v in c.items() if k not in ("parts", "expect_parts")}
    for fld in ("parts", "expect_parts"):
        if fld in c:
            case[fld] = []
            for q in c[fld]:
                p = dict(q)
                if "val" in p:
                    v = de_val(W, p["val"])
                    if isinstance(v, str):
                        v = unrel(W, v)
                    elif isinstance(v, list):
                        v = [unrel(W, x) for x in v]
                    p["val"] = v
                if p.get("tok") is not None:
                    p["tok"] = unrel(W, p["tok"])
                if "raw" in p:
                    p["raw"] = [unrel(W, t) for t in p["raw"]]
                case[fld].append(p)
    return case


def report(ctx, W, case, fails):
    """shrink to the parts that matter and record the violation"""
    parts = list(case["parts"])
    if len(parts) > 1 and "expect_parts" not in case:
        def still(cand):
            c2 = dict(case)
            c2["parts"] = cand
            return bool(safe_fails(W, c2))
        small = vlib.shrink_list(parts, still)
        c2 = dict(case)
        c2["parts"] = small
        f2 = safe_fails(W, c2)
        if f2:
            case, fails = c2, f2
    for opt in ("env_present", "file_present"):
        if case.get(opt):
            c2 = dict(case)
            c2[opt] = False
            f2 = safe_fails(W, c2)
            if f2:
                case, fails = c2, f2
    rc, oc, real, _ = evaluate(W, case)
    rep = {
        "kind": "config-load", "case": ser_case(W, case), "failures": fails,
        "what_the_process_saw": {
            "argv": ["gunicorn"] + [rel(W, t) for t in rc["argv"]],
            "GUNICORN_CMD_ARGS": rel(W, rc["env"]),
            "framework_dict": [[k, short(v)] for k, v in rc["dict"]],
            "files_in_cwd": {k: rel(W, v) for k, v in rc["files"].items()},
            "values_imported_by_the_files (lib_c16pool.V)": [short(v) for v in rc["pool"]],
        },
        "observed": (["loaded"] + [[r["name"], short(real[1][r["idx"]])] for r in W.rows
                                   if W.enc_value(r["idx"], real[1][r["idx"]]) != W.ref_enc[r["idx"]]]) if real[0] == "ok" else list(map(str, real)),
    }
    return ctx.violation(fails[0], rep)


# ---- the check ------------------------------------------------------------------------------------------------
def run(ctx):
    ok = ctx.build()
    W = World()
    try:
        _run(ctx, W, ok)
    finally:
        W.close()


def _run(ctx, W, ok):
    abbr = W.abbreviations()
    cases = fixed_cases(W) + matrix(W, not ctx.quick())
    n_matrix = len(cases)
    n_random = 1500 if ctx.quick() else 15000
    for _ in range(n_random):
        cases.append(random_case(W, ctx.rng, abbr))
    ctx.log("settings: %d (%d on the command line); cases: %d fixed+matrix, %d random" % (
        len(W.rows), sum(1 for r in W.rows if r["flags"]), n_matrix, n_random))
    corr, failing = [], []
    for case in cases:
        rc, oc, real, fails = evaluate(W, case)
        register_vt(W, oc, rc)
        corr.append((model_expr(W, case, rc), impl_obs(W, case, real), case))
        srcs = {}
        for p in oc["parts"]:
            if p.get("key") is not None:
                srcs.setdefault(p["key"].lower(), set()).add(p["src"])
        contested = any(len(s) >= 2 for s in srcs.values())
        nontrivial = contested or real[0] != "ok"
        key = json.dumps(ser_case(W, case), sort_keys=True, default=repr)
        ctx.count_case(key, nontrivial)
        ctx.hist("kind", case["kind"])
        ctx.hist("outcome", "loaded" if real[0] == "ok" else "exit %s" % (real[1],))
        ctx.hist("sources_mentioning_most_contested_setting", max([len(s) for s in srcs.values()] or [0]))
        if case["kind"] in ("random", "matrix") and max([len(x) for x in srcs.values()] or [0]) >= 3 and len(ctx.cov["samples"]) % 2 == (case["kind"] == "random"):
            ctx.sample({"argv": [rel(W, t) for t in rc["argv"]], "GUNICORN_CMD_ARGS": rel(W, rc["env"]),
                        "framework_dict": [[k, short(v)] for k, v in rc["dict"]],
                        "config_file": [[k, short(v)] for k, v in rc["fitems"]],
                        "outcome": "loaded" if real[0] == "ok" else "exit %s" % (real[1],)}, cap=5)
        if fails:
            failing.append((case, fails))
    reload_layer(ctx, W, [c for c in cases if c["kind"] in ("random", "matrix")])
    ctx.cov["rule"] = (
        "fixed corner cases of the front ends (option spellings, clusters, abbreviations, shlex quoting, -c/file:/python: "
        "selection), then the exhaustive matrix: every setting x every non-empty subset of the sources able to mention it "
        "(framework dict, config file, GUNICORN_CMD_ARGS, command line) x two value assignments (the most authoritative "
        "source says a value different from all the others) x without/with decoy assignments to another setting in all "
        "remaining sources, plus per setting and source up to two values the validator rejects, alone and below a more "
        "authoritative valid value; then seeded random multi-setting cases (random spellings, key case, repeated options, "
        "unknown keys, bad spellings).  Values come from a pool classified by the real validators.  Non-trivial = some "
        "setting is mentioned by at least two sources, or loading is refused; distinct by the structured case")
    ctx.cov["exhaustive"] = True
    ctx.cov["trusted_base"] = [
        "Coq 8.16.1 kernel incl. the vm_compute reduction machine (no native_compute); no axioms (Print Assumptions captured)",
        "harness/gen/gen_config.py + harness/lib_c16.py: the settings table is read from KNOWN_SETTINGS and from the argparse parser "
        "object that Config.parser() really builds (option strings, action class, type, const, default) - fail-closed",
        "the differential correspondence harness harness/props/c16.py (bounded by the loads run) and its independent oracle",
        "validators are parameters of the theorems; the correspondence feeds the model the real validators' results on the raw values of the run",
        "CPython argparse / shlex / int() semantics on printable ASCII as modelled in Model/Config.v and Base/Dec.v (validated by the differential run, not verified)",
        "a configuration file is taken as the name->value map of the executed module",
    ]
    ctx.assumptions = [
        "Model/Config.v corresponds to the implementation on inputs beyond those the correspondence run covered",
        "outside the model (explicit OutOfModel): non-ASCII argv/environment, a literal '--', --paste on the command line, nargs on a setting",
        "each validator is a function of its argument (checked on the values of the run)",
    ]
    ctx.extra["exhaustive_space"] = "settings x source subsets x 2 value assignments (+ invalid values): %d cases" % (n_matrix,)
    ctx.extra["settings"] = len(W.rows)
    ctx.extra["add_option_default_literal_none (AST fact, informational)"] = L.add_option_default_literal_is_none(W.gc)
    ctx.log("ran %d real loads; oracle failures: %d" % (len(cases), len(failing)))
    # step 4: the property judged on the real loads
    seen_msgs = set()
    for case, fails in failing:
        cls = fails[0].split(":")[0] + ":" + str(case.get("target"))
        if cls in seen_msgs:
            continue
        seen_msgs.add(cls)
        report(ctx, W, case, fails)
        if len(ctx.violations) >= 4:
            break
    # step 3: model vs implementation
    header = HEADER_TMPL % ";\n".join("  (%d%%nat, %s, %s)" % (
        k[0], lit, "None" if enc is None else "(Some [%s])" % ";".join(("(%d)" % x) if x < 0 else str(x) for x in enc))
        for k, (lit, enc) in W.vt.items())
    bad = ctx.correspond("load", header, corr, shard=300)
    if bad:
        i, m, im = bad[0]
        rc = render(W, corr[i][2])
        desc = {"argv": rc["argv"], "env": corr[i][2].get("env_raw", rc["env"]), "dict": [(k, short(v)) for k, v in rc["dict"]],
                "file": [(k, short(v)) for k, v in rc["fitems"]]}
        ctx.broken.append("correspondence Model/Config.v vs Application.load_config: %d of %d loads differ; first: %r model=%r impl=%r"
                          % (len(bad), len(corr), desc, m, im))
        ctx.log("CORRESPONDENCE: %d loads differ, e.g. %r model=%r impl=%r" % (len(bad), desc, m, im))
        ctx.extra["correspondence_mismatches"] = [{"case": ser_case(W, corr[j][2]), "model": mm, "impl": ii} for j, mm, ii in bad[:10]]
    if (bad or bad is None or not ok) and not ctx.violations:
        search(ctx, W, abbr, [corr[j][2] for j, _, _ in (bad or [])[:50]])


def search(ctx, W, abbr, seeds):
    """failing-input search: the oracle alone on a much larger space"""
    ctx.log("failing-input search (oracle only) ...")
    tried = 0
    for case in seeds:
        tried += 1
        fails = safe_fails(W, case)
        if fails:
            report(ctx, W, case, fails)
            return
    for _ in range(30000):
        case = random_case(W, ctx.rng, abbr)
        tried += 1
        fails = safe_fails(W, case)
        if fails:
            report(ctx, W, case, fails)
            break
    ctx.extra["search_cases"] = tried


def replay(rep):
    W = World()
    try:
        if rep.get("kind") == "reload":
            c1, c2 = de_case(W, rep["case"]), de_case(W, rep["case_after"])
            rc1, _ = prepare(W, c1)
            rc2, _ = prepare(W, c2)
            fresh, again = W.run_real(rc2), run_real_reload(W, rc1, rc2)
            diff = [(r["name"], short(a), short(f)) for r, a, f in zip(W.rows, again[1], fresh[1]) if not same_value(a, f)] \
                if fresh[0] == "ok" and again[0] == "ok" else [("outcome", again[:2], fresh[:2])]
            print("files before:", rc1["files"], "\nfiles after:", rc2["files"], "\nreload vs fresh start:", diff)
            return 1 if diff else 0
        case = de_case(W, rep["case"])
        rc, oc, real, fails = evaluate(W, case)
        print("argv:", ["gunicorn"] + rc["argv"])
        print("GUNICORN_CMD_ARGS:", rc["env"])
        print("framework dict:", rc["dict"])
        print("files:", rc["files"], "pool:", rc["pool"])
        if real[0] == "ok":
            print("loaded; settings that differ from the built-in default:")
            for r in W.rows:
                if W.enc_value(r["idx"], real[1][r["idx"]]) != W.ref_enc[r["idx"]]:
                    print("   %s = %r" % (r["name"], real[1][r["idx"]]))
        else:
            print("outcome:", real)
        print("oracle failures:", fails)
        return 1 if fails else 0
    finally:
        W.close()
