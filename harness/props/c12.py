"""C12 - request-head limits are enforced and parser buffering is bounded.
(i) boundary triples at limit-1 / limit / limit+1 for the three limits and a lattice of limit values,
under several segmentations, on the real RequestParser, judged by the documented meaning of the
settings; (ii) endless sources that never send the delimiter the parser waits for, with a byte meter:
the parser must reject before it has pulled more than the configured bound plus one read;
(iii) the same boundary cases through Model/Parser.v."""
import itertools

import vlib
import lib_parser as lp

MAX_LINE, MAX_FIELDS, DEF_FIELD = 8190, 32768, 8190


def doc_eff_line(v):
    if v == 0:
        return 0                      # documented: 0 = unlimited
    return v if 0 < v < MAX_LINE else MAX_LINE


def doc_eff_fields(v):
    return v if 1 <= v <= MAX_FIELDS else MAX_FIELDS


def doc_eff_field_size(v):
    if v == 0:
        return 0                      # documented: 0 = unlimited
    return v if v > 0 else DEF_FIELD


def first_result(spec, chunks, read_body=False):
    """('ok', req) or ('err', class name) for the first request of the stream (with read_body: the request counts as
    handed over only when its body - chunk-size lines and trailer block included - could be read to the end)."""
    from gunicorn.http import RequestParser
    try:
        req = next(RequestParser(lp.real_cfg(spec), iter(chunks), lp.DEFAULT_PEER))
        if read_body:
            req.body.read()
        return ("ok", req)
    except StopIteration:
        return ("err", "StopIteration")
    except Exception as e:
        return ("err", type(e).__name__)


def segs(rng, s):
    out = [("whole", [s[i:i + 8192] for i in range(0, len(s), 8192)])]
    if len(s) <= 3000:
        out.append(("bytes", [s[i:i + 1] for i in range(len(s))]))
    out += [x for x in lp.segmentations(rng, s, ["random", "small"] if len(s) <= 20000 else ["random"])]
    return out


def line_cases(thorough=False):
    for lim in ([0, 1, 5, 20, 100, 4094, 8189, 8190, 8191, 20000] if not thorough else [0, 1, 2, 3, 5, 13, 14, 15, 16, 17, 20, 46, 47, 64, 100, 255, 256, 1000, 4094, 8000, 8189, 8190, 8191, 8192, 20000, 2**31]):
        eff = doc_eff_line(lim)
        targets = [eff - 1, eff, eff + 1] if eff > 0 else [10, 9000, 30000]
        for n in targets:
            # request line "GET /aaaa HTTP/1.1" of exactly n bytes (n >= 14 to be a valid line)
            if n < 16:
                line = b"G" * max(n, 0)          # too short to be valid anyway; only the size verdict matters
            else:
                line = b"GET /" + b"a" * (n - 14) + b" HTTP/1.1"
            yield lim, n, line + b"\r\nHost: x\r\n\r\n"


def field_count_cases(thorough=False):
    for lim in ([0, 1, 2, 7, 100, 101, 32768, 40000] if not thorough else [0, 1, 2, 3, 4, 7, 10, 50, 99, 100, 101, 500, 1000, 32767, 32768, 32769, 40000]):
        eff = doc_eff_fields(lim)
        for n in sorted(set([max(eff - 1, 0), eff, eff + 1])):
            if n > 1200 and lim not in (32768, 40000):
                continue
            if n > 33000:
                continue
            hdrs = b"".join(b"H%d: v\r\n" % i for i in range(n))
            yield lim, n, b"GET / HTTP/1.1\r\n" + hdrs + b"\r\n"


def field_size_cases(thorough=False):
    for lim in ([0, 1, 8, 10, 100, 8190, 8191, 20000] if not thorough else [0, 1, 4, 5, 6, 8, 10, 16, 64, 100, 1000, 8189, 8190, 8191, 20000, 100000]):
        eff = doc_eff_field_size(lim)
        sizes = [eff - 3, eff - 2, eff - 1, eff, eff + 1] if eff > 0 else [100, 9000, 50000]
        for n in sizes:
            if n < 4:
                continue
            # field lines of exactly n bytes (without CRLF) in several spellings: the size of a field is the
            # size of what was received, whatever optional whitespace surrounds the value
            forms = [b"X: " + b"v" * (n - 3), b"X:" + b"v" * (n - 2)]
            if n >= 12:
                forms.append(b"X:   " + b"v" * (n - 9) + b" \t  ")
                forms.append(b"X:\t" + b"v" * 2 + b" " * (n - 5))
            for field in forms:
                yield lim, n, b"GET / HTTP/1.1\r\n" + field + b"\r\n\r\n"


def policy_cases(thorough=False):
    """the same limits under the other parsing policies and in the trailer block: yields
    (what, spec, stream, n_fields_or_size, family, read_body) with family 'fields' | 'fsize'"""
    flagsets = [("folding", dict(permit_obsolete_folding=True)), ("strip-spaces", dict(strip_header_spaces=True)),
                ("map-refuse", dict(header_map="refuse")), ("map-dangerous", dict(header_map="dangerous")),
                ("proxy", dict(proxy_protocol=True))]
    head = b"GET / HTTP/1.1\r\n"
    for lim in ([1, 3, 7] if not thorough else [1, 2, 3, 4, 7, 20, 100]):
        for n in (lim - 1, lim, lim + 1):
            if n < 0:
                continue
            for tag, flags in flagsets:
                spec = lp.make_spec(limit_request_fields=lim, **flags)
                pre = b"PROXY TCP4 192.168.0.1 192.168.0.11 56324 443\r\n" if tag == "proxy" else b""
                if tag == "folding":
                    # every field folded over 1-3 lines: a field is a field however many lines it takes
                    for k in (2, 3):
                        hdrs = b"".join(b"H%d: a\r\n" % i + b" b\r\n" * (k - 1) for i in range(n))
                        yield ("%d fields folded over %d lines each, limit_request_fields=%d" % (n, k, lim), spec, head + hdrs + b"\r\n", n, lim, "fields", False)
                elif tag == "strip-spaces":
                    hdrs = b"".join(b"H%d  : v\r\n" % i for i in range(n))
                    yield ("%d fields with blanks before the colon, limit_request_fields=%d" % (n, lim), spec, head + hdrs + b"\r\n", n, lim, "fields", False)
                elif tag == "map-dangerous":
                    hdrs = b"".join(b"H_%d: v\r\n" % i for i in range(n))
                    yield ("%d underscore fields (header_map=dangerous), limit_request_fields=%d" % (n, lim), spec, head + hdrs + b"\r\n", n, lim, "fields", False)
                else:
                    hdrs = b"".join(b"H%d: v\r\n" % i for i in range(n))
                    yield ("%d fields (%s), limit_request_fields=%d" % (n, tag, lim), spec, pre + head + hdrs + b"\r\n", n, lim, "fields", False)
            # the trailer block of a chunked body is parsed by the same function under the same limits
            spec = lp.make_spec(limit_request_fields=lim)
            tr = b"".join(b"T%d: v\r\n" % i for i in range(n))
            yield ("%d trailer fields, limit_request_fields=%d" % (n, lim), spec,
                   head + b"Transfer-Encoding: chunked\r\n\r\n3\r\nabc\r\n0\r\n" + tr + b"\r\n", n, lim, "trailer-fields", True)
    # limit_request_field_size = 0 is documented as unlimited: under every policy, folded or not, a field is not rejected for size
    for n in (20, 300):
        spec = lp.make_spec(limit_request_field_size=0, permit_obsolete_folding=True)
        l1 = b"X: " + b"v" * (n // 2)
        l2 = b" " + b"w" * (n // 2)
        yield ("folded field of %d bytes, limit_request_field_size=0 (unlimited)" % (len(l1) + 2 + len(l2)), spec,
               head + l1 + b"\r\n" + l2 + b"\r\n" + l2 + b"\r\n\r\n", len(l1) + 4 + 2 * len(l2), 0, "fsize-folded", False)
        for mtag, mflags in (("drop", {}), ("refuse", dict(header_map="refuse")), ("dangerous", dict(header_map="dangerous")),
                             ("strip-spaces", dict(strip_header_spaces=True))):
            for name in (b"X-Pad", b"X_Pad"):
                spec = lp.make_spec(limit_request_field_size=0, **mflags)
                fld = name + b": " + b"v" * n
                yield ("field %s of %d bytes (%s), limit_request_field_size=0 (unlimited)" % (name.decode(), len(fld), mtag), spec,
                       head + fld + b"\r\n\r\n", len(fld), 0, "fsize-policy", False)
        spec = lp.make_spec(limit_request_field_size=0)
        tr = b"T: " + b"v" * n
        yield ("trailer field of %d bytes, limit_request_field_size=0 (unlimited)" % len(tr), spec,
               head + b"Transfer-Encoding: chunked\r\n\r\n3\r\nabc\r\n0\r\n" + tr + b"\r\n\r\n", len(tr), 0, "trailer-fsize", True)
    for lim in ([12, 40] if not thorough else [12, 16, 40, 100, 1000]):
        for n in (lim - 3, lim - 2, lim, lim + 1, lim + 5):
            # a folded field of n bytes in all (two lines, each with its CRLF counted by gunicorn)
            spec = lp.make_spec(limit_request_field_size=lim, permit_obsolete_folding=True)
            a = max(4, n // 2)
            l1 = b"X: " + b"v" * (a - 3)
            l2 = b" " + b"w" * max(0, n - a - 3)           # n = len(l1) + 2 + len(l2) : CRLF of the first line counted
            total = len(l1) + 2 + len(l2)
            yield ("folded field of %d bytes, limit_request_field_size=%d" % (total, lim), spec, head + l1 + b"\r\n" + l2 + b"\r\n\r\n", total, lim, "fsize-folded", False)
            # the size of a field is the size of a field whatever becomes of it afterwards: under every header_map policy, for
            # names with an underscore (dropped / refused / passed on) and for a forwarder header
            for mtag, mflags in (("drop", {}), ("refuse", dict(header_map="refuse")), ("dangerous", dict(header_map="dangerous"))):
                for name in (b"X-Pad", b"X_Pad", b"X_Forwarded_For"):
                    if n <= len(name) + 3:
                        continue
                    spec = lp.make_spec(limit_request_field_size=lim, **mflags)
                    fld = name + b": " + b"v" * (n - len(name) - 2)
                    yield ("field %s of %d bytes (header_map=%s), limit_request_field_size=%d" % (name.decode(), len(fld), mtag, lim), spec,
                           head + fld + b"\r\n\r\n", len(fld), lim, "fsize-policy", False)
            if lim < 30:
                continue                  # the Transfer-Encoding field of the head itself has 26 bytes
            spec = lp.make_spec(limit_request_field_size=lim)
            tr = b"T: " + b"v" * max(1, n - 3)
            yield ("trailer field of %d bytes, limit_request_field_size=%d" % (len(tr), lim), spec,
                   head + b"Transfer-Encoding: chunked\r\n\r\n3\r\nabc\r\n0\r\n" + tr + b"\r\n\r\n", len(tr), lim, "trailer-fsize", True)


class Meter:
    """An endless lazy source: prefix, then `unit` repeated for ever, in reads of `read` bytes."""

    def __init__(self, prefix, unit, read):
        self.buf = prefix
        self.unit = unit
        self.read = read
        self.pulled = 0

    def __iter__(self):
        return self

    def __next__(self):
        while len(self.buf) < self.read:
            self.buf += self.unit * (self.read // len(self.unit) + 1)
        out, self.buf = self.buf[:self.read], self.buf[self.read:]
        self.pulled += len(out)
        return out


class Stop(Exception):
    pass


def endless(spec, kind, read, cutoff):
    """Returns (pulled bytes when the parser gave up, how)."""
    from gunicorn.http import RequestParser
    head_chunked = b"POST / HTTP/1.1\r\nTransfer-Encoding: chunked\r\n\r\n"
    src = {
        "request-line": Meter(b"GET /", b"a", read),
        "request-line-after-proxy-line": Meter(b"PROXY TCP4 192.168.0.1 192.168.0.11 56324 443\r\nGET /", b"a", read),
        "proxy-line": Meter(b"PROXY TCP4 ", b"1", read),
        "header-lines": Meter(b"GET / HTTP/1.1\r\n", b"X-Filler: 0123456789\r\n", read),
        "header-no-crlf": Meter(b"GET / HTTP/1.1\r\nX: ", b"v", read),
        "chunk-size-digits": Meter(head_chunked, b"1", read),
        "chunk-extension": Meter(head_chunked + b"1;", b"e", read),
        "trailer-lines": Meter(head_chunked + b"1\r\nx\r\n0\r\n", b"T-Filler: 0123456789\r\n", read),
        "trailer-no-crlf": Meter(head_chunked + b"0\r\nT: ", b"v", read),
        # endless halves of the terminator each loop waits for: the bytes never complete it, so the buffer must not be
        # measured "without its terminator"
        "request-line-cr": Meter(b"GET / HTTP/1.1", b"\r", read),
        "request-line-cr-only": Meter(b"", b"\r", read),
        "request-line-lf": Meter(b"GET /", b"\n", read),
        "proxy-line-cr": Meter(b"PROXY TCP4 1.2.3.4", b"\r", read),
        "header-cr": Meter(b"GET / HTTP/1.1\r\nX: v", b"\r", read),
        "header-crlfcr": Meter(b"GET / HTTP/1.1\r\nX: v", b"\r\n\r", read),
        "header-lf": Meter(b"GET / HTTP/1.1\r\nX: v", b"\n", read),
        "chunk-size-cr": Meter(head_chunked + b"1", b"\r", read),
        "trailer-crlfcr": Meter(head_chunked + b"0\r\nT: v", b"\r\n\r", read),
        "trailer-cr": Meter(head_chunked + b"0\r\nT: v", b"\r", read),
    }[kind]

    class Guard:
        def __iter__(self):
            return self

        def __next__(self):
            if src.pulled > cutoff:
                raise Stop()
            return next(src)
    try:
        req = next(RequestParser(lp.real_cfg(spec), Guard(), lp.DEFAULT_PEER))
        while req.body.read(8192):
            pass
        return src.pulled, "completed"
    except Stop:
        return src.pulled, "cutoff"
    except Exception as e:
        return src.pulled, type(e).__name__


def bound_of(spec):
    fields = doc_eff_fields(spec["limit_request_fields"])
    fs = doc_eff_field_size(spec["limit_request_field_size"]) or DEF_FIELD
    block = fields * (fs + 2) + 4
    line = doc_eff_line(spec["limit_request_line"])
    return max(block, line + 2)


def run(ctx):
    ok = ctx.build()
    rng = ctx.rng
    model_cases = []
    nviol = 0

    def judge(what, spec, stream, must_reject, must_accept, size_errors, key, read_body=False):
        nonlocal nviol
        for name, chunks in segs(rng, stream):
            kind, val = first_result(spec, chunks, read_body)
            ctx.count_case((key, name, len(stream)), True)
            ctx.hist("verdict", val if kind == "err" else "accepted")
            bad = None
            if must_reject and kind == "ok":
                bad = "%s: over the limit but handed to the application" % what
            if must_accept and kind == "err" and val in size_errors:
                bad = "%s: within the limit but rejected for size (%s)" % (what, val)
            if bad and nviol < 3:
                nviol += 1
                ctx.violation(bad, {"kind": "boundary", "what": what, "spec": spec, "stream_len": len(stream),
                                    "stream_head": stream[:200].decode("latin-1"), "segmentation": name,
                                    "chunks": [len(c) for c in chunks][:50], "result": [kind, val if kind == "err" else "request"]})
            if len(stream) <= 1500 and name in ("whole", "random", "small"):
                prog = [[("read", None)]] if read_body else [[]]
                obs, rec = lp.run_impl(spec, chunks, prog)
                model_cases.append((lp.model_expr(spec, chunks, prog, rec), obs, {"what": what, "spec_key": key, "len": len(stream)}))

    for lim, n, stream in line_cases(not ctx.quick()):
        eff = doc_eff_line(lim)
        spec = lp.make_spec(limit_request_line=lim)
        judge("request line of %d bytes, limit_request_line=%d" % (n, lim), spec, stream,
              must_reject=(eff > 0 and n > eff), must_accept=(eff == 0 or n <= eff), size_errors=("LimitRequestLine",), key=("line", lim, n))
        ctx.hist("family", "request-line")
        # the same line limit applies to the request line that follows a PROXY protocol line
        pspec = lp.make_spec(limit_request_line=lim, proxy_protocol=True)
        judge("request line of %d bytes after a PROXY line, limit_request_line=%d" % (n, lim), pspec,
              b"PROXY TCP4 192.168.0.1 192.168.0.11 56324 443\r\n" + stream,
              must_reject=(eff > 0 and n > eff), must_accept=(eff == 0 or (n <= eff and eff >= 46)), size_errors=("LimitRequestLine",), key=("pline", lim, n))
    for lim, n, stream in field_count_cases(not ctx.quick()):
        eff = doc_eff_fields(lim)
        spec = lp.make_spec(limit_request_fields=lim)
        judge("%d header fields, limit_request_fields=%d" % (n, lim), spec, stream,
              must_reject=(n > eff), must_accept=(n <= eff), size_errors=("LimitRequestHeaders",), key=("fields", lim, n))
        ctx.hist("family", "field-count")
    for lim, n, stream in field_size_cases(not ctx.quick()):
        eff = doc_eff_field_size(lim)
        spec = lp.make_spec(limit_request_field_size=lim)
        # the size of a field may or may not include its CRLF: both readings are accepted in the 2-byte window
        judge("header field of %d bytes, limit_request_field_size=%d" % (n, lim), spec, stream,
              must_reject=(eff > 0 and n > eff), must_accept=(eff == 0 or n + 2 <= eff), size_errors=("LimitRequestHeaders",), key=("fsize", lim, n))
        ctx.hist("family", "field-size")
    # the same limits under the other parsing policies (folding, blanks before the colon, header_map, PROXY line) and in
    # the trailer block
    for what, spec, stream, n, lim, fam, rb in policy_cases(not ctx.quick()):
        if fam in ("fields", "trailer-fields"):
            judge(what, spec, stream, must_reject=(n > lim), must_accept=(n <= lim), size_errors=("LimitRequestHeaders",),
                  key=(fam, what), read_body=rb)
        else:
            # gunicorn counts the CRLF of every line of the field; both readings accepted in the 2-bytes-per-line window
            lines = 2 if fam == "fsize-folded" else 1
            if lim == 0:                 # unlimited
                judge(what, spec, stream, must_reject=False, must_accept=True, size_errors=("LimitRequestHeaders",),
                      key=(fam, what), read_body=rb)
            else:
                judge(what, spec, stream, must_reject=(n > lim), must_accept=(n + 2 * lines <= lim), size_errors=("LimitRequestHeaders",),
                      key=(fam, what), read_body=rb)
        ctx.hist("family", fam)
    # chunk-size line and trailer block found within one read but beyond the cap (the test after the terminator was seen)
    head = b"POST / HTTP/1.1\r\nTransfer-Encoding: chunked\r\n\r\n"
    for fields, fsize in ((1, 30), (2, 40)) if ctx.quick() else ((1, 30), (2, 40), (3, 100), (1, 0)):
        spec = lp.make_spec(limit_request_fields=fields, limit_request_field_size=fsize)
        cap = doc_eff_fields(fields) * ((doc_eff_field_size(fsize) or DEF_FIELD) + 2) + 4
        for d in (-6, -3, -2, -1, 0, 1, 2, 3, 6):
            # chunk-size line "3;xxxx" of `ln` bytes (without its CRLF)
            ln = cap + d
            if ln >= 3:
                line = b"3;" + b"x" * (ln - 2)
                stream = head + line + b"\r\nabc\r\n0\r\n\r\n"
                judge("chunk-size line of %d bytes, cap %d" % (ln, cap), spec, stream,
                      must_reject=(ln > cap), must_accept=(ln + 2 <= cap), size_errors=("InvalidChunkSize", "LimitRequestHeaders"),
                      key=("chunkline", fields, fsize, d), read_body=True)
                ctx.hist("family", "chunk-size-line")
            # trailer block of `tb` bytes up to its terminating empty line, made of as many fields as allowed
            if fsize == 0 or fields == 1:
                continue
        # trailer block: `fields` fields of maximal size fit; one byte more per field does not
        if fsize:
            for extra in (0, 1, 3):
                f_len = fsize - 2 + extra                       # field line without CRLF
                tr = b"".join(b"T%d: " % i + b"v" * (f_len - 4) + b"\r\n" for i in range(fields))
                stream = head + b"3\r\nabc\r\n0\r\n" + tr + b"\r\n"
                judge("trailer block of %d fields of %d bytes, limits %d / %d" % (fields, f_len, fields, fsize), spec, stream,
                      must_reject=(f_len > fsize), must_accept=(extra == 0), size_errors=("LimitRequestHeaders",),
                      key=("trailerblock", fields, fsize, extra), read_body=True)
                ctx.hist("family", "trailer-block")
    # a trailer block beyond the cap of the whole block while every field is within an unlimited field size
    spec = lp.make_spec(limit_request_fields=1, limit_request_field_size=0)
    cap = 1 * (DEF_FIELD + 2) + 4
    for d in (-8, -5, -4, -3, 0, 4):
        tr = b"T: " + b"v" * (cap + d - 3)                       # idx of CRLFCRLF = cap + d
        stream = head + b"3\r\nabc\r\n0\r\n" + tr + b"\r\n\r\n"
        judge("trailer block of %d bytes with limit_request_field_size=0, cap %d" % (cap + d, cap), spec, stream,
              must_reject=(d > 0), must_accept=(cap + d + 4 <= cap), size_errors=("LimitRequestHeaders",),
              key=("trailercap", d), read_body=True)
        ctx.hist("family", "trailer-block")
    # the same for the header block of the request itself (one field of unlimited size, block at / around the cap)
    spec = lp.make_spec(limit_request_fields=1, limit_request_field_size=0)
    cap = 1 * (DEF_FIELD + 2) + 4
    for d in (-8, -5, -4, -3, 0, 4):
        fld = b"X: " + b"v" * (cap + d - 3)                      # idx of CRLFCRLF = cap + d
        stream = b"GET / HTTP/1.1\r\n" + fld + b"\r\n\r\n"
        judge("header block of %d bytes with limit_request_field_size=0, cap %d" % (cap + d, cap), spec, stream,
              must_reject=(d > 0), must_accept=(cap + d + 4 <= cap), size_errors=("LimitRequestHeaders",),
              key=("headercap", d))
        ctx.hist("family", "header-block")
    # dropped fields (header_map = drop) count as well
    spec = lp.make_spec(limit_request_fields=2)
    judge("4 underscore fields dropped by header_map=drop, limit_request_fields=2", spec,
          b"GET / HTTP/1.1\r\na_b: 1\r\nc_d: 2\r\ne_f: 3\r\ng_h: 4\r\n\r\n", True, False, ("LimitRequestHeaders",), key=("dropped", 2, 4))

    # (ii) endless sources
    specs = [lp.make_spec(limit_request_line=50, limit_request_fields=4, limit_request_field_size=60),
             lp.make_spec(limit_request_line=1000, limit_request_fields=10, limit_request_field_size=100),
             lp.make_spec(limit_request_fields=20, limit_request_field_size=0)]
    if not ctx.quick():
        specs.append(lp.make_spec())
        specs.append(lp.make_spec(limit_request_line=8190, limit_request_fields=3, limit_request_field_size=8190))
        specs.append(lp.make_spec(limit_request_line=1, limit_request_fields=1, limit_request_field_size=1))
        specs.append(lp.make_spec(limit_request_line=0, limit_request_fields=5, limit_request_field_size=200))
    kinds = ["request-line", "request-line-after-proxy-line", "proxy-line", "header-lines", "header-no-crlf", "chunk-size-digits", "chunk-extension", "trailer-lines", "trailer-no-crlf",
             "request-line-cr", "request-line-cr-only", "request-line-lf", "proxy-line-cr", "header-cr", "header-crlfcr", "header-lf", "chunk-size-cr", "trailer-crlfcr", "trailer-cr"]
    for spec in specs:
        bound = bound_of(spec)
        for kind in kinds:
            if "proxy" in kind:
                spec = dict(spec, proxy_protocol=True)
            if doc_eff_line(spec["limit_request_line"]) == 0 and kind in ("request-line", "request-line-after-proxy-line", "proxy-line",
                                                                          "request-line-cr", "request-line-cr-only", "request-line-lf", "proxy-line-cr"):
                continue          # limit_request_line = 0 is documented as "unlimited": no bound is claimed
            for read in (([7, 1024, 8192] if ctx.quick() else [1, 3, 7, 100, 1023, 1024, 4096, 8191, 8192]) if bound < 100000 else [8192]):
                cutoff = 64 * bound
                pulled, how = endless(spec, kind, read, cutoff)
                ctx.count_case(("endless", kind, read, bound), True)
                ctx.hist("endless_outcome", how)
                ctx.extra.setdefault("meters", []).append({"kind": kind, "read": read, "bound": bound, "pulled": pulled, "how": how})
                # the parser may hold one read beyond the cap, and the head of the message precedes the metered part
                if how in ("cutoff", "completed") or pulled > bound + 2 * read + 128:
                    if nviol < 3:
                        nviol += 1
                        ctx.violation("endless %s: %d bytes pulled (%s) with a configured bound of %d" % (kind, pulled, how, bound),
                                      {"kind": "endless", "source": kind, "read": read, "spec": spec, "bound": bound, "pulled": pulled, "how": how})
    ctx.cov["rule"] = ("boundary triples (limit-1, limit, limit+1) for limit_request_line / limit_request_fields / limit_request_field_size over "
                       "limit values {0,1,...,default,max,max+1}, each under whole / per-byte / random / small-block segmentations; nineteen endless "
                       "sources (never a CRLF in request line / header field / chunk-size line / chunk extension / trailer field; header or trailer "
                       "lines for ever; endless halves of the awaited terminator: bare CR, bare LF, CR LF CR) x read sizes {7,1024,8192} with a byte meter, cut off at 64x the configured bound; every case distinct and non-trivial")
    ctx.sample({"family": "request-line", "limit": 20, "line_bytes": [19, 20, 21]})
    ctx.sample({"family": "endless", "meters": ctx.extra.get("meters", [])[:4]})
    ctx.log("boundary + endless cases done: %d evaluations" % ctx.cov["evaluations"])
    bad = ctx.correspond("limits", lp.HEADER, model_cases, shard=80)
    if bad:
        i, m, im = bad[0]
        ctx.broken.append("correspondence Model/Parser.v vs RequestParser on limit cases: %d of %d differ; first: %r model=%r impl=%r"
                          % (len(bad), len(model_cases), model_cases[i][2], m[-6:], im[-6:]))


def replay(rep):
    if rep["kind"] == "endless":
        pulled, how = endless(rep["spec"], rep["source"], rep["read"], 64 * rep["bound"])
        print(pulled, how)
        return 1 if how in ("cutoff", "completed") or pulled > rep["bound"] + 2 * rep["read"] + 128 else 0
    print("boundary replay: re-run ./check C12 quick (the case is regenerated deterministically):", rep["what"])
    return 1
