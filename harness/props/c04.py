"""C04 - graceful shutdown completes in-flight requests and leaves nothing behind.

Three layers:
 1. master side, simulated kernel: the REAL Arbiter.run() is driven to the dispatch of a TERM / INT / QUIT with a
    generated pool (workers running / dead-unreaped, a re-exec child, child-master mode, systemd, reuse_port, unix + TCP
    listeners, pid file), then through every interleaving the schedule names (child deaths, SIGCHLD, time) until it exits.
    The state at the dispatch is handed to Model/Shutdown.v and the observation after every master / SIGCHLD step is
    compared (vm_compute in Coq); the property is judged directly on the real run (oracle).
 2. worker side, REAL processes: master + workers of each class started from $VERIF_REPO, a client holding a connection
    in a chosen phase when TERM / INT / QUIT reaches the master; compared with the verdict of the worker model and judged
    against the property (response complete, exit status, exit time, /proc, pid file, socket file).
 3. tables (Gen/GenShutdown.v): signal -> handler, siginterrupt, drain bounds - proved facts depend on them.
"""
import os

import lib_arbiter as L
import lib_arb2 as A
import vlib

SIG = A.SIG
KEY_RX = "reexec-fork-reap-race"
KEY_GTQ = "quick-shutdown-gthread-joins-threads"

BINDS = [
    ["127.0.0.1:8000"],
    ["unix:/run/gv/a.sock"],
    ["unix:/run/gv/a.sock", "127.0.0.1:8000", "unix:/run/gv/b.sock"],
    ["127.0.0.1:8000", "127.0.0.1:8001"],
]


class CapList(list):
    """closed_listeners of a World: remembers the kernel's view at the first close_sockets call"""
    def __init__(self, world):
        list.__init__(self)
        self.w = world
        self.first = None

    def append(self, x):
        if self.first is None:
            w = self.w
            self.first = {"master_kids": [k["pid"] for k in w.kids if k["master"]], "wall": w.wall - L.WALL0}
        list.append(self, x)


def run_case(case, tail="steps"):
    cfg = case["cfg"]
    inherited = None
    if cfg.get("master_pid"):
        inherited = {10 + i: (b[5:] if b.startswith("unix:") else tuple([b.split(":")[0], int(b.split(":")[1])]))
                     for i, b in enumerate(cfg["binds"])}
    w = A.World2(workers=cfg["workers"], timeout=30, graceful=cfg["graceful"], pidfile=cfg.get("pidfile"),
                 binds=cfg["binds"], master_pid=cfg.get("master_pid", 0), reuse_port=cfg.get("reuse_port", False),
                 systemd_fds=cfg.get("systemd_fds", 0), inherited=inherited, snapshot_stop=True)
    w.closed_listeners = CapList(w)
    if case.get("tail", tail) == "fair":
        pol = A.fair_stop_policy()
    else:
        pol = A.steps_policy(4000)      # (the unchanged tree needs at most ~120: the budget only stops a master that never exits)
    try:
        w.run([tuple(x) for x in case["script"]], policy=pol)
        w.final_pid_files = w.pid_files()
        w.final_pid_present = w.pid_present() if w.stop_init is not None else None
    finally:
        w.cleanup()
    return w


def judge(case, w):
    """the property on the real run; returns [(text, known-key-or-None)]"""
    fails = []
    init = w.stop_init
    if w.outcome[0] == "error":
        return [("unexpected exception in the master: %s" % (w.outcome[1],), None)]
    if init is None:
        return fails            # no stop signal was dispatched in this run
    sig = init["sig"]
    graceful = sig == SIG["TERM"]
    # boot failures (exit codes 3 / 4) reaped through the worker branch of reap_workers; the FIRST reason decides the exit
    # status: one reaped before the master entered stop() halts it with that code (C03), one reaped once the shutdown is under
    # way is an ordinary death and the status stays 0
    boot = [(p, s) for (p, s), rx in zip(w.reaps, w.reaps_ctx) if (s >> 8) in (3, 4) and rx != p]
    first = [(p, s) for p, s in boot if w.stopping_at is None or w.reap_at.get(p, 0) <= w.stopping_at]
    t0 = init["wall"]
    G = init["grace"]
    nap = 26
    ticks = sum(l[1] for l in w.resolved[w.stop_index:] if l[0] == "T")
    if w.outcome[0] == "done":
        fails.append(("the master was still running %d steps after it dispatched signal %d" % (
            sum(1 for l in w.resolved[w.stop_index:] if l[0] == "M"), sig), None))
        return fails
    if w.outcome[0] == "crash":
        fails.append(("an exception escaped from Arbiter.run() during the shutdown: %s (exit status 1, pid file kept); boot failures reaped: %r"
                      % (w.outcome[1], boot), None))
        return fails
    status = w.outcome[1]
    want_status = (first[0][1] >> 8) if first else 0
    if status != want_status:
        fails.append(("master exited with status %r after signal %d; expected %d (%s)" % (
            status, sig, want_status, "the boot failure of worker %d was reaped before the master began to stop" % first[0][0] if first
            else "no boot failure was reaped before the master began to stop" + ("; reaped while it was stopping: %r" % (boot,) if boot else "")), None))
    t1 = w.wall - L.WALL0
    bound = (G + nap) * (1 if graceful else 2) + ticks
    if t1 - t0 > bound:
        fails.append(("master exited %d ticks after the dispatch of signal %d; graceful_timeout + one nap%s + slack allows %d" % (
            t1 - t0, sig, "" if graceful else " (twice: stop(False), then halt())", bound), None))
    survivors = [k["pid"] for k in w.kids if k["st"] == "R" and not k["master"]]
    if survivors:
        fails.append(("worker processes %r survive the master" % (survivors,), None))
    if w.arbiter.LISTENERS:
        fails.append(("LISTENERS not empty at exit", None))
    open_l = [i for i, _ in init["lst"] if i not in w.closed_ids]
    if open_l:
        fails.append(("listeners %r were never closed" % (open_l,), None))
    if init["pidconf"] and w.final_pid_present:
        fails.append(("the pid file still exists after the master exited", None))
    # unix socket files
    paths = [p for _, p in init["sock_paths"]]
    first = w.closed_listeners.first or {"master_kids": []}
    alone = (not first["master_kids"]) and init["mpid"] == 0 and not init["systemd"] and not init["reuse"]
    # signature of the fork / SIGCHLD race on the re-exec child: it was reaped before `self.reexec_pid = os.fork()` was assigned
    masters = set(p for p, m, _ in w.forks if m)
    rx_race = any(p in masters and ctx_rx != p for (p, _), ctx_rx in zip(w.reaps, w.reaps_ctx))
    for p in paths:
        n = w.fs_unlinked.count(p)
        if alone and n != 1:
            fails.append(("unix socket file %s was unlinked %d time(s) by a master that owns it alone" % (p, n),
                          KEY_RX if rx_race and n == 0 else None))
        if not alone and n != 0:
            fails.append(("unix socket file %s was unlinked although %s" % (p, (
                "a re-executed master %r exists" % first["master_kids"] if first["master_kids"] else
                "this master is the child of master %d" % init["mpid"] if init["mpid"] else
                "the sockets belong to systemd" if init["systemd"] else "reuse_port is set")), None))
    for p in w.fs_unlinked:
        if p not in paths:
            fails.append(("a file that is not one of the unix listeners was unlinked: %r" % (p,), None))
    # the signals the workers got
    dl = [(p, s, m - L.MONO0) for p, s, m in w.all_delivered[init["ndelivered"]:]]
    early = [(p, t) for p, s, t in dl if s == SIG["KILL"] and t < t0 + G]
    if early:
        fails.append(("SIGKILL sent to %r before graceful_timeout had passed (dispatch at %d, limit %d)" % (early, t0, t0 + G), None))
    tracked = set(init["ws"])
    running0 = [p for p, z, st, sg, m in init["kids"] if not z and not m and p in tracked]
    first_sig = {}
    for p, s, t in dl:
        first_sig.setdefault(p, s)
    want = SIG["TERM"] if graceful else SIG["QUIT"]
    for p in running0:
        died_before = any(e[0] == "death" and e[1] == p for e in w.events) and p not in first_sig
        if p not in first_sig:
            if not died_before:
                fails.append(("worker %d was running and tracked when signal %d was dispatched but was never signalled" % (p, sig), None))
        elif first_sig[p] != want and not first:
            fails.append(("worker %d got signal %d first; a %s shutdown sends %d" % (p, first_sig[p], "graceful" if graceful else "quick", want), None))
    if case.get("prompt") and not fails:
        if t1 - t0 > nap + ticks:
            fails.append(("every worker exited at once, yet the master needed %d ticks to exit" % (t1 - t0,), None))
    return fails


# ---------------------------------------------------------------------------------------------------------------------
# generators
# ---------------------------------------------------------------------------------------------------------------------

def boot_len(workers):
    return 8 + 5 * workers


def base_cfg(workers=2, graceful=1, binds=0, pidfile="g.pid", **kw):
    c = {"workers": workers, "graceful": graceful, "binds": BINDS[binds], "pidfile": pidfile}
    c.update(kw)
    return c


def fixed_cases():
    cases = []
    M = ("M",)
    for sg in ("TERM", "INT", "QUIT"):
        for binds in range(len(BINDS)):
            # nobody exits: full wait, then KILL
            cases.append({"cfg": base_cfg(2, 1, binds), "script": [M] * boot_len(2) + [("S", SIG[sg])], "kind": "stubborn"})
            # everybody exits at once
            cases.append({"cfg": base_cfg(3, 2, binds), "script": [M] * boot_len(3) + [("S", SIG[sg])], "tail": "fair",
                          "prompt": sg != "TERM", "kind": "fair"})
        # a re-executed master exists / died unreaped / died and was reaped
        for extra in ([], [("Xk", 9, 0)], [("Xk", 9, 0), ("C",)]):
            cases.append({"cfg": base_cfg(1, 1, 2), "kind": "reexec",
                          "script": [M] * boot_len(1) + [("S", SIG["USR2"])] + [M] * 5 + extra + [("S", SIG[sg])]})
        cases.append({"cfg": base_cfg(1, 1, 2, master_pid=40), "script": [M] * boot_len(1) + [("S", SIG[sg])], "kind": "child-master"})
        cases.append({"cfg": base_cfg(1, 1, 1, systemd_fds=2), "script": [M] * boot_len(1) + [("S", SIG[sg])], "kind": "systemd"})
        cases.append({"cfg": base_cfg(1, 1, 2, reuse_port=True), "script": [M] * boot_len(1) + [("S", SIG[sg])], "kind": "reuse_port"})
        cases.append({"cfg": base_cfg(2, 0, 1, pidfile=None), "script": [M] * boot_len(2) + [("S", SIG[sg])], "kind": "graceful0"})
        cases.append({"cfg": base_cfg(0, 1, 1), "script": [M] * 6 + [("S", SIG[sg])], "kind": "no-workers"})
        # a death + SIGCHLD at every point of the stop
        for i in range(0, 14):
            cases.append({"cfg": base_cfg(2, 1, 1), "kind": "delivery-point",
                          "script": [M] * boot_len(2) + [("S", SIG[sg])] + [M] * i + [("Xk", 0, 0), ("C",)]})
            cases.append({"cfg": base_cfg(2, 1, 1), "kind": "delivery-split",
                          "script": [M] * boot_len(2) + [("Xk", 1, 15), ("S", SIG[sg])] + [M] * i + [("C",)]})
    # a worker that fails to boot around the shutdown: before the dispatch its code is the exit status, once stop() has begun
    # it is an ordinary death (status 0, pid file removed, no exception leaves run())
    for sg in ("TERM", "INT", "QUIT"):
        for code in (768, 1024):
            for i in range(0, 12):
                cases.append({"cfg": base_cfg(2, 1, 1), "kind": "boot-failure",
                              "script": [M] * boot_len(2) + [("S", SIG[sg])] + [M] * i + [("Xk", 0, code), ("C",)]})
        cases.append({"cfg": base_cfg(3, 1, 2), "kind": "boot-failure", "tail": "fair",
                      "script": [M] * boot_len(3) + [("S", SIG[sg])] + [M] * 2 + [("Xk", 0, 768), ("Xk", 0, 1024), ("C",), M, ("Xk", 0, 768), ("C",)]})
        # the boot failure comes first (not yet reaped / reaped) and the signal is queued behind it
        cases.append({"cfg": base_cfg(2, 1, 1), "kind": "boot-failure-first",
                      "script": [M] * boot_len(2) + [("Xk", 1, 1024), ("S", SIG[sg]), ("C",)] + [M] * 3 + [("Xk", 0, 768), ("C",)]})
    return cases


def gen_random(rng):
    workers = rng.choice([0, 1, 2, 2, 3, 4])
    cfg = base_cfg(workers, rng.choice([0, 1, 1, 2]), rng.randrange(len(BINDS)), rng.choice(["g.pid", "g.pid", None]))
    x = rng.random()
    if x < 0.10:
        cfg["master_pid"] = 40
    elif x < 0.18:
        cfg["systemd_fds"] = rng.choice([1, 2])
    elif x < 0.26:
        cfg["reuse_port"] = True
    M = ("M",)
    script = [M] * rng.choice([boot_len(workers), boot_len(workers), rng.randint(0, boot_len(workers))])
    # before the signal: an upgrade in progress, deaths, resize
    for _ in range(rng.choice([0, 0, 1, 2, 3])):
        y = rng.random()
        if y < 0.3 and not cfg.get("master_pid"):
            script += [("S", SIG["USR2"])] + [M] * rng.randint(0, 6)
        elif y < 0.6:
            script += [("Xk", rng.randrange(5), rng.choice([0, 9, 15, 256]))] + ([("C",)] if rng.random() < 0.5 else [])
        elif y < 0.8:
            script += [("S", rng.choice([SIG["TTIN"], SIG["TTOU"], SIG["HUP"]]))] + [M] * rng.randint(0, 12)
        else:
            script += [M] * rng.randint(1, 8)
    sg = rng.choice(["TERM", "TERM", "INT", "QUIT"])
    script.append(("S", SIG[sg]))
    if rng.random() < 0.15:
        script.append(("S", rng.choice([SIG["TERM"], SIG["HUP"], SIG["QUIT"]])))
    for _ in range(rng.randint(0, 10)):
        y = rng.random()
        if y < 0.35:
            script.append(("Xk", rng.randrange(5), rng.choice([0, 0, 9, 15, 256, 0xFF00] if rng.random() < 0.85 else [768, 1024])))
            if rng.random() < 0.6:
                script += [M] * rng.choice([0, 0, 1, 2])
                script.append(("C",))
        elif y < 0.5:
            script.append(("C",))
        elif y < 0.65:
            script.append(("T", rng.choice([1, 13, 26, 100, 256, 300])))
        script += [M] * rng.choice([0, 1, 1, 2, 3, 5, 8])
    case = {"cfg": cfg, "script": script, "kind": "random"}
    if rng.random() < 0.4:
        case["tail"] = "fair"
    return case


# ---------------------------------------------------------------------------------------------------------------------

def describe(case):
    return {"cfg": case["cfg"], "schedule": [list(x) for x in case["script"]], "tail": case.get("tail", "steps")}


def run_sim(ctx):
    cases = fixed_cases()
    n_random = 1200 if ctx.quick() else 12000
    for _ in range(n_random):
        cases.append(gen_random(ctx.rng))
    corr = []
    failures = []
    for case in cases:
        w = run_case(case)
        nontrivial = w.stop_init is not None and len(w.stop_init["kids"]) >= 1
        ctx.count_case((repr(sorted(case["cfg"].items())), tuple(case["script"]), case.get("tail")), nontrivial=nontrivial)
        ctx.hist("kind", case["kind"])
        ctx.hist("outcome", w.outcome[0] + ("" if w.outcome[0] != "exit" else str(w.outcome[1])))
        if w.stop_init is not None:
            ctx.hist("signal", w.stop_init["sig"])
            ctx.hist("pool", "%d tracked / %d children" % (len(w.stop_init["ws"]), len(w.stop_init["kids"])))
            corr.append((A.stop_model_expr(w), L.flat(w.trace2), describe(case)))
        fs = judge(case, w)
        if fs:
            failures.append((case, fs))
        if case["kind"] == "random":
            ctx.sample(describe(case))
    ctx.log("ran %d shutdown schedules on the real Arbiter; %d with oracle failures" % (len(cases), len(failures)))
    report(ctx, failures)
    bad = ctx.correspond("stop", A.HEADER_STOP, corr, shard=100)
    if bad:
        i, m, im = bad[0]
        k = next((j for j in range(min(len(m), len(im))) if m[j] != im[j]), min(len(m), len(im)))
        ctx.broken.append("correspondence Model/Shutdown.v vs gunicorn/arbiter.py: %d of %d schedules differ; first: %r (observation index %d: model %r impl %r)"
                          % (len(bad), len(corr), corr[i][2], k, m[max(0, k - 8):k + 6], im[max(0, k - 8):k + 6]))
        ctx.log("CORRESPONDENCE: %d schedules differ" % len(bad))
    return bad


def report(ctx, failures):
    shown = 0
    for case, fs in failures:
        for text, key in fs:
            if key is not None and ctx.known.has(ctx.prop, key):
                ctx.violation(text, {}, key=key)
                continue
            if shown >= 3:
                continue
            small = shrink(case, text.split(":")[0][:30])
            w = run_case(small)
            f2 = judge(small, w) or fs
            ctx.violation(f2[0][0], {"kind": "schedule", "case": describe(small) | {"prompt": small.get("prompt", False)},
                                     "executed": [list(x) for x in w.resolved], "failures": [t for t, _ in f2],
                                     "outcome": list(w.outcome), "state_at_dispatch": w.stop_init}, key=f2[0][1])
            shown += 1


def shrink(case, cls):
    def still(cand):
        try:
            c = dict(case)
            c["script"] = cand
            w = run_case(c)
            return any(t.split(":")[0][:30] == cls for t, _ in judge(c, w))
        except Exception:
            return False
    c = dict(case)
    c["script"] = vlib.shrink_list(case["script"], still, max_steps=150)
    return c


def run(ctx):
    ok = ctx.build()
    bad = run_sim(ctx)
    run_real(ctx)
    ctx.cov["rule"] = ("shutdown schedules for the real Arbiter.run() on the simulated kernel: a pool is built (boot, optional USR2 / deaths / "
                       "TTIN / TTOU / HUP), TERM / INT / QUIT is queued, then deaths with any status, SIGCHLD and time are interleaved with "
                       "the master's steps until it exits (tail: nobody exits, or every told worker exits during the naps); configurations "
                       "vary workers, graceful_timeout, unix / TCP binds, pid file, child-master mode, systemd, reuse_port; non-trivial = a stop "
                       "signal was dispatched with at least one child; distinct by (configuration, schedule, tail)")


def replay(rep):
    if rep.get("kind") == "real":
        scn = rep["scenario"]
        obs = real_case(scn)
        print("observed:", {k: v for k, v in obs.items() if k != "scn"})
        fs = judge_real(scn, obs)
        print("property failures:", fs)
        return 1 if fs else 0
    case = dict(rep["case"])
    case["script"] = [tuple(x) for x in case.pop("schedule")]
    w = run_case(case)
    print("outcome:", w.outcome)
    print("executed schedule:", w.resolved)
    fs = judge(case, w)
    print("oracle failures:", fs)
    return 1 if fs else 0


# =====================================================================================================================
# REAL processes: one connection in a chosen phase when the signal reaches the master
# =====================================================================================================================
import signal as _signal
import threading
import time

import lib_arb2_real as R

CLS_COQ = {"sync": "Sync", "gthread": "GThread", "gevent": "GEvent", "eventlet": "Eventlet"}
PHASE_COQ = {"idle": "CIdle", "head": "CHead", "app": "CApp", "resp": "CResp", "keep": "CKeep"}
T = 256
PRE = 0.4          # seconds between the request and the signal (phase app)
LATE = 1.5         # seconds after the signal at which the client sends what it still owes
KEEPALIVE = 8


def scenario(cls, phase, app, sig, graceful=4, bind="unix", saturated=False, timeout=None, two_binds=False, group=False):
    """app: 'finish' (needs 1.2 s), 'overrun' (graceful + 3 s), 'never' (60 s); saturated: worker_connections = 1 and one more
    client waiting for a slot when the signal arrives (gevent / eventlet: the acceptor is inside pool.spawn, not in accept);
    timeout: the worker `timeout` setting when it is to be SHORTER than the request and than graceful_timeout (a worker class
    whose requests do not block the heartbeat - gthread, gevent, eventlet - serves such a request in normal operation, and the
    property promises its answer during a graceful shutdown as well: the application then needs timeout + 1.4 s)"""
    d = {"finish": 2.6, "overrun": graceful + 3.0, "never": 60.0}[app]
    if timeout is not None and app == "finish":
        d = timeout + 1.4
    scn = {"cls": cls, "phase": phase, "app": app, "d": d, "sig": sig, "graceful": graceful, "bind": bind}
    if saturated:
        scn["saturated"] = True
    if timeout is not None:
        scn["timeout"] = timeout
    if two_binds:
        scn["two_binds"] = True          # a second listener on which nothing ever arrives (the connection is on the FIRST one)
    if group:
        # the signal goes to the master's whole process group (systemd's KillMode=control-group, a terminal's Ctrl-C): every
        # worker receives it directly AND once more from the master - being told twice changes nothing
        scn["group"] = True
    return scn


def real_case(scn):
    """-> observation dict"""
    srv = R.Server(worker_class=scn["cls"], workers=1, graceful=scn["graceful"], bind=scn["bind"], keepalive=KEEPALIVE,
                   timeout=scn.get("timeout", 30), second_bind=bool(scn.get("two_binds")), extra=({"worker_connections": 1} if scn.get("saturated") else None))
    obs = {"scn": scn}
    extra_client = None
    try:
        srv.start()
        worker0 = srv.children()
        c = R.Client(srv, timeout=scn["graceful"] * 2 + 20).connect()
        ph = scn["phase"]
        d = scn["d"]
        later = None
        if ph == "idle":
            time.sleep(0.3)
            later = R.Client.request(d=0)
        elif ph == "head":
            req = R.Client.request(d=0)
            c.send(req[:-2])
            time.sleep(0.3)
            later = req[-2:]
        elif ph == "app":
            t_send = time.time()
            c.send(R.Client.request(d=d))
            # the phase is "the application is running": wait until it says so (on a loaded machine the request may not have been
            # read yet after a fixed nap - that would be the phase "accepted, not started")
            if not srv.wait_started(1, 10):
                obs["harness_error"] = "the application was not entered within 10 s of the request"
            time.sleep(max(0.0, PRE - (time.time() - t_send)))
        elif ph == "resp":
            c.send(R.Client.request(w=d))
            c.read_until(lambda b: b"marker=" in b, time.time() + 10)
        elif ph == "keep":
            c.send(R.Client.request(d=0, keepalive=True))
            r1 = c.read_response(10)
            obs["first"] = {"status": r1["status"], "complete": r1["complete"]}
            c.buf = b""
            later = R.Client.request(d=0)
        if scn.get("saturated"):
            # the worker's only slot is taken by c: one more client connects and sends a request that has to wait for a slot
            extra_client = R.Client(srv, timeout=5).connect()
            extra_client.send(R.Client.request(d=0))
            time.sleep(0.3)
        box = {}

        def waiter():
            box["rc"], box["dt"] = srv.wait_master_exit(wait=scn["graceful"] * 2 + 15)
        tw = threading.Thread(target=waiter)
        if scn.get("group"):
            os.killpg(os.getpgid(srv.master), getattr(_signal, "SIG" + scn["sig"]))
        else:
            srv.signal(getattr(_signal, "SIG" + scn["sig"]))
        tw.start()
        if later is not None:
            time.sleep(LATE)
            c.send(later)

        def reader():
            box["resp"] = c.read_all(scn["graceful"] * 2 + 15)
        th = threading.Thread(target=reader)
        th.start()
        tw.join()
        obs["exit_status"] = box["rc"]
        obs["exit_after"] = round(box["dt"], 2)
        # the processes that are left (SIGKILLed workers need a moment to disappear)
        t0 = time.time()
        fam = srv.family()
        while fam and time.time() - t0 < 2.0:
            time.sleep(0.05)
            fam = srv.family()
        obs["left_after"] = round(time.time() - t0, 2)
        obs["left"] = fam
        obs["pidfile"] = os.path.exists(srv.pidfile)
        obs["sockfile"] = os.path.exists(srv.sock_path) if scn["bind"] == "unix" else False
        th.join(timeout=scn["graceful"] * 2 + 20)
        r = box.get("resp") or {"status": None, "complete": False}
        obs["response"] = {"status": r["status"], "complete": bool(r["complete"]), "bytes": r.get("raw_len", 0),
                           "served_by_first_worker": r.get("pid") in worker0 if r.get("pid") else None}
        obs["client_error"] = c.err
        obs["done"] = r["status"] == 200 and bool(r["complete"])
        c.close()
        if extra_client is not None:
            extra_client.close()
    except Exception as e:                       # a harness-level problem, reported as such
        obs["harness_error"] = "%s: %s" % (type(e).__name__, e)
        obs["log"] = srv.read_log()[-1500:]
    finally:
        srv.cleanup()
    return obs


def model_events(scn):
    """canonical schedule of the worker model for a scenario (times in ticks)"""
    G = scn["graceful"] * T
    ev = []
    # TERM -> graceful stop, INT / QUIT -> quick stop; either way the master then waits up to graceful_timeout for its workers
    # and kills what is left, so time passes in the worker after the signal (a gthread worker that was told to quit still
    # finishes the requests its pool threads are running: the interpreter joins them)
    ev.append("WTerm" if scn["sig"] == "TERM" else "WQuit")
    t = 0
    owes = scn["phase"] in ("idle", "head", "keep")
    sent = False
    while t < G:
        step = 128
        ev.append("WTick %d" % step)
        t += step
        if t % 256 == 0:
            ev.append("WLoop")
        if owes and not sent and t >= int(LATE * T):
            ev.append("WClient")
            sent = True
    ev += ["WKill", "WLoop"]
    return ev


def model_need(scn):
    ph = scn["phase"]
    if ph == "app":
        return int((scn["d"] - PRE) * T)
    if ph == "resp":
        return int(scn["d"] * T)
    return 8


def model_real_expr(scn):
    return "wobs (wrun %d (w_init %s %s %d %d 0) [%s])" % (
        scn["graceful"] * T, CLS_COQ[scn["cls"]], PHASE_COQ[scn["phase"]], model_need(scn), KEEPALIVE * T, "; ".join(model_events(scn)))


def promised(scn):
    """does the property promise a complete response?  (a request the worker has started, the application fits)"""
    if scn["sig"] != "TERM" or scn["app"] != "finish":
        return False
    if scn["phase"] in ("head", "app", "resp"):
        return True
    return scn["phase"] == "idle" and scn["cls"] == "sync"     # accepted = inside handle(), reading


def judge_real(scn, obs):
    fails = []
    if "harness_error" in obs:
        return [("real-process run could not be carried out: %s" % obs["harness_error"], "harness")]
    G = scn["graceful"]
    graceful = scn["sig"] == "TERM"
    if obs["exit_status"] != 0:
        fails.append(("master exit status %r after SIG%s" % (obs["exit_status"], scn["sig"]), None))
    slack = 2.5
    prompt = 2.5
    if obs["exit_after"] > G + slack:
        fails.append(("master exited %.2f s after SIG%s; graceful_timeout is %d s" % (obs["exit_after"], scn["sig"], G), None))
    elif not graceful and obs["exit_after"] > prompt:
        # gthread: sys.exit(0) in handle_quit waits for the pool threads, the master waits graceful_timeout and kills
        busy = scn["cls"] == "gthread" and scn["phase"] in ("app", "resp")
        fails.append(("quick shutdown (SIG%s) took %.2f s with a %s worker whose application was busy: it waited for the request"
                      % (scn["sig"], obs["exit_after"], scn["cls"]), KEY_GTQ if busy else None))
    if obs["left"]:
        fails.append(("processes %r survive the master" % (obs["left"],), None))
    if obs["pidfile"]:
        fails.append(("pid file still exists", None))
    if obs["sockfile"]:
        fails.append(("unix socket file still exists", None))
    if promised(scn) and not obs["done"]:
        fails.append(("the request was started before SIGTERM and needs less than graceful_timeout, but the response is %r (client error %r)"
                      % (obs["response"], obs["client_error"]), None))
    return fails


QUICK_REAL = [
    ("sync", "app", "finish", "TERM"), ("gthread", "app", "finish", "TERM"), ("gevent", "resp", "finish", "TERM"),
    ("eventlet", "head", "finish", "TERM"), ("sync", "app", "overrun", "TERM"), ("gthread", "keep", "finish", "TERM"),
    ("sync", "resp", "finish", "QUIT"), ("gthread", "app", "never", "INT"),
]


def real_scenarios(ctx):
    if ctx.quick():
        scns = [scenario(c, p, a, s, graceful=4, bind=("unix" if i % 4 else "tcp")) for i, (c, p, a, s) in enumerate(QUICK_REAL)]
        scns.append(scenario("eventlet", "app", "finish", "TERM", graceful=4, bind="unix", saturated=True))
        scns.append(scenario("gevent", "app", "finish", "TERM", graceful=4, bind="tcp", saturated=True))
        scns.append(scenario("gevent", "app", "finish", "TERM", graceful=4, bind="tcp", two_binds=True))
        scns.append(scenario("eventlet", "resp", "finish", "TERM", graceful=4, bind="unix", two_binds=True))
        scns.append(scenario("gthread", "app", "finish", "TERM", graceful=6, bind="unix", timeout=2))
        scns.append(scenario("eventlet", "app", "finish", "TERM", graceful=6, bind="tcp", timeout=2))
        scns.append(scenario("sync", "app", "finish", "TERM", graceful=4, bind="unix", group=True))
        scns.append(scenario("gevent", "resp", "finish", "TERM", graceful=4, bind="tcp", group=True))
        # two more, chosen by the seed
        for _ in range(2):
            scns.append(scenario(ctx.rng.choice(list(CLS_COQ)), ctx.rng.choice(list(PHASE_COQ)), ctx.rng.choice(["finish", "finish", "overrun"]),
                                 ctx.rng.choice(["TERM", "TERM", "QUIT"]), graceful=4, bind=ctx.rng.choice(["unix", "tcp"])))
        return scns
    scns = []
    for c in CLS_COQ:
        for p in PHASE_COQ:
            for a in ("finish", "overrun", "never"):
                if a != "finish" and p in ("idle", "head", "keep"):
                    continue                       # the application time only matters once the application runs
                for s in ("TERM", "INT", "QUIT"):
                    if s == "INT" and a == "overrun":
                        continue
                    scns.append(scenario(c, p, a, s, graceful=4, bind=("tcp" if (len(scns) % 3 == 0) else "unix")))
    # (not gthread: with worker_connections = 1 the thread worker is wedged by the first connection it accepts and that stays
    # silent - the start-up probe of the harness is enough - which is C13's known finding gthread-capacity-stall, not a shutdown
    # matter; the request of the scenario would never be read)
    for c in ("gevent", "eventlet"):
        for s in ("TERM", "QUIT"):
            scns.append(scenario(c, "app", "finish", s, graceful=4, bind="unix", saturated=True))
    for c in ("gevent", "eventlet", "gthread"):
        for p in ("app", "resp"):
            scns.append(scenario(c, p, "finish", "TERM", graceful=6, bind="unix", timeout=2))
            scns.append(scenario(c, p, "finish", "TERM", graceful=4, bind="unix", group=True))
    for p in ("app", "resp"):
        scns.append(scenario("sync", p, "finish", "TERM", graceful=4, bind="unix", group=True))
    for c in CLS_COQ:
        for p in ("head", "app", "resp"):
            scns.append(scenario(c, p, "finish", "TERM", graceful=4, bind=("tcp" if p == "app" else "unix"), two_binds=True))
    return scns


def run_real(ctx):
    scns = real_scenarios(ctx)
    results = [None] * len(scns)
    par = 8

    def work(i):
        results[i] = real_case(scns[i])
    idx = list(range(len(scns)))
    for k in range(0, len(idx), par):
        ths = [threading.Thread(target=work, args=(i,)) for i in idx[k:k + par]]
        for t in ths:
            t.start()
        for t in ths:
            t.join()
    # a run that could not be carried out is repeated once, alone
    for i, o in enumerate(results):
        if o is None or "harness_error" in o:
            results[i] = real_case(scns[i])
    corr = []
    nfail = 0
    for scn, obs in zip(scns, results):
        ctx.count_case(("real", tuple(sorted(scn.items()))), nontrivial=True)
        ctx.hist("real", "%s/%s/%s/%s" % (scn["cls"], scn["phase"], scn["app"], scn["sig"]))
        fs = judge_real(scn, obs)
        for text, key in fs:
            nfail += 1
            if key == "harness":
                ctx.broken.append(text)
            else:
                ctx.violation(text, {"kind": "real", "scenario": scn, "observed": obs}, key=key)
        if "harness_error" not in obs:
            corr.append((model_real_expr(scn), [5 if obs["done"] else 6], {"scenario": scn, "observed": obs}))
    ctx.extra["real_runs"] = [{"scenario": "%s/%s/%s/%s/%s" % (s["cls"], s["phase"], s["app"], s["sig"], s["bind"]),
                               "done": o.get("done"), "exit_status": o.get("exit_status"), "exit_after": o.get("exit_after"),
                               "left": o.get("left"), "err": o.get("harness_error")} for s, o in zip(scns, results)]
    ctx.log("ran %d real master+worker shutdowns; %d property failures" % (len(scns), nfail))
    # the worker model's verdict for the same scenario (first component of wobs: 5 = CDone, 6 = CLost)
    try:
        model = ctx.coq_eval("realw", A.HEADER_STOP, [c[0] for c in corr], shard=40)
    except vlib.BrokenTie as e:
        ctx.broken.append("worker model evaluation: %s" % str(e)[:800])
        return
    diff = []
    ctx.extra["real_model_diff"] = []
    for m, c in zip(model, corr):
        if (m[0] == 5) != (c[1][0] == 5):
            diff.append((m, c[2]))
            ctx.extra["real_model_diff"].append((c[2]["scenario"], m, c[2]["observed"]["done"], c[2]["observed"]["exit_after"]))
        else:
            ctx.cov["traces_validated_against_impl"] += 1
    if diff:
        m, c = diff[0]
        ctx.broken.append("worker model vs real processes: %d of %d scenarios differ; first: %r (model conn/mode/alive %r, real done=%r)"
                          % (len(diff), len(corr), c["scenario"], m, c["observed"]["done"]))
