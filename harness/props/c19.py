"""C19 - every handled request is logged once, truthfully, on a single line.

The real workers (sync / gthread / async wrapper) serve generated requests with the real
gunicorn.glogging.Logger (access log on, a handler capturing the formatted lines):
  * worker side: every producer path (write(), iterable, chunked / Content-Length / close-delimited, HEAD, 204/304,
    file wrapper through sendfile and through reads, short and long declared lengths), keep-alive pipelines,
    rejected requests, application errors, socket faults.  Oracle: one record per completed application call,
    its status is the status line on the wire, its byte count is the length of the body decoded from the wire;
    at most one record for a request the server rejects; one line per record.  The traces are also compared with
    Model/Handle.v (records included).
  * record side: every byte 0-255 (raw and percent-encoded) through the request path, the query, each logged
    header and the basic-auth user name (plus UTF-8 encoded line separators), every documented atom, random
    format strings.  Oracle: no CR/LF (no C0 control but HTAB, no DEL) in any record.  Every record is compared
    with Model/AccessLog.v `access_line` (Logger.atoms + _get_user + SafeAtoms + interpolation), evaluated by the
    Coq kernel on the real resp / req / environ of the call.
"""
import base64
import binascii
import os

import vlib
import lib_handle as L
from props import c05 as base

KINDS = ("sync", "gthread", "async")

ALL_ATOMS_FMT = ('%(h)s %(l)s %(u)s %(t)s "%(r)s" %(m)s %(U)s %(q)s %(H)s %(s)s %(B)s %(b)s "%(f)s" "%(a)s" '
                 '%(T)s %(M)s %(D)s %(L)s %(p)s %({host}i)s %({X-Swept}i)s %({x-a}o)s %({raw_uri}e)s %({http_cookie}e)s '
                 '%({wsgi.url_scheme}e)s %({nope}i)s %(zz)s 100%%')
DEFAULT_FMT = '%(h)s %(l)s %(u)s %(t)s "%(r)s" %(s)s %(b)s "%(f)s" "%(a)s"'
SB_FMT = '%(s)s %(B)s %(b)s %(m)s "%(r)s" %(u)s "%(f)s"'


# ----------------------------------------------------------------------------------------------------
# worker side: truthful, once
# ----------------------------------------------------------------------------------------------------
class Runner(base.Runner):
    """the C05 runner with an access_log_format whose first three words are status, B and b"""

    def world(self, kind, variant):
        key = (kind, variant)
        if key not in self.worlds:
            kw = dict(base.VARIANTS[variant])
            kw["access_fmt"] = SB_FMT
            w = L.World(kind, **kw)
            w.__enter__()
            self.worlds[key] = w
        return self.worlds[key]



def dechunk(buf):
    """strict chunked decoding of a complete body: -> (payload length, leftover) or None"""
    pos, n = 0, 0
    while True:
        m = L._CHUNK_RE.match(buf, pos)
        if not m:
            return None
        size = int(m.group(1), 16)
        pos = m.end()
        if size == 0:
            if buf[pos:pos + 2] != b"\r\n":
                return None
            return n, buf[pos + 2:]
        if buf[pos + size:pos + size + 2] != b"\r\n":
            return None
        n += size
        pos += size + 2


def decode_response_bytes(seg, head_req):
    """strictly decode the bytes sent for one request: -> (status, number of body bytes, leftover) or None.
    The body is whatever follows the head: de-chunked when the head announces chunked, counted as is otherwise
    (Content-Length, close-delimited, or bytes written although the status / method allows no body)."""
    m = seg.find(b"\r\n\r\n")
    if m < 0:
        return None
    r = L.read_response(seg[:m + 4], 0, True)
    if not r["ok"] or r["status"] is None:
        return None
    rest = seg[m + 4:]
    if [v for k, v in r["fields"] if k == b"transfer-encoding"] == [b"chunked"]:
        d = dechunk(rest)
        if d is None:
            return None
        return r["status"], d[0], d[1]
    return r["status"], len(rest), b""


def windows(trace):
    """split a connection trace into per-request windows (from a parser event to the next one)"""
    out, cur = [], None
    for e in trace:
        if e[0] in ("head", "praise", "pnone"):
            cur = {"parse": e, "events": []}
            out.append(cur)
        elif cur is not None:
            cur["events"].append(e)
    return out


def sane(eff):
    """the application called start_response exactly once, before producing output, and raised nothing"""
    acts = [x for x in eff["acts"] if x[0] != "return"]
    if not acts or acts[0][0] != "start":
        return False
    return not any(x[0] in ("start", "raise") for x in acts[1:])


def judge_worker_rec(spec, rec, well_behaved=True):
    fails = []
    wins = windows(rec["trace"])
    k = 0
    for w in wins:
        if any(e[0] == "app" for e in w["events"]):
            w["eff"] = rec["eff_apps"][k] if k < len(rec["eff_apps"]) else None
            k += 1
    for win in wins:
        evs = win["events"]
        recs = [e for e in evs if e[0] == "access"]
        for a in recs:
            lines = a[3]
            if len(lines) != 1:
                fails.append(("lines-per-record", "one access() call produced %d lines" % len(lines)))
            for ln in lines:
                if "\n" in ln or "\r" in ln:
                    fails.append(("record-spans-lines", "record %r" % ln))
        if win["parse"][0] != "head":
            if len(recs) > 1:
                fails.append(("rejected-two-records", "%d records for a request the server rejected" % len(recs)))
            continue
        napp = sum(1 for e in evs if e[0] == "app")
        if napp == 0:
            if len(recs) > 1:
                fails.append(("rejected-two-records", "%d records for a request refused before the application" % len(recs)))
            continue
        if len(recs) > 2:
            fails.append(("too-many-records", "%d records for one request" % len(recs)))
        faulted = any(e[0] in ("sendall", "sendfile", "send100", "shutdown") and e[2] for e in evs)
        eff = win.get("eff")
        # the application call returned its iterable and the iterable is well-behaved: the application's part is complete; if the
        # client has gone away and a write fails, the request still has ONE record (the workers log in a `finally`)
        returned = sum(1 for e in evs if e[0] == "appret")
        if returned == 1 and napp == 1 and len(recs) != 1 and faulted and eff is not None and sane(eff):
            fails.append(("record-count", "%d records for a request whose application did everything right (its call returned, its "
                          "iterable is well-behaved) and whose client went away: a socket write failed" % len(recs)))
            continue
        if faulted or eff is None or not sane(eff):
            continue
        # the application call completed
        if len(recs) != 1:
            fails.append(("record-count", "%d records for a completed application call" % len(recs)))
            continue
        sent = b"".join(e[1] for e in evs if e[0] in ("sendall", "sendfile") and e[2] == 0)
        dec = decode_response_bytes(sent, win["parse"][1]["head"])
        if dec is None:
            fails.append(("undecodable-response", "response of a completed call does not decode: %r" % sent[:100]))
            continue
        status, blen, extra = dec
        a = recs[0]
        if L.status_code_of(a[1]) != status:
            fails.append(("record-status", "resp.status at log time is %r, the wire says %d" % (a[1], status)))
        if a[2] != blen:
            fails.append(("record-bytes", "record says %r body bytes, %d went out (%r ...)" % (a[2], blen, sent[:80])))
        # the rendered line itself (format: status B b ...)
        if len(a[3]) == 1:
            words = a[3][0].split(" ")
            if words[0] != str(status):
                fails.append(("record-status", "the record %r says status %s, the wire says %d" % (a[3][0][:80], words[0], status)))
            if len(words) < 3 or words[1] != str(blen) or words[2] != str(blen):
                fails.append(("record-bytes", "the record %r does not say %d body bytes" % (a[3][0][:80], blen)))
    # no fabricated records: a request line cannot be logged more often than it occurs in what the client sent
    # (a record made from the object of an EARLIER request of the connection is a record of a request that was never made)
    stream = b"".join(x for x in spec.get("segs", []) if isinstance(x, bytes))
    counts = {}
    for win in wins:
        if win["parse"][0] == "head" and any(e[0] == "app" for e in win["events"]):
            eff = win.get("eff")
            faulted = any(e[0] in ("sendall", "sendfile", "send100", "shutdown") and e[2] for e in win["events"])
            if faulted or eff is None or not sane(eff):
                continue        # an application call that did not complete: the property does not say how often it is logged
        for a in (e for e in win["events"] if e[0] == "access"):
            for ln in a[3]:
                r = record_request_line(ln)
                if r is not None:
                    counts[r] = counts.get(r, 0) + 1
    for r, n in counts.items():
        have = stream.count(r.encode("latin-1") + b"\r\n")
        if have and n > have:            # (request objects scripted into the parser's exceptions never were in the stream)
            fails.append(("fabricated-record", "%d record(s) say %r, which the client sent %d time(s)" % (n, r, have)))
    return fails


def record_request_line(line):
    """the %(r)s field of a record in SB_FMT (status B b m "r" u "f"); None when it is absent or was escaped"""
    i = line.find(' "')
    if i < 0:
        return None
    j = line.find('" ', i + 2)
    if j < 0:
        return None
    r = line[i + 2:j]
    if "\\" in r or len(r.split(" ")) != 3:
        return None
    return r


def producer_specs(rng, n):
    """requests x application scripts covering every way a body is produced"""
    specs = []
    reqs = [base.REQS["get11"], base.REQS["get10"], base.REQS["get10ka"], base.REQS["head"], base.REQS["close"],
            base.REQS["postcl"], base.REQS["auth"]]
    bodies = [b"", b"a", b"hello", b"x" * 300, bytes(range(256))]
    k = 0
    for kind in KINDS:
        for variant in ("default", "nosendfile", "noka"):
            for req in reqs:
                for body in bodies:
                    total = len(body)
                    halves = [body[:total // 2], body[total // 2:]]
                    scripts = [
                        [("start", 200, total), ("return",), ("write", body)],
                        [("start", 200, None), ("return",)] + [("write", h) for h in halves] + [("write", b"")],
                        [("start", 200, total), ("write", body), ("return",)],
                        [("start", 200, None), ("write", halves[0]), ("return",), ("write", halves[1])],
                        [("return",), ("start", 201, None), ("write", body)],
                        [("start", 204, None), ("return",)],
                        [("start", 304, None), ("return",), ("write", b"")],
                        [("start", 404, total + 3), ("return",), ("write", body)],
                        [("start", 200, max(0, total - 2)), ("return",), ("write", body)],
                    ]
                    files = [
                        ([("start", 200, None), ("return",)], (b"PRE" + body, 3, 8192, True)),
                        ([("start", 200, total), ("return",)], (body, 0, 7, True)),
                        ([("start", 200, None), ("return",)], (body, 0, 5, False)),
                        ([("start", 200, total), ("write", body[:1]), ("return",)], (body, 1 if body else 0, 8192, True)),
                    ]
                    k += 1
                    pick = scripts[k % len(scripts)], scripts[(k * 7 + 3) % len(scripts)]
                    for acts in pick:
                        specs.append({"kind": kind, "variant": variant, "segs": [req + req], "apps": [{"acts": acts, "file": None}] * 2,
                                      "rule": "producer-" + ("write" if acts[-1][0] == "return" else "iter"), "well": True})
                    acts, fl = files[k % len(files)]
                    specs.append({"kind": kind, "variant": variant, "segs": [req], "apps": [{"acts": acts, "file": fl}],
                                  "rule": "producer-file-" + ("sendfile" if fl[3] and variant != "nosendfile" else "read"), "well": True})
    rng.shuffle(specs)
    return specs[:n]


# ----------------------------------------------------------------------------------------------------
# record side: one line, and Model/AccessLog.v
# ----------------------------------------------------------------------------------------------------
HEADER_LOG = """From Coq Require Import List NArith ZArith Bool.
From GV Require Import Base.Enc Base.Dec Gen.GenAccessLog Model.AccessLog.
Import ListNotations.
Open Scope Z_scope.
Definition tbl (t : list (str * option str)) (k : str) : option str := match assoc k t with Some v => v | None => None end.
"""


def cps(s):
    return "[" + ";".join(str(ord(c)) for c in s) + "]%N"


def coq_aval(v):
    if isinstance(v, bool):
        return "(VOpaque %s)" % cps(str(v))
    if isinstance(v, str):
        return "(VStr %s)" % cps(v)
    if isinstance(v, int):
        return "(VInt %s)" % vlib.coq_Z(v)
    if v is None:
        return "VNone"
    return "(VOpaque %s)" % cps(str(v))


class B64Spy:
    """stands in for the base64 module inside gunicorn.glogging: records what b64decode is asked and answers"""

    def __init__(self):
        self.calls = []

    def __getattr__(self, name):
        return getattr(base64, name)

    def b64decode(self, s, *a, **k):
        try:
            r = base64.b64decode(s, *a, **k)
        except BaseException as e:
            self.calls.append((s, None))
            raise
        self.calls.append((s, r))
        return r


def line_case(world, fmt, access_args, real_lines, b64calls):
    """Coq expression of the model's record for one real access() call, and the real observation"""
    resp, req, environ = access_args
    # server-side objects (wsgi.input, wsgi.errors, the socket, the file wrapper class) are left out: no format
    # used here names them, and dictionary keys are unique, so they cannot shadow anything
    env_items = [(k, v) for k, v in environ.items() if isinstance(v, (str, int, tuple)) or v is None]
    b64t, utf8t = [], []
    for s, r in b64calls:
        key = s.decode("utf-8") if isinstance(s, bytes) else s
        if r is None:
            b64t.append("(%s, None)" % cps(key))
        else:
            b64t.append("(%s, Some %s)" % (cps(key), cps(r.decode("latin-1"))))
            userb = r.split(b":", 1)[0]
            try:
                u = userb.decode("UTF-8")
                utf8t.append("(%s, Some %s)" % (cps(userb.decode("latin-1")), cps(u)))
            except UnicodeDecodeError:
                utf8t.append("(%s, None)" % cps(userb.decode("latin-1")))
    env = "[" + "; ".join("(%s, %s)" % (cps(k), coq_aval(v)) for k, v in env_items) + "]"
    rh = req.headers if hasattr(req, "headers") else req
    if hasattr(rh, "items"):
        rh = list(rh.items())
    reqh = "[" + "; ".join("(%s, %s)" % (cps(k), cps(v)) for k, v in rh) + "]"
    oh = resp.headers
    if hasattr(oh, "items"):
        oh = list(oh.items())
    resph = "[" + "; ".join("(%s, %s)" % (cps(k), cps(v)) for k, v in oh) + "]"
    sent = getattr(resp, "sent", None)
    a = ("{| i_status := %s; i_sent := %s; i_environ := %s; i_req_headers := %s; i_resp_headers := %s; i_now := %s; "
         "i_secs := 1%%N; i_micros := 234567%%N; i_pid := %d%%N; i_user := get_user (tbl [%s]) (tbl [%s]) (rev %s) |}"
         % (coq_aval(resp.status), "None" if sent is None else "(Some %d%%N)" % sent, env, reqh, resph, cps(L.FIXED_NOW),
            os.getpid(), "; ".join(b64t), "; ".join(utf8t), env))
    expr = "obs_line (access_line %s %s)" % (cps(fmt), a)
    if len(real_lines) == 1:
        obs = [1, len(real_lines[0])] + [ord(c) for c in real_lines[0]]
    elif len(real_lines) == 0:
        obs = [0]
    else:
        obs = [2, len(real_lines)]
    return expr, obs


class LogWorld:
    """a worker whose logger has a fixed clock and a given access_log_format; records every access() call"""

    def __init__(self, kind, fmt, loglevel="info"):
        import gunicorn.glogging
        # loglevel is documented as "the granularity of Error log outputs": the access log must not depend on it
        # ... nor on where the ERROR log goes: `loglevel` may carry a destination variant, "<level>|<variant>"
        level, _, variant = loglevel.partition("|")
        extra = {"loglevel": level}
        extra.update(LOGDEST[variant])
        self.W = L.World(kind, access_fmt=fmt, fixed_time=True, extra=extra)
        self.W.__enter__()
        self.fmt = self.W.cfg.access_log_format          # the setting's validator strips the string
        self.spy = B64Spy()
        self.glog = gunicorn.glogging
        self.saved_b64 = gunicorn.glogging.base64
        self.calls = []
        self.access_errors = []
        world = self.W
        logger = world.log
        orig_access = logger.access
        me = self

        def access(resp, req, environ, request_time):
            n0 = len(world.lines)
            me.glog.base64 = me.spy
            me.spy.calls = []
            try:
                orig_access(resp, req, environ, request_time)
            except Exception as e:
                # the logger itself failed on this request: no record, and the exception goes on into the worker
                me.access_errors.append("%s: %s" % (type(e).__name__, e))
                raise
            finally:
                me.glog.base64 = me.saved_b64
            me.calls.append(((resp, req, dict(environ)), list(world.lines[n0:]), list(me.spy.calls)))
        logger.access = access

    def close(self):
        self.glog.base64 = self.saved_b64
        self.W.__exit__(None, None, None)

    def serve(self, data, app=None, addr=("10.0.0.1", 4321)):
        W = self.W
        W.begin(apps=[app or {"acts": [("start", 200, 2), ("return",), ("write", b"ok")], "file": None}])
        self.calls = []
        self.access_errors = []
        sock = L.TSock(W.trace, segs=[data] if data else [])
        esc = W.serve(sock, addr)
        sock.dispose()
        return esc, sock


def eventlet_sendfile_records(ctx):
    """The eventlet worker's replacement of socket.sendfile returns the number that Response.sendfile() adds to resp.sent - the
    number the access record reports.  A real async worker wrapper serves file-wrapper responses on a socket whose sendfile is
    gunicorn.workers.geventlet._eventlet_socket_sendfile and whose send() is short (a slow client): the record's byte count
    must be what left the socket after the head.  Oracle only."""
    try:
        from gunicorn.workers import geventlet as ge
    except Exception as e:
        ctx.extra["eventlet_sendfile_records"] = "not checked: %r" % (e,)
        return
    fn = getattr(ge, "_eventlet_socket_sendfile", None)
    if fn is None:
        ctx.extra["eventlet_sendfile_records"] = "gunicorn.workers.geventlet has no _eventlet_socket_sendfile"
        return

    class GreenLikeSock(L.TSock):
        def __init__(self, trace, segs, plan):
            L.TSock.__init__(self, trace, segs=segs)
            self.plan = list(plan)
            self.body_out = 0

        def send(self, data):
            step = self.plan.pop(0) if self.plan else None
            n = len(data) if step is None else max(1, min(len(data), step))
            self.wire += bytes(data[:n])
            self.body_out += n
            return n

        def sendfile(self, file, offset=0, count=None):
            return fn(self, file, offset, count)
    nbad = 0
    content = bytes((i * 7 + i // 251) % 256 for i in range(30000))
    LW = LogWorld("async", "%(s)s %(b)s %(B)s")
    try:
        for fsize in (5, 8192, 20000, 30000):
            for clen in (None, fsize, max(1, fsize - 3)):
                for plan in ([], [7, 100, None, 1, 5000, 3], [4000] * 12, [1, 1, 1, 8191]):
                    W = LW.W
                    acts = [("start", 200, clen), ("return",)]
                    W.begin(apps=[{"acts": acts, "file": (content[:fsize], 0, 8192, True)}])
                    LW.calls = []
                    LW.access_errors = []
                    sock = GreenLikeSock(W.trace, [b"GET /f HTTP/1.1\r\nHost: h\r\nConnection: close\r\n\r\n"], plan)
                    W.serve(sock, ("10.0.0.1", 4321))
                    sock.dispose()
                    ctx.count_case(("eventlet-sent", fsize, clen, len(plan)), True)
                    ctx.hist("eventlet_sendfile_records", "Content-Length" if clen is not None else "chunked")
                    if len(LW.calls) != 1:
                        continue
                    (resp, req, env), lines, _b = LW.calls[0]
                    want = sock.body_out
                    if want and getattr(resp, "sent", None) != want:
                        nbad += 1
                        if nbad <= 2:
                            ctx.violation("eventlet worker's sendfile replacement: a file of %d bytes (Content-Length %r) went out in short sends %r: "
                                          "%d body bytes left the socket, the access record reports %r (record %r)"
                                          % (fsize, clen, plan, want, getattr(resp, "sent", None), lines[:1]),
                                          {"kind": "eventlet-sent", "fsize": fsize, "clen": clen, "plan": plan})
    finally:
        LW.close()
        L.remove_patches()
    ctx.log("eventlet sendfile replacement vs access record: %d failures" % nbad)


def exc_info_records(ctx):
    """"carrying the status the client received": an application that has flushed its headers (an empty first piece) and then
    reports a failure with start_response(status, headers, exc_info).  Whatever the server makes of that call, the record's status
    is the status on the wire.  Oracle only (Model/Handle.v has no exc_info)."""
    nbad = 0
    scripts = [
        ("headers flushed by an empty piece, then the error call", [("start", 200, None), ("return",), ("write", b""), ("start_exc", 500), ("write", b"late")]),
        ("headers flushed by write(b''), then the error call", [("start", 200, None), ("write", b""), ("start_exc", 500), ("return",), ("write", b"late")]),
        ("a body piece sent, then the error call", [("start", 200, None), ("return",), ("write", b"x"), ("start_exc", 500), ("write", b"late")]),
        ("the error call before anything was sent", [("start", 200, None), ("start_exc", 500), ("return",), ("write", b"late")]),
        ("Content-Length, headers flushed, then the error call", [("start", 200, 4), ("return",), ("write", b""), ("start_exc", 503), ("write", b"late")]),
    ]
    for kind in KINDS:
        LW = LogWorld(kind, "%(s)s %(B)s")
        try:
            for name, acts in scripts:
                for req in (b"GET /e HTTP/1.1\r\nHost: h\r\n\r\n", b"GET /e HTTP/1.0\r\n\r\n"):
                    esc, sock = LW.serve(req, app={"acts": list(acts), "file": None})
                    ctx.count_case(("exc-info", kind, name, req[:20]), True)
                    ctx.hist("exc_info_records", name)
                    wire = sock.wire
                    wstatus = wire.split(b"\r\n", 1)[0].split(b" ")[1:2] if wire.startswith(b"HTTP/") else []
                    for (args, lines, _b) in LW.calls:
                        if len(lines) == 1 and wstatus and lines[0].split(" ")[0] != wstatus[0].decode("latin-1"):
                            nbad += 1
                            if nbad <= 2:
                                ctx.violation("record-status [%s worker]: %s: the record says status %s, the client received %s (%r ...)"
                                              % (kind, name, lines[0].split(" ")[0], wstatus[0].decode("latin-1"), wire[:60]),
                                              {"kind": "exc-info", "worker": kind, "name": name})
        finally:
            LW.close()
            L.remove_patches()
    ctx.log("start_response(exc_info) after the headers: %d records whose status is not the one on the wire" % nbad)


def b64(b):
    return base64.b64encode(b).decode("ascii")


def sweep_requests():
    """every byte through every client-controlled field that reaches a record"""
    out = []
    for c in range(256):
        ch = bytes([c])
        pct = b"%%%02X" % c
        out.append(("path-raw", b"GET /a" + ch + b"b?x=1 HTTP/1.1\r\nHost: h\r\n\r\n"))
        out.append(("path-pct", b"GET /a" + pct + b"b HTTP/1.1\r\nHost: h\r\n\r\n"))
        out.append(("query-raw", b"GET /p?a=" + ch + b"z HTTP/1.1\r\nHost: h\r\n\r\n"))
        out.append(("query-pct", b"GET /p?a=" + pct + b" HTTP/1.1\r\nHost: h\r\n\r\n"))
        out.append(("referer", b"GET /p HTTP/1.1\r\nHost: h\r\nReferer: r" + ch + b"r\r\n\r\n"))
        out.append(("user-agent", b"GET /p HTTP/1.1\r\nHost: h\r\nUser-Agent: u" + ch + b"\r\n\r\n"))
        out.append(("x-swept", b"GET /p HTTP/1.1\r\nHost: h\r\nX-Swept: " + ch + b"s\r\nCookie: c" + ch + b"\r\n\r\n"))
        out.append(("host", b"GET /p HTTP/1.1\r\nHost: h" + ch + b"\r\n\r\n"))
        out.append(("auth-user", b"GET /p HTTP/1.1\r\nHost: h\r\nAuthorization: Basic " + b64(b"ev" + ch + b"il:pw").encode() + b"\r\n\r\n"))
        out.append(("auth-raw", b"GET /p HTTP/1.1\r\nHost: h\r\nAuthorization: bAsIc " + ch + b"QQ==" + ch + b"\r\n\r\n"))
        out.append(("method", b"GE" + ch + b"T /p HTTP/1.1\r\nHost: h\r\n\r\n"))
        out.append(("bad-cl", b"POST /p" + pct + b" HTTP/1.1\r\nReferer: r" + ch + b"\r\nContent-Length: x\r\n\r\n"))
    for cp in (0x85, 0x2028, 0x2029, 0x0A, 0x0D, 0x1B, 0x7F, 0x100, 0x1F600):
        u = ("ev" + chr(cp) + "il").encode("utf-8")
        out.append(("auth-unicode", b"GET /p HTTP/1.1\r\nHost: h\r\nAuthorization: Basic " + b64(u + b":pw").encode() + b"\r\n\r\n"))
    for junk in (b"Basic", b"Basic ", b"Basic  " + b64(b"a:b").encode() + b"  ", b"Basic !!!!", b"Basic " + b64(b"\xff\xfe:x").encode(),
                 b"Basic " + b64(b"nocolon").encode(), b"Basic " + b64(b":pw").encode(), b"Digest abc", b"basic\t" + b64(b"t:t").encode()):
        out.append(("auth-shapes", b"GET /p HTTP/1.1\r\nHost: h\r\nAuthorization: " + junk + b"\r\n\r\n"))
    return out


def random_format(rng):
    atoms = list("hlutrmUqHsBbfaTMDLp") + ["{host}i", "{Host}i", "{x-swept}i", "{X-A}o", "{x-a}o", "{raw_uri}e", "{RAW_URI}e",
                                            "{a(b)c}i", "zz", "{}i", "{http_referer}e", "{remote_addr}e", "{wsgi.multithread}e"]
    out = ""
    for _ in range(rng.randrange(1, 9)):
        x = rng.random()
        if x < 0.6:
            out += "%(" + rng.choice(atoms) + ")s"
        elif x < 0.7:
            out += "%%"
        else:
            out += rng.choice([" ", '"', "-", "[", "]", "|", "\t", "x=", "é"])
    return out


def clean_text(s):
    return not any((ord(c) < 32 and c != "\t") or ord(c) == 127 for c in s)


def run(ctx):
    ok = ctx.build()
    L.table_classes()
    quick = ctx.quick()
    rng = ctx.rng
    # ---------------- worker side
    runner = Runner()
    specs = producer_specs(rng, 700 if quick else 100000)
    specs += [base.random_spec(rng, []) for _ in range(1200 if quick else 30000)]
    specs += [s for s in base.class_sweep_specs() if s["kind"] in KINDS][: (400 if quick else 100000)]
    cases = []
    nfail = 0
    try:
        for i, spec in enumerate(specs):
            try:
                rec = base.run_conn(runner, spec)
            except Exception:
                import traceback
                ctx.broken.append("harness could not run a case: " + traceback.format_exc()[-800:])
                runner.drop(spec["kind"], spec.get("variant", "default"))
                continue
            fails = judge_worker_rec(spec, rec, spec.get("well", False))
            nrec = sum(1 for e in rec["trace"] if e[0] == "access")
            ctx.count_case(("w", spec["kind"], spec.get("variant"), repr(spec.get("segs")), repr(spec.get("apps")), repr(spec.get("faults")),
                            repr(spec.get("pscript"))), nrec >= 1)
            ctx.hist("worker_side_rule", spec.get("rule", "?"))
            ctx.hist("records_per_connection", nrec)
            if i % 211 == 0:
                ctx.sample({"side": "worker", "spec": base.printable(spec),
                            "records": [[repr(e[1]), e[2], e[3]] for e in rec["trace"] if e[0] == "access"]})
            cases.append((rec["expr"], rec["obs"], base.enc(spec)))
            if fails:
                nfail += 1
                if len(ctx.violations) < 3:
                    ctx.violation("%s [%s worker]: %s" % (fails[0][0], spec["kind"], fails[0][1]),
                                  {"kind": "worker", "spec": base.enc(spec), "failures": [list(f) for f in fails], "readable": base.printable(spec)})
    finally:
        runner.close()
    ctx.log("worker side: %d connections, oracle failures: %d" % (len(specs), nfail))
    bad = ctx.correspond("conn", L.HEADER, cases, shard=350)
    if bad:
        i, m, im = bad[0]
        ctx.broken.append("correspondence Model/Handle.v vs workers (records): %d of %d differ; first %r model=%r impl=%r"
                          % (len(bad), len(cases), base.printable(base.dec(cases[i][2])), m[:80], im[:80]))
        ctx.log("CORRESPONDENCE (worker side): %d differ, e.g. %r" % (len(bad), base.printable(base.dec(cases[i][2]))))
    # ---------------- record side
    lcases, lfail, nlines = record_side(ctx, quick)
    eventlet_sendfile_records(ctx)
    exc_info_records(ctx)
    import lib_battery
    lib_battery.report(ctx, "records", "battery")
    ctx.log("record side: %d records, oracle failures: %d" % (nlines, lfail))
    bad2 = ctx.correspond("line", HEADER_LOG, lcases, shard=120)
    if bad2:
        i, m, im = bad2[0]
        ctx.broken.append("correspondence Model/AccessLog.v vs Logger: %d of %d records differ; first: case %r model=%r impl=%r"
                          % (len(bad2), len(lcases), lcases[i][2], m[:120], im[:120]))
        ctx.log("CORRESPONDENCE (record side): %d differ, e.g. %r" % (len(bad2), lcases[i][2]))
        ctx.log("   model %r" % (bytes(x for x in m[2:] if 0 <= x < 256)[:200],))
        ctx.log("   impl  %r" % (bytes(x for x in im[2:] if 0 <= x < 256)[:200],))
    ctx.cov["rule"] = ("worker side: one connection per case on shared workers (3 wrappers x default / sendfile off / keepalive off): "
                       "7 request shapes x 5 bodies x 9 write/iterable scripts and 4 file-wrapper scripts, random hostile connections "
                       "with faults, every exception class from parser and application; non-trivial = at least one access record. "
                       "record side: 12 field positions x every byte 0-255 (raw and %XX), UTF-8 user names with NEL/LS/PS/LF/CR, "
                       "basic-auth header shapes, served through the default format, a format with every documented atom and seeded random "
                       "formats on all three workers; non-trivial = a record was produced; distinct by the whole case")
    if (bad or bad2 or not ok or bad is None or bad2 is None) and not ctx.violations:
        search(ctx)


# every one of these configurations has a destination for access records (Logger.access: accesslog, a logconfig, or syslog that
# access records are not kept out of): exactly one record per request in each
LOGDEST = {
    "": {},
    "syslog-errors-only": {"syslog": True, "syslog_addr": "udp://127.0.0.1:9", "disable_redirect_access_to_syslog": True},
    "syslog-too": {"syslog": True, "syslog_addr": "udp://127.0.0.1:9"},
    "syslog-only": {"accesslog": None, "syslog": True, "syslog_addr": "udp://127.0.0.1:9"},
}
LOGLEVELS = ["info", "warning", "debug|syslog-errors-only", "error", "critical|syslog-too", "info|syslog-only", "warning|syslog-errors-only"]


def record_side(ctx, quick):
    rng = ctx.rng
    lcases = []
    nfail = 0
    nlines = 0
    sweeps = sweep_requests()
    fmts = [DEFAULT_FMT, ALL_ATOMS_FMT] + [random_format(rng) for _ in range(4 if quick else 12)]
    app = {"acts": [("start", 200, 2), ("return",), ("write", b"ok")], "file": None}
    plan = []
    for fi, fmt in enumerate(fmts):
        # the error-log level of the configuration: "access logging is on" at every one of them
        lvl = LOGLEVELS[0] if fi == 0 else LOGLEVELS[(fi - 1) % len(LOGLEVELS)]
        for si, (field, data) in enumerate(sweeps):
            if fi < 2:
                # the two fixed formats see every swept request, the worker wrapper rotating
                if quick and fi == 1 and si % 2:
                    continue
                plan.append((KINDS[(si + fi) % 3], fmt, field, data, lvl))
            elif (si + fi) % (7 if quick else 2) == 0:
                plan.append((KINDS[(si + fi) % 3], fmt, field, data, lvl))
    worlds = {}
    cur_lvl = None
    try:
        for kind, fmt, field, data, lvl in plan:
            key = (kind, fmt)
            # (logging.getLogger("gunicorn.access") is one object per process: worlds of different levels are never alive together)
            if key not in worlds or lvl != cur_lvl:
                if len(worlds) > 12 or lvl != cur_lvl:
                    for w in worlds.values():
                        w.close()
                    worlds.clear()
                worlds[key] = LogWorld(kind, fmt, lvl)
                cur_lvl = lvl
            LW = worlds[key]
            ctx.hist("loglevel", lvl)
            esc, sock = LW.serve(data, app={"acts": list(app["acts"]), "file": None})
            ctx.count_case(("l", kind, fmt, data), bool(LW.calls))
            ctx.hist("swept_field", field)
            ctx.hist("record_produced", "yes" if LW.calls else "no (request rejected without request object)")
            # a request whose application call completed has exactly one record - whatever the client put into it
            app_calls = sum(1 for e in LW.W.trace if e[0] == "app")
            if app_calls == 1 and len(LW.calls) != 1:
                nfail += 1
                if len(ctx.violations) < 3:
                    ctx.violation("record-count [%s worker]: field %s: the application call completed (200 sent) but %d record(s) were written%s"
                                  % (kind, field, len(LW.calls), (" - Logger.access raised " + LW.access_errors[0]) if LW.access_errors else ""),
                                  {"kind": "record", "worker": kind, "fmt": fmt, "data": data.decode("latin-1"), "field": field, "loglevel": lvl,
                                   "failures": [["record-count", "%d records" % len(LW.calls)]]})
            for (args, lines, b64calls) in LW.calls:
                nlines += 1
                expr, obs = line_case(LW.W, LW.fmt, args, lines, b64calls)
                lcases.append((expr, obs, {"worker": kind, "fmt": fmt, "field": field, "data": data.decode("latin-1")}))
                bad_line = None
                if len(lines) != 1:
                    bad_line = ("lines-per-record", "one access() call produced %d lines" % len(lines))
                else:
                    ln = lines[0]
                    if "\n" in ln or "\r" in ln:
                        bad_line = ("record-spans-lines", "field %s: record %r" % (field, ln))
                    elif clean_text(LW.fmt) and not clean_text(ln):
                        bad_line = ("control-character-in-record", "field %s: record %r" % (field, ln))
                    else:
                        # the record has to survive the handler's stream: text that no stream encoding accepts (lone
                        # surrogates) makes logging drop the record (Handler.handleError) - no record at all
                        try:
                            ln.encode("utf-8")
                        except UnicodeEncodeError as e:
                            bad_line = ("record-not-writable", "field %s: the record %r cannot be written to a log stream (%s): the "
                                        "logging handler drops it" % (field, ln, e.reason))
                if nlines % 997 == 0 and lines:
                    ctx.sample({"side": "record", "worker": kind, "field": field, "request": data.decode("latin-1")[:80], "record": lines[0][:160]})
                if bad_line:
                    nfail += 1
                    if len(ctx.violations) < 3:
                        ctx.violation("%s [%s worker]: %s" % (bad_line[0], kind, bad_line[1]),
                                      {"kind": "record", "worker": kind, "fmt": fmt, "data": data.decode("latin-1"), "field": field,
                                       "loglevel": lvl, "failures": [list(bad_line)]})
    finally:
        for w in worlds.values():
            w.close()
        L.remove_patches()
    return lcases, nfail, nlines


def search(ctx):
    ctx.log("failing-input search (oracle only) ...")
    rng = ctx.rng
    runner = Runner()
    tried = 0
    try:
        for spec in producer_specs(rng, 4000) + [base.random_spec(rng, []) for _ in range(3000)]:
            tried += 1
            try:
                rec = base.run_conn(runner, spec)
            except Exception:
                runner.drop(spec["kind"], spec.get("variant", "default"))
                continue
            fails = judge_worker_rec(spec, rec, spec.get("well", False))
            if fails:
                ctx.violation("%s [%s worker]: %s" % (fails[0][0], spec["kind"], fails[0][1]),
                              {"kind": "worker", "spec": base.enc(spec), "failures": [list(f) for f in fails], "readable": base.printable(spec)})
                return
    finally:
        runner.close()
        ctx.extra["search_connections"] = tried
    lcases, nfail, nlines = record_side(ctx, True)
    ctx.extra["search_records"] = nlines


def replay(rep):
    if rep.get("kind") == "battery":
        import lib_battery
        return lib_battery.replay(rep)
    if rep.get("kind") in ("eventlet-sent", "exc-info"):
        class C:
            extra = {}
            def __init__(self): self.v = []
            def count_case(self, *a, **k): pass
            def hist(self, *a, **k): pass
            def log(self, *a): print(*a)
            def violation(self, what, rep): self.v.append(what)
        c = C()
        (eventlet_sendfile_records if rep["kind"] == "eventlet-sent" else exc_info_records)(c)
        print("failures:", c.v)
        return 1 if c.v else 0
    if rep.get("kind") == "record":
        LW = LogWorld(rep["worker"], rep["fmt"], rep.get("loglevel", "info"))
        try:
            esc, sock = LW.serve(rep["data"].encode("latin-1"))
            bad = 0
            for (args, lines, b64calls) in LW.calls:
                print(lines)
                if len(lines) != 1 or any(("\n" in l or "\r" in l or (clean_text(rep["fmt"]) and not clean_text(l))) for l in lines):
                    bad = 1
            return bad
        finally:
            LW.close()
            L.remove_patches()
    spec = base.dec(rep["spec"])
    runner = Runner()
    try:
        rec = base.run_conn(runner, spec)
        fails = judge_worker_rec(spec, rec, spec.get("well", False))
        for e in rec["trace"]:
            print(e if len(repr(e)) < 300 else repr(e)[:300] + "...")
        print("failures:", fails)
        return 1 if fails else 0
    finally:
        runner.close()
