"""C07 - wsgi.input yields exactly the request body, and never the next request.
Real req.body of requests produced by RequestParser against io.BytesIO(body) call by call, then the
next pipelined request; the same cases through Model/Parser.v, and the file reference Spec/IdealBody.v
(file_run) against io.BytesIO."""
import io

import vlib
import lib_parser as lp

NEXT_REQ = b"GET /next-request HTTP/1.1\r\nHost: n\r\n\r\n"


def layout_cl(rng, body):
    return b"Content-Length: %d\r\n" % len(body), body


def layout_chunked(rng, body):
    return b"Transfer-Encoding: chunked\r\n", lp.gen_chunked_body(rng, body)


def gen_body(rng, big=False):
    k = rng.random()
    if big or k > 0.985:
        if rng.random() < 0.5:
            # lines longer than every block size of the code (8192 in the iteration step, 1024 in readline's refills)
            parts = [b"x" * rng.choice([1, 100, 1023, 8191, 8192, 8193, 12000, 20414]) for _ in range(rng.randint(1, 3))]
            return b"\n".join(parts) + (b"\n" if rng.random() < 0.5 else b"")
        n = rng.choice([8191, 8192, 8193, 9300, 16385, 20000, 40000])
        return bytes(rng.choice(b"ab\n") for _ in range(n))
    if k < 0.1:
        return b""
    n = rng.choice([1, 2, 3, 7, 100, 1023, 1024, 1025, 2047, 2048, 2049, 3000, 5000]) if k < 0.8 else rng.randint(0, 2500)
    style = rng.choice(["nl", "plain", "nlblock", "bin"])
    if style == "plain":
        return bytes(rng.choice(b"abcdef") for _ in range(n))
    if style == "nl":
        return bytes(rng.choice(b"ab\n") for _ in range(n))
    if style == "nlblock":   # newlines exactly around the 1024-byte refill boundaries
        b = bytearray(b"x" * n)
        for pos in (1022, 1023, 1024, 1025, 2047, 2048):
            if pos < n and rng.random() < 0.6:
                b[pos] = 10
        return bytes(b)
    return bytes(rng.randrange(256) for _ in range(n))


def file_oracle(body, prog):
    """What a binary file over `body` answers to the program."""
    f = io.BytesIO(body)
    out = []
    for kind, size in prog:
        if kind == "read":
            out.append(("bytes", f.read(size)))
        elif kind == "readline":
            out.append(("bytes", f.readline(-1 if size is None else size)))
        elif kind == "readlines":
            out.append(("lines", f.readlines()))
        elif kind in ("next", "iternext"):
            line = f.readline()
            out.append(("bytes", line) if line else ("stop", None))
    return out


def enc_file_out(out):
    o = []
    for kind, v in out:
        if kind == "bytes":
            o += [1] + vlib.enc_bytes(v)
        elif kind == "lines":
            o += [2] + vlib.enc_list(vlib.enc_bytes, v)
        else:
            o += [3]
    return o


def real_run(spec, chunks, prog):
    """Returns (list of call results or exception names, next-request tuple or error name)."""
    from gunicorn.http import RequestParser
    parser = RequestParser(lp.real_cfg(spec), iter(chunks), lp.DEFAULT_PEER)
    req = next(parser)
    out = []
    it = None                  # the iterator a `for` loop would hold (iter(wsgi.input), obtained once)
    for kind, size in prog:
        try:
            if kind == "read":
                out.append(("bytes", req.body.read(size)))
            elif kind == "readline":
                out.append(("bytes", req.body.readline(size)))
            elif kind == "readlines":
                out.append(("lines", req.body.readlines()))
            else:
                if kind == "iternext" and it is None:
                    it = iter(req.body)
                try:
                    out.append(("bytes", next(it if kind == "iternext" else req.body)))
                except StopIteration:
                    out.append(("stop", None))
        except Exception as e:
            out.append(("exc", type(e).__name__))
            return out, ("skipped", None)
    try:
        nxt = next(parser)
        nx = ("req", (nxt.method, nxt.uri, list(nxt.headers)))
    except StopIteration:
        nx = ("stop", None)
    except Exception as e:
        nx = ("exc", type(e).__name__)
    return out, nx


def gen_case(rng, big=False):
    body = gen_body(rng, big)
    chunked = rng.random() < 0.5
    hdr, enc = (layout_chunked if chunked else layout_cl)(rng, body)
    head = b"POST /upload HTTP/1.1\r\nHost: x\r\n" + hdr + b"\r\n"
    stream = head + enc + NEXT_REQ
    seg = rng.choice(["whole", "random", "random", "small", "cut", "lines"])
    chunks = next(iter(lp.segmentations(rng, stream, [seg])))[1]
    prog = lp.gen_prog(rng, len(body), maxcalls=12)
    if big:
        prog = prog[:rng.choice([0, 0, 1, 2])]
    # the limits on the request HEAD (fields x field size, which also bound one chunk-size line and the trailer block) say nothing
    # about how much body may follow: every head, chunk-size line and trailer block generated here fits the small ones too
    limits = rng.choice([(4, 256), (3, 64), (8, 30)]) if rng.random() < 0.2 else None
    return {"body": body, "chunked": chunked, "stream": stream, "chunks": chunks, "prog": prog, "seg": seg, "limits": limits}


def case_spec(case):
    if case.get("limits"):
        return lp.make_spec(limit_request_fields=case["limits"][0], limit_request_field_size=case["limits"][1])
    return lp.make_spec()


HUGE_SIZES = [65536, 262144, 524287, 524288, 524289, 700001, 1048577, 2100000]


def gen_huge_case(rng, n, chunked, prog):
    """bodies far beyond every buffer and block size of the code (oracle only: too large for the kernel-evaluated model);
    the body contains text that looks like a request, so a parser that resumes inside it is seen at once"""
    body = bytearray(rng.randbytes(n))
    trap = b"\r\n\r\nPOST /smuggled HTTP/1.1\r\nHost: x\r\nContent-Length: 0\r\n\r\n"
    for pos in (1000, n // 2, 524288, 524288 + 8192, n - len(trap) - 1):
        if 0 <= pos and pos + len(trap) <= n:
            body[pos:pos + len(trap)] = trap
    body = bytes(body)
    hdr, enc = (layout_chunked if chunked else layout_cl)(rng, body)
    stream = b"POST /upload HTTP/1.1\r\nHost: x\r\n" + hdr + b"\r\n" + enc + NEXT_REQ
    seg = rng.choice(["whole", "random", "small8k"])
    if seg == "small8k":
        k = rng.choice([1000, 4096, 8192])
        chunks = [stream[i:i + k] for i in range(0, len(stream), k)]
    else:
        chunks = next(iter(lp.segmentations(rng, stream, [seg])))[1]
    return {"body": body, "chunked": chunked, "stream": stream, "chunks": chunks, "prog": prog, "seg": seg, "huge": True}


def worker_layer(ctx):
    """The same sentence at the level of the workers that keep connections open (gthread, async): a request whose body the
    application leaves unread, then a second request on the same connection - the application must see exactly these two.
    (What sits between two calls of next(parser) is the worker's: the parser object, its last message, the socket.)"""
    import lib_env as E
    fails = []
    n = 0
    trap = b"GET /from-the-body HTTP/1.1\r\nHost: x\r\n\r\n"
    for kind in ("gthread", "async"):
        for size in (len(trap), 1500, 70000):
            body = (trap * (size // len(trap) + 1))[:size]
            for chunked in (False, True):
                hdr, enc = (layout_chunked if chunked else layout_cl)(ctx.rng, body)
                data = b"POST /upload HTTP/1.1\r\nHost: x\r\n" + hdr + b"\r\n" + enc + b"GET /next-request HTTP/1.1\r\nHost: n\r\nConnection: close\r\n\r\n"
                envs, errs, codes = E.run_conn(kind, {}, ("10.0.0.1", 4000), data)
                n += 1
                ctx.count_case(("worker", kind, size, chunked), True)
                ctx.hist("worker_layer", "%s/%s" % (kind, "chunked" if chunked else "content-length"))
                seen = [(e.get("REQUEST_METHOD"), e.get("RAW_URI")) for e in envs]
                if seen != [("POST", "/upload"), ("GET", "/next-request")] or errs:
                    fails.append(("%s worker, %s body of %d bytes left unread: the application saw %r (error statuses %r), expected POST /upload then "
                                  "GET /next-request" % (kind, "chunked" if chunked else "Content-Length", size, seen[:4], errs[:3]),
                                  {"kind": "c07-worker", "worker": kind, "size": size, "chunked": chunked}))
    ctx.log("%d unread-body keep-alive connections on the real gthread / async workers: %d failures" % (n, len(fails)))
    for text, rep in fails[:3]:
        ctx.violation(text, rep)


def real_gthread_bodies():
    """The REAL ThreadWorker.run() on a loopback listener, ONE kept-alive connection: bodies that arrive after their head, in
    pieces with pauses, under both framings and every way of reading wsgi.input; a body left unread followed by one more
    request.  The application answers with the SHA-1 and the length of what wsgi.input gave it.  -> list of failures"""
    import hashlib
    import time
    import lib_gthread_real as G

    def app(environ, start_response):
        inp = environ["wsgi.input"]
        how = environ["PATH_INFO"]
        try:
            if how == "/read-all":
                data = inp.read()
            elif how == "/read-n":
                data = b""
                while True:
                    blk = inp.read(700)
                    if not blk:
                        break
                    data += blk
            elif how == "/readline":
                data = b""
                while True:
                    ln = inp.readline()
                    if not ln:
                        break
                    data += ln
            elif how == "/iter":
                data = b"".join(inp)
            else:
                data = b""
            body = ("%s %s %d" % (how, hashlib.sha1(data).hexdigest(), len(data))).encode()
            start_response("200 OK", [("Content-Length", str(len(body)))])
        except Exception as e:                     # what wsgi.input raised is part of the finding
            body = ("wsgi.input raised %s: %s" % (type(e).__name__, e)).encode()
            start_response("500 Input Error", [("Content-Length", str(len(body)))])
        return [body]
    fails = []
    lines_body = b"".join(b"line %04d of the body\n" % i for i in range(140))
    blob = bytes((i * 7 + 3) % 251 for i in range(3011))
    steps = [
        ("GET", "/first", b"", False),
        ("POST", "/read-all", blob, False),
        ("POST", "/read-n", blob, True),
        ("POST", "/readline", lines_body, False),
        ("POST", "/iter", lines_body, True),
        ("POST", "/unread", blob[:2000], False),
        ("POST", "/unread", blob[:1500], True),
        ("GET", "/last", b"", False),
    ]
    with G.RealGthread(app, threads=2, keepalive=5) as srv:
        c = srv.connect()
        try:
            for k, (method, path, body, chunked) in enumerate(steps):
                what = "request %d of the connection (%s %s, %s body of %d bytes sent after its head in pieces)" % (
                    k + 1, method, path, "chunked" if chunked else "Content-Length", len(body))
                head = "%s %s HTTP/1.1\r\nHost: x\r\n" % (method, path)
                if method == "POST":
                    head += "Transfer-Encoding: chunked\r\n" if chunked else "Content-Length: %d\r\n" % len(body)
                try:
                    c.sendall(head.encode() + b"\r\n")
                    if method == "POST":
                        time.sleep(0.25)
                        pieces = [body[i:i + 997] for i in range(0, len(body), 997)]
                        for pc in pieces:
                            c.sendall((b"%x\r\n" % len(pc)) + pc + b"\r\n" if chunked else pc)
                            time.sleep(0.08)
                        if chunked:
                            c.sendall(b"0\r\n\r\n")
                except OSError as e:
                    fails.append("%s: the worker had closed the connection (%s)" % (what, type(e).__name__))
                    break
                status, hdr, got, complete, err = G.read_response(c, 8)
                seen = b"" if path == "/unread" or method == "GET" else body
                if path in ("/first", "/last", "/unread"):
                    want = ("%s %s %d" % (path, hashlib.sha1(b"").hexdigest(), 0)).encode()
                else:
                    want = ("%s %s %d" % (path, hashlib.sha1(seen).hexdigest(), len(seen))).encode()
                if status != 200 or not complete or got != want:
                    fails.append("%s: expected 200 with the digest of exactly the body, the client received status %r body %r%s"
                                 % (what, status, got[:120], (" (%s)" % err) if err else ""))
                    break
                if hdr.get("connection", "").lower() == "close":
                    fails.append("%s: answered, but the worker announced Connection: close on a keep-alive connection" % what)
                    break
                time.sleep(0.15)
        finally:
            c.close()
    return fails


def check_case(case):
    """The property on the real code.  Returns a failure description or None."""
    spec = case_spec(case)
    got, nx = real_run(spec, case["chunks"], case["prog"])
    want = file_oracle(case["body"], case["prog"])
    if got != want:
        for i, (g, w) in enumerate(zip(got, want)):
            if g != w:
                return "call %d %r returned %r, a file over the body returns %r" % (i, case["prog"][i], trunc(g), trunc(w))
        return "call results differ in length"
    if nx != ("req", ("GET", "/next-request", [("HOST", "n")])):
        return "after the body the next request is %r, expected the pipelined GET /next-request" % (nx,)
    return None


def trunc(x):
    r = repr(x)
    return r if len(r) < 120 else r[:117] + "..."


def run(ctx):
    ok = ctx.build()
    quick = ctx.quick()
    n = 4000 if quick else 300000
    n_model = 700 if quick else 8000
    fails = []
    model_cases = []
    file_cases = []
    for i in range(n):
        case = gen_case(ctx.rng)
        f = check_case(case)
        ctx.count_case((case["stream"], tuple(len(c) for c in case["chunks"]), repr(case["prog"])),
                       nontrivial=(len(case["prog"]) >= 1 and len(case["body"]) > 0))
        ctx.hist("framing", "chunked" if case["chunked"] else "content-length")
        ctx.hist("segmentation", case["seg"])
        ctx.hist("program_length", len(case["prog"]))
        ctx.hist("body_size", "0" if not case["body"] else "<1024" if len(case["body"]) < 1024 else "1024-2048" if len(case["body"]) <= 2048 else ">2048")
        if f:
            fails.append((case, f))
        ctx.hist("head_limits", "default" if not case.get("limits") else "fields=%d field_size=%d" % tuple(case["limits"]))
        if len(model_cases) < n_model and len(case["stream"]) < 4000:
            spec = case_spec(case)
            obs, rec = lp.run_impl(spec, case["chunks"], [case["prog"], []])
            model_cases.append((lp.model_expr(spec, case["chunks"], [case["prog"], []], rec), obs,
                                {"stream": case["stream"], "chunks": [len(c) for c in case["chunks"]], "prog": case["prog"]}))
            # the Coq file reference against io.BytesIO on the same (body, program)
            if len(case["body"]) <= 2100:
                file_cases.append(("fst (file_run %s %s%%N)" % (lp.coq_progs([case["prog"]])[1:-1], vlib.coq_bytes(case["body"])),
                                   enc_file_out(file_oracle(case["body"], case["prog"])), (case["body"], case["prog"])))
        if i < 4:
            ctx.sample({"body_len": len(case["body"]), "chunked": case["chunked"], "chunks": [len(c) for c in case["chunks"]][:12],
                        "prog": repr(case["prog"]), "limits": case.get("limits")})
    # lines longer than every block size, consumed the way a `for` loop / next() / readline() consumes them
    for lens in ((20414,), (5, 8193, 7), (8192, 8192), (30000, 1)):
        body = b"\n".join(b"y" * k for k in lens) + b"\n"
        for chunked in (False, True):
            for prog in ([("next", None)] * 3, [("iternext", None)] * 4, [("read", 5), ("iternext", None), ("readline", None), ("next", None)],
                         [("readline", None), ("readline", 9000), ("next", None)]):
                hdr, enc = (layout_chunked if chunked else layout_cl)(ctx.rng, body)
                stream = b"POST /upload HTTP/1.1\r\nHost: x\r\n" + hdr + b"\r\n" + enc + NEXT_REQ
                seg = ctx.rng.choice(["whole", "random", "small"])
                case = {"body": body, "chunked": chunked, "stream": stream, "chunks": next(iter(lp.segmentations(ctx.rng, stream, [seg])))[1],
                        "prog": list(prog), "seg": seg, "limits": None}
                f = check_case(case)
                ctx.count_case(("long-line", lens, chunked, repr(prog), seg), True)
                ctx.hist("body_size", ">2048")
                ctx.hist("long_lines", "lines of %r bytes" % (lens,))
                if f:
                    fails.append((case, f))
    # huge bodies, mostly left unread: the drain of Parser.__next__ must still end exactly behind the body
    nh = 0
    for n_body in (HUGE_SIZES if not quick else ctx.rng.sample(HUGE_SIZES[:3], 1) + HUGE_SIZES[3:7]):
        for chunked in (False, True):
            for prog in ([], [("read", 10)], [("readline", None), ("read", 70000)]):
                if quick and ctx.rng.random() < 0.5:
                    continue
                case = gen_huge_case(ctx.rng, n_body, chunked, prog)
                f = check_case(case)
                nh += 1
                ctx.count_case(("huge", n_body, chunked, repr(prog), case["seg"]), True)
                ctx.hist("body_size", ">=64KiB")
                ctx.hist("framing", "chunked" if chunked else "content-length")
                if f:
                    fails.append((case, f))
    ctx.log("%d huge-body cases (64 KiB - 2 MiB, mostly unread) on the real parser" % nh)
    ctx.cov["rule"] = ("(body, framing, chunk layout, segmentation, program of 0-12 calls) tuples; sizes from {None,-1,0,1,2,3,10,1023,1024,1025,"
                       "2047,2048,2049,8191,8192,8193,1e5,|body|,|body|+-1}; bodies with newlines around the 1024-byte refill boundaries; "
                       "each followed by a pipelined request; plus bodies of 64 KiB - 2 MiB left (mostly) unread, oracle only; non-trivial = non-empty body and at least one call; distinct by (stream, cuts, program)")
    ctx.log("%d tuples on the real Body vs io.BytesIO: %d failures" % (n, len(fails)))
    for case, f in fails[:3]:
        if case.get("huge"):
            ctx.violation(f, {"kind": "c07-huge", "body_len": len(case["body"]), "chunked": case["chunked"], "prog": case["prog"],
                              "seg": case["seg"], "failure": f})
            continue
        ctx.violation(f, {"kind": "c07", "stream": case["stream"].decode("latin-1"), "chunks": [c.decode("latin-1") for c in case["chunks"]],
                          "body": case["body"].decode("latin-1"), "prog": case["prog"], "limits": case.get("limits"), "failure": f})
    worker_layer(ctx)
    rf = real_gthread_bodies()
    ctx.count_case(("real-gthread-bodies",), True)
    ctx.hist("worker_layer", "real gthread run(): 8 requests on one kept-alive connection")
    ctx.log("real gthread run(): bodies sent after their heads on one kept-alive connection: %d failures" % len(rf))
    for f in rf[:2]:
        ctx.violation("real gthread worker: " + f, {"kind": "c07-real-gthread"})
    import lib_battery
    lib_battery.report(ctx, "bodies", "battery")
    bad = ctx.correspond("body", lp.HEADER, model_cases, shard=60)
    if bad:
        i, m, im = bad[0]
        ctx.broken.append("correspondence Model/Parser.v vs RequestParser+Body: %d of %d differ; first: %r" % (len(bad), len(model_cases), model_cases[i][2]))
    if (bad or not ok) and not ctx.violations:
        # failing-input search: the oracle alone on a larger space (big bodies, short programs)
        ctx.log("failing-input search ...")
        for i in range(3000):
            case = gen_case(ctx.rng, big=(i % 2 == 0))
            f = check_case(case)
            if f:
                ctx.violation(f, {"kind": "c07", "stream": case["stream"].decode("latin-1"), "chunks": [c.decode("latin-1") for c in case["chunks"]],
                                  "body": case["body"].decode("latin-1"), "prog": case["prog"], "limits": case.get("limits"), "failure": f})
                break
    hdr = lp.HEADER.replace("Model.Parser.", "Model.Parser Spec.IdealBody.")
    bad2 = ctx.correspond("file", hdr, file_cases, shard=100)
    if bad2:
        i, m, im = bad2[0]
        ctx.broken.append("Spec/IdealBody.file_run vs io.BytesIO: %d of %d differ; first: %r" % (len(bad2), len(file_cases), file_cases[i][2]))


def replay(rep):
    if rep.get("kind") == "battery":
        import lib_battery
        return lib_battery.replay(rep)
    if rep.get("kind") == "c07-real-gthread":
        fs = real_gthread_bodies()
        print("failures:", fs)
        return 1 if fs else 0
    if rep.get("kind") == "c07-worker":
        class C:
            rng = __import__("random").Random(1)
            def __init__(self): self.v = []
            def count_case(self, *a, **k): pass
            def hist(self, *a, **k): pass
            def log(self, *a): print(*a)
            def violation(self, what, rep): self.v.append(what)
        c = C()
        worker_layer(c)
        print("failures:", c.v)
        return 1 if c.v else 0
    if rep.get("kind") == "c07-huge":
        import random
        bad = 0
        for seed in range(6):
            case = gen_huge_case(random.Random(seed), rep["body_len"], rep["chunked"], [tuple(c) for c in rep["prog"]])
            f = check_case(case)
            print(seed, case["seg"], f)
            bad += bool(f)
        return 1 if bad else 0
    case = {"body": rep["body"].encode("latin-1"), "chunks": [c.encode("latin-1") for c in rep["chunks"]],
            "prog": [tuple(c) for c in rep["prog"]], "limits": rep.get("limits")}
    f = check_case(case)
    print("failure:", f)
    return 1 if f else 0
