"""C11 - hung workers are killed and replaced; healthy workers never are.

Two real pieces are coupled through virtual time:
  * worker side: the REAL main loop of each worker class (sync / gthread / gevent / eventlet) runs in-process on a
    virtual clock (lib_heartbeat) and yields the instants of its notify() calls for a scripted run (idle waits,
    early wake-ups, requests, per-iteration latency);
  * master side: the REAL Arbiter.run() on the simulated kernel (lib_arbiter) with the real WorkerTmp files; every
    worker it forks gets such a run (using the wait bound the arbiter really handed to the worker object), or
    hangs (stops notifying; obeys or ignores SIGABRT), or hangs before its first notify.
Correspondence: (a) notify instants of the real loops vs Model/Heartbeat.v notify_times; (b) the executed schedule
replayed on Model/Arbiter.v (heartbeats, aborted flags, signals, time).  Oracle: no SIGABRT/SIGKILL for a healthy
worker; SIGABRT then SIGKILL and a replacement within timeout + bounded delay for a hung one."""
import signal
import warnings

import lib_arbiter as L
import lib_heartbeat as H
import vlib

warnings.simplefilter("ignore")

TICK = L.TICK
SIGABRT, SIGKILL, SIGTERM = int(signal.SIGABRT), int(signal.SIGKILL), int(signal.SIGTERM)
KEY_D19 = "timeout1-fixed-heartbeat-period"
SMALL_LAT = 8                      # "a small bounded delay": 8 ticks = 31 ms per loop iteration


# ---------------------------------------------------------------------------------------------------
# scenarios
# ---------------------------------------------------------------------------------------------------

def nominal_wait(cls, timeout):
    return timeout * TICK // 2 if cls == "sync" else TICK


def gen_events(rng, cls, timeout, horizon, latmax, busy):
    """a healthy run long enough to cover `horizon` ticks"""
    evs, t = [], 0
    wait = max(1, nominal_wait(cls, timeout))
    while t <= horizon:
        lat = rng.choice([0, 0, 1, 2, latmax]) if latmax else 0
        x = rng.random()
        if cls == "sync" and busy and x < 0.35:
            dur = rng.choice([1, 20, 100, timeout * TICK // 2, max(1, timeout * TICK - latmax - 1)])
            evs.append(("R", dur, lat))
            t += dur + lat
        elif cls in ("sync", "gthread") and x < 0.5:
            a = rng.choice([1, 10, wait // 2, wait - 1]) if wait > 1 else 1
            evs.append(("W", a, lat))
            t += min(a, wait) + lat
        else:
            evs.append(("I", lat))
            t += wait + lat
    return evs


def gen_scenario(rng):
    cls = rng.choice(H.CLASSES)
    timeout = rng.choice([1, 1, 2, 2, 3, 5])
    workers = rng.choice([1, 2, 2, 3])
    hang_at = rng.choice([0, 100, 256, 300, 700])
    loops = timeout + 9 + hang_at // TICK
    horizon = (loops + 4) * (TICK + SMALL_LAT + 40)
    kind = rng.random()
    slots = []
    for i in range(workers + 3):       # behaviours for the first forks; later forks (replacements) are healthy
        if i < workers and kind < 0.55 and i == rng.randrange(workers):
            mode = rng.choice(["hung", "hung", "boot-hang"])
            pre = [] if mode == "boot-hang" else gen_events(rng, cls, timeout, hang_at, 2, False)
            slots.append({"mode": mode, "events": pre, "obeys": rng.random() < 0.4, "exit_delay": rng.choice([0, 5, 300])})
        else:
            slots.append({"mode": "healthy", "events": gen_events(rng, cls, timeout, horizon, rng.choice([0, 2, SMALL_LAT]), rng.random() < 0.5)})
    return {"cls": cls, "timeout": timeout, "workers": workers, "slots": slots,
            "master_lat": [rng.choice([0, 0, 1, 2, SMALL_LAT]) for _ in range(40)],
            "chld_delay": rng.choice([0, 0, 1, 3]), "boot": rng.choice([0, 0, 3]), "loops": loops,
            "rand": rng.choice([0.0, 0.5])}


def fixed_scenarios():
    out = []
    for cls in H.CLASSES:
        for timeout in (1, 2, 3):
            # all healthy and idle, zero latency / small latency
            for lat in (0, 2, SMALL_LAT):
                n = (timeout + 12) * (TICK + 40) // max(1, nominal_wait(cls, timeout)) + 4
                out.append({"cls": cls, "timeout": timeout, "workers": 2,
                            "slots": [{"mode": "healthy", "events": [("I", lat)] * n} for _ in range(5)],
                            "master_lat": [1] * 40, "chld_delay": 0, "boot": 0, "loops": timeout + 8, "rand": 0.0})
            # one worker hangs (ignoring / obeying SIGABRT), one hangs before its first notify
            for mode, obeys in (("hung", False), ("hung", True), ("boot-hang", False)):
                n = (timeout + 16) * (TICK + 40) // max(1, nominal_wait(cls, timeout)) + 4
                slots = [{"mode": mode, "events": [("I", 0)] * (2 if mode == "hung" else 0), "obeys": obeys, "exit_delay": 5}]
                slots += [{"mode": "healthy", "events": [("I", 0)] * n} for _ in range(4)]
                out.append({"cls": cls, "timeout": timeout, "workers": 2, "slots": slots,
                            "master_lat": [0] * 40, "chld_delay": 0, "boot": 0, "loops": timeout + 12, "rand": 0.0})
    # a hung worker while the master is kept busy by signals arriving several times a second
    for cls in ("sync", "gthread"):
        for timeout in (2, 3):
            for chatter in (60, 128, 200):
                n = (timeout + 30) * (TICK + 40) // max(1, nominal_wait(cls, timeout)) + 4
                slots = [{"mode": "hung", "events": [("I", 0)] * 2, "obeys": True, "exit_delay": 5}]
                slots += [{"mode": "healthy", "events": [("I", 0)] * n} for _ in range(4)]
                out.append({"cls": cls, "timeout": timeout, "workers": 2, "slots": slots, "chatter": chatter,
                            "master_lat": [0] * 40, "chld_delay": 0, "boot": 0, "loops": (timeout + 12) * (TICK // chatter + 1), "rand": 0.0})
    return out


# ---------------------------------------------------------------------------------------------------
# running a scenario on the real arbiter
# ---------------------------------------------------------------------------------------------------

def run_scenario(sc):
    w = L.World(workers=sc["workers"], timeout=sc["timeout"], graceful=2, rand=sc.get("rand", 0.0),
                worker_class=H.CLASS_URI[sc["cls"]])
    if sc["cls"] == "gthread":
        w.threads = 2
    info = {}            # pid -> dict(slot, times (absolute ticks from start), next index, abrt_at)
    st = {"forks_seen": 0, "tops": 0, "lat_i": 0, "zombie_since": None, "q": []}

    def policy(world):
        if st["q"]:
            return st["q"].pop(0)
        now = world.mono - L.MONO0
        code = world.cur[0]
        if code == L.Y_QLEN:
            st["tops"] += 1
            if st["tops"] > sc["loops"]:
                return None
        q = []
        # new children
        for k in world.kids:
            if k["pid"] not in info and not k["master"]:
                idx = st["forks_seen"]
                st["forks_seen"] += 1
                slot = sc["slots"][idx] if idx < len(sc["slots"]) else {"mode": "healthy", "events": None}
                obj = world.objs.get(k["pid"])
                wait_s = float(obj.timeout) if obj is not None else sc["timeout"] / 2.0
                evs = slot["events"]
                if evs is None:
                    n = (sc["loops"] + 4) * (TICK + 40) // max(1, nominal_wait(sc["cls"], sc["timeout"])) + 4
                    evs = [("I", 0)] * n
                if slot["mode"] == "boot-hang":
                    times = []
                else:
                    offs, _ = H.run_loop(sc["cls"], wait_s, sc["timeout"], evs)
                    start = now + sc["boot"]
                    times = [start + o for o in offs]
                    if slot["mode"] == "hung":
                        times = times[:-1] if len(times) > 1 else times    # the last notify of the loop never happens: it hangs
                info[k["pid"]] = {"slot": slot, "times": times, "i": 0, "abrt_at": None, "born": now, "wait_s": wait_s, "events": evs}
        # notifications that have happened by now
        for k in world.kids:
            d = info.get(k["pid"])
            if d is None or k["st"] != "R":
                continue
            while d["i"] < len(d["times"]) and d["times"][d["i"]] <= now:
                q.append(("Nt", k["pid"], d["times"][d["i"]]))
                d["i"] += 1
        # deaths: a hung worker that obeys SIGABRT exits with status 1 some ticks later; TERM'd workers exit 0
        for k in world.kids:
            d = info.get(k["pid"])
            if d is None or k["st"] != "R":
                continue
            if SIGABRT in k["sigs"]:
                if d["abrt_at"] is None:
                    d["abrt_at"] = now
                obeys = d["slot"].get("obeys", True) if d["slot"]["mode"] != "healthy" else True
                if obeys and now >= d["abrt_at"] + d["slot"].get("exit_delay", 0):
                    q.append(("X", k["pid"], 256))
            elif SIGTERM in k["sigs"]:
                q.append(("X", k["pid"], 0))
        dying = set(x[1] for x in q if x[0] == "X")
        zombies = [k for k in world.kids if k["st"] == "Z" or k["pid"] in dying]
        if zombies:
            if st["zombie_since"] is None:
                st["zombie_since"] = 0
            if st["zombie_since"] >= sc["chld_delay"]:
                q.append(("C",))
                st["zombie_since"] = None
            else:
                st["zombie_since"] += 1
        if code == L.Y_SELECT:
            lat = sc["master_lat"][st["lat_i"] % len(sc["master_lat"])]
            st["lat_i"] += 1
            if lat:
                q.append(("T", lat))
            if sc.get("chatter"):
                # the master is woken more often than once a second (a USR1 every `chatter` ticks): its select() never times out
                q.append(("T", sc["chatter"]))
                q.append(("S", int(signal.SIGUSR1)))
        q.append(("M",))
        st["q"] = q
        return st["q"].pop(0)

    w.run([], policy=policy)
    w.info = info
    return w


# ---------------------------------------------------------------------------------------------------
# the property on the real run
# ---------------------------------------------------------------------------------------------------

def judge(sc, w):
    fails = []
    if w.outcome[0] != "done":
        fails.append(("the master stopped: %r" % (w.outcome,), None))
        return fails
    T = sc["timeout"] * TICK
    maxlat = max(sc["master_lat"]) if sc["master_lat"] else 0
    P = TICK + maxlat + 2 * 13 + 8                      # loop period: select + latency + spawn naps
    end = w.mono - L.MONO0
    sig_of = {}
    for pid, sig, mono in w.all_delivered:
        sig_of.setdefault(pid, []).append((sig, mono - L.MONO0))
    deaths = {e[1]: e[3] - L.MONO0 for e in w.events if e[0] == "death"}
    forks = [(pid, mono - L.MONO0) for pid, master, mono in w.forks if not master]
    for pid, d in w.info.items():
        mode = d["slot"]["mode"]
        sigs = [(s, t) for s, t in sig_of.get(pid, []) if s in (SIGABRT, SIGKILL)]
        done = d["times"][:d["i"]]
        # the instant from which the worker is silent: never for a healthy one
        h = None if mode == "healthy" else (d["times"][-1] if d["times"] else d["born"])
        # signals sent while the worker was still going to notify again: it was healthy then
        early = [(sg, t) for sg, t in sigs if h is None or t < h]
        if early:
            sg, t = early[0]
            last = max([x for x in d["times"] if x <= t] + [d["born"]])
            age = t - last
            key = None
            if sc["cls"] != "sync" and sc["timeout"] == 1 and age > T:
                key = KEY_D19
            fails.append(("healthy %s worker %d (iterations within the timeout, latency <= %d ticks) was sent signal %d at t=%d: "
                          "heartbeat age %d ticks, timeout %d ticks" % (sc["cls"], pid, SMALL_LAT, sg, t, age, T), key))
        if h is not None:
            gone = deaths.get(pid)
            if gone is not None and gone < h:
                continue                                  # killed (wrongly, see above) before it could hang
            sigs = [(sg, t) for sg, t in sigs if t >= h]
            if h + T + 3 * P > end:
                continue                                  # the run is too short to judge this one
            ab = [t for sg, t in sigs if sg == SIGABRT]
            ki = [t for sg, t in sigs if sg == SIGKILL]
            obeys = d["slot"].get("obeys", False)
            if early and any(sg == SIGABRT for sg, _ in early):
                # already marked aborted by a premature SIGABRT it survived: the next stale scan may send SIGKILL directly
                if not ab and not ki:
                    fails.append(("hung worker %d (silent since %d, timeout %d ticks) was not signalled again until t=%d" % (pid, h, T, end), None))
                continue
            if not ab:
                fails.append(("hung worker %d (last notify at %d, timeout %d ticks) was never sent SIGABRT until t=%d" % (pid, h, T, end), None))
                continue
            if ab[0] > h + T + P:
                fails.append(("hung worker %d: SIGABRT only at %d, later than last notify %d + timeout %d + loop period %d" % (pid, ab[0], h, T, P), None))
            if ab[0] - h <= T:
                fails.append(("worker %d was sent SIGABRT at %d although its heartbeat (at %d) was not older than the timeout %d" % (pid, ab[0], h, T), None))
            if gone is None:
                fails.append(("hung worker %d still alive at t=%d (SIGABRT at %d, SIGKILL %r)" % (pid, end, ab[0], ki), None))
                continue
            if gone > h + T + 2 * P + d["slot"].get("exit_delay", 0):
                fails.append(("hung worker %d died only at %d, later than last notify %d + timeout %d + 2 loop periods" % (pid, gone, h, T), None))
            if not obeys and not ki:
                fails.append(("hung worker %d ignored SIGABRT but was never sent SIGKILL" % pid, None))
            if ki and ki[0] < ab[0]:
                fails.append(("worker %d got SIGKILL before SIGABRT" % pid, None))
            if len(ab) > 1 and not obeys:
                fails.append(("hung worker %d was sent SIGABRT %d times (SIGKILL must follow the first)" % (pid, len(ab)), None))
            later = [t for p, t in forks if t >= gone]
            if not later or later[0] > gone + 2 * P + 4 * TICK:
                fails.append(("hung worker %d died at %d but no replacement was forked within two loop periods (forks %r)" % (pid, gone, forks), None))
    st = w.state()
    if len(st["workers"]) != st["num_workers"]:
        pass    # convergence itself is C03's business; a run may end mid-replacement
    return fails


# ---------------------------------------------------------------------------------------------------
# correspondence expressions
# ---------------------------------------------------------------------------------------------------

HB_HEADER = """From Coq Require Import List ZArith.
From GV Require Import Gen.GenArbiter Model.Heartbeat.
Import ListNotations.
Open Scope Z_scope.
"""


def loop_cases(rng, n):
    cases = []
    for cls in H.CLASSES:
        for timeout in (1, 2, 3, 5, 30):
            cases.append((cls, timeout, [("I", 0)] * 3))
            cases.append((cls, timeout, [("I", 2), ("I", 0), ("I", 7)]))
    for _ in range(n):
        cls = rng.choice(H.CLASSES)
        timeout = rng.choice([1, 2, 3, 5, 30])
        evs = gen_events(rng, cls, timeout, rng.choice([300, 1500, 4000]), rng.choice([0, 3, 9]), True)
        cases.append((cls, timeout, evs[:14]))
    return cases


def arbiter_wait_seconds(timeout, cls):
    """the wait bound the real Arbiter.spawn_worker hands to a worker for cfg.timeout = timeout"""
    w = L.World(workers=1, timeout=timeout, worker_class=H.CLASS_URI[cls])
    w.run([("M",)] * 4)
    obj = w.objs.get(100)
    return float(obj.timeout)


def describe(sc):
    d = dict(sc)
    d["slots"] = [{k: (v if k != "events" else [list(e) for e in (v or [])]) for k, v in s.items()} for s in sc["slots"]]
    return d


def run(ctx):
    ok = ctx.build()
    # ---- (a) worker loops vs Model/Heartbeat.v --------------------------------------------------------------
    waits = {}
    lcases = loop_cases(ctx.rng, 150 if ctx.quick() else 3000)
    corr_loops = []
    for cls, timeout, evs in lcases:
        if (cls, timeout) not in waits:
            waits[(cls, timeout)] = arbiter_wait_seconds(timeout, cls)
        offs, asked = H.run_loop(cls, waits[(cls, timeout)], timeout, evs)
        expr = "notify_times %s %d 0 %s" % (H.COQ_CLASS[cls], timeout, H.coq_events(evs))
        corr_loops.append((expr, offs, (cls, timeout, evs)))
        ctx.count_case(("loop", cls, timeout, tuple(evs)), nontrivial=len(evs) >= 2)
        ctx.hist("loop_class", cls)
    bad = ctx.correspond("loops", HB_HEADER, corr_loops, shard=200)
    if bad:
        i, m, im = bad[0]
        ctx.broken.append("correspondence Model/Heartbeat.v notify_times vs the real worker loops: %d of %d runs differ; first: %r model=%r impl=%r"
                          % (len(bad), len(corr_loops), corr_loops[i][2], m[:12], im[:12]))
    # ---- (b) scenarios on the real arbiter ---------------------------------------------------------------------
    scs = fixed_scenarios()
    for _ in range(700 if ctx.quick() else 8000):
        scs.append(gen_scenario(ctx.rng))
    corr = []
    failures = []
    for sc in scs:
        w = run_scenario(sc)
        cfg = {"workers": sc["workers"], "timeout": sc["timeout"], "graceful_timeout": 2, "rand": sc.get("rand", 0.0)}
        corr.append(("run_obs %s %s" % (L.init_expr(cfg), L.labels_expr(w.resolved)), L.flat(w.trace), describe(sc)))
        modes = tuple(s["mode"] for s in sc["slots"][:sc["workers"]])
        ctx.count_case(("scenario", sc["cls"], sc["timeout"], sc["workers"], repr(sc["slots"]), tuple(sc["master_lat"]), sc["chld_delay"]),
                       nontrivial=len(w.forks) >= 1)
        ctx.hist("class", sc["cls"])
        ctx.hist("timeout", sc["timeout"])
        ctx.hist("modes", "+".join(sorted(set(modes))))
        nsig = sum(1 for p, s, t in w.all_delivered if s in (SIGABRT, SIGKILL))
        ctx.hist("abrt_kill_signals", min(nsig, 4))
        fs = judge(sc, w)
        if fs:
            failures.append((sc, fs))
        if any(m != "healthy" for m in modes):
            ctx.sample({"class": sc["cls"], "timeout": sc["timeout"], "modes": modes, "signals": [list(x) for x in w.all_delivered][:6]})
    ctx.cov["rule"] = ("(a) scripted runs of the four real worker loops (idle / woken / request iterations with latency) against "
                       "Heartbeat.notify_times; (b) scenarios on the real Arbiter.run(): class x timeout in {1,2,3,5} x 1-3 workers, each "
                       "healthy (real loop schedule), hung after some iterations (obeying or ignoring SIGABRT) or hung before its first "
                       "notify, with master latency and delayed SIGCHLD; fixed corpus (every class x timeout {1,2,3} x latency x hang kind) "
                       "then seeded random; distinct by full scenario")
    ctx.log("ran %d worker-loop runs and %d arbiter scenarios; %d with oracle failures" % (len(lcases), len(scs), len(failures)))
    report(ctx, failures)
    bad2 = ctx.correspond("sched", L.HEADER, corr, shard=100)
    if bad2:
        i, m, im = bad2[0]
        k = next((j for j in range(min(len(m), len(im))) if m[j] != im[j]), min(len(m), len(im)))
        ctx.broken.append("correspondence Model/Arbiter.v vs gunicorn/arbiter.py (heartbeat scenarios): %d of %d differ; first: class %s timeout %d "
                          "(observation index %d: model %r impl %r)" % (len(bad2), len(corr), corr[i][2]["cls"], corr[i][2]["timeout"], k,
                                                                      m[max(0, k - 6):k + 6], im[max(0, k - 6):k + 6]))
    if (bad or bad2 or bad is None or bad2 is None or not ok) and not ctx.violations:
        search(ctx)
    if not ctx.quick():
        real_processes(ctx)
    real_hang_during_boot(ctx)
    real_idle_with_keepalive(ctx)


def report(ctx, failures):
    shown = 0
    for sc, fs in failures:
        for text, key in fs:
            if key is not None and ctx.known.has(ctx.prop, key):
                ctx.violation(text, {}, key=key)
                continue
            if shown >= 3:
                continue
            small = shrink(sc, text.split(":")[0][:30])
            w = run_scenario(small)
            f2 = judge(small, w) or fs
            ctx.violation(f2[0][0], {"kind": "scenario", "scenario": describe(small), "failures": [t for t, _ in f2],
                                     "signals": [list(x) for x in w.all_delivered], "forks": [list(x) for x in w.forks]}, key=f2[0][1])
            shown += 1


def shrink(sc, cls_text):
    """drop worker slots / shorten scripts while the same kind of failure remains"""
    def fails(c):
        try:
            return any(t.split(":")[0][:30] == cls_text for t, _ in judge(c, run_scenario(c)))
        except Exception:
            return False
    cur = dict(sc)
    for k in ("master_lat",):
        c = dict(cur)
        c[k] = [max(cur[k])] if cur[k] else [0]
        if fails(c):
            cur = c
    c = dict(cur)
    c["chld_delay"] = 0
    if fails(c):
        cur = c
    return cur


def search(ctx):
    ctx.log("failing-input search (oracle only) ...")
    fails = []
    n = 0
    for sc in fixed_scenarios() + [gen_scenario(ctx.rng) for _ in range(1500)]:
        n += 1
        try:
            w = run_scenario(sc)
        except Exception:
            continue
        fs = [(t, k) for t, k in judge(sc, w) if not (k is not None and ctx.known.has(ctx.prop, k))]
        if fs:
            fails.append((sc, fs))
            break
    ctx.extra["search_scenarios"] = n
    report(ctx, fails)


def real_hang_during_boot(ctx):
    """quick and thorough tier: a replacement worker hangs while it boots (the application import blocks).  The child-side
    path between fork and the worker's main loop is below the simulated kernel, so this runs on real processes: the master
    must abort the hung worker after the timeout, replace it, and go on serving with the healthy one meanwhile."""
    import os
    import signal as sg
    import time
    import lib_realproc as R
    fails = []

    def ask(srv):
        try:
            return srv.request("/", timeout=5) if srv.proc.poll() is None else b""
        except OSError:
            return b""                               # the master went away under our feet: judged below
    for cls, timeout in ((("sync", 2),) if ctx.quick() else (("sync", 2), ("gthread", 2), ("sync", 3))):
        srv = R.Server(workers=2, worker_class=cls, timeout=timeout, app="hangapp:app")
        marker = os.path.join(srv.dir, "HANG")
        try:
            if srv.wait_workers(2, 15) is None:
                ctx.broken.append("real processes: %s workers did not start (hang-during-boot scenario)" % cls)
                continue
            time.sleep(0.5)
            first = list(srv.workers()[0])
            open(marker, "w").close()
            os.kill(first[0], sg.SIGTERM)                       # its replacement will hang in the import
            t = srv.wait_for(lambda: "WORKER TIMEOUT" in srv.logtext(), timeout + 8)
            healthy = ask(srv)
            os.unlink(marker)
            ok2 = srv.wait_for(lambda: len(srv.workers()[0]) == 2 and not srv.workers()[1] and first[0] not in srv.workers()[0], timeout + 10)
            time.sleep(0.5)
            alive = srv.proc.poll() is None
            after = ask(srv)
            ctx.count_case(("real-hang-boot", cls, timeout), True)
            ctx.hist("real_hang_during_boot", "%s t=%d %s" % (cls, timeout, "replaced" if (alive and ok2 is not None) else "NOT replaced"))
            if t is None and alive:
                fails.append("%s timeout=%d: a worker hung while booting was not aborted within timeout + 8 s" % (cls, timeout))
            if not alive:
                fails.append("%s timeout=%d: the master exited (status %r) when a worker that hung while booting was aborted; "
                             "a hung worker is killed and replaced, the server keeps serving" % (cls, timeout, srv.proc.poll()))
            elif ok2 is None:
                fails.append("%s timeout=%d: the pool did not return to 2 live workers after the hung worker was aborted: %r"
                             % (cls, timeout, srv.workers()))
            elif not (healthy.startswith(b"HTTP/1.1 200") and after.startswith(b"HTTP/1.1 200")):
                fails.append("%s timeout=%d: requests were not answered while / after the hung worker was dealt with (%r / %r)"
                             % (cls, timeout, healthy[:40], after[:40]))
        finally:
            srv.stop()
    for f in fails:
        ctx.violation("real processes: " + f, {"kind": "real-hang-boot", "note": f})


def real_idle_with_keepalive(ctx):
    """quick and thorough tier: "a worker that is idle ... is never killed for inactivity, for any worker class and any timeout
    value" with an idle KEEP-ALIVE connection parked in the worker and keepalive > timeout (a load balancer's 75 s against a
    timeout of 30 s, scaled down): one request, an idle period of 2.2 timeouts on the same connection, a second request - same
    worker, no WORKER TIMEOUT.  Real processes: the workers' own main loops and their waits."""
    import time
    import lib_battery as B
    import lib_gthread_real as G
    fails = []
    classes = ("gthread", "gevent") if ctx.quick() else ("gthread", "gevent", "eventlet")
    timeout = 2

    def one(cls):
        srv = B.BatteryServer(cls)
        srv.settings.update({"timeout": timeout, "keepalive": 9})
        srv.write_conf()
        try:
            srv.start()
            c = srv.conn(timeout=10)
            c.sendall(b"GET /small HTTP/1.1\r\nHost: x\r\n\r\n")
            st, hd, body, complete, err = G.read_response(c, 8)
            pid1 = body.decode().split("pid=")[-1] if st == 200 else None
            time.sleep(timeout * 2.2)
            try:
                c.sendall(b"GET /small HTTP/1.1\r\nHost: x\r\n\r\n")
                st2, hd2, body2, complete2, err2 = G.read_response(c, 8)
            except OSError as e:
                st2, body2, err2 = None, b"", type(e).__name__
            c.close()
            pid2 = body2.decode().split("pid=")[-1] if st2 == 200 else None
            log = srv.read_log()
            ctx.count_case(("real-idle-keepalive", cls), True)
            ctx.hist("real_idle_keepalive", "%s: %s" % (cls, "same worker" if pid1 and pid1 == pid2 else "NOT the same worker"))
            if "WORKER TIMEOUT" in log:
                fails.append("%s timeout=%d keepalive=9: an idle worker holding an idle keep-alive connection was killed for inactivity: %s"
                             % (cls, timeout, [l for l in log.splitlines() if "WORKER TIMEOUT" in l][:1]))
            elif st != 200 or st2 != 200 or pid1 != pid2:
                fails.append("%s timeout=%d keepalive=9: the second request on the kept-alive connection, %.1f s later, was not served by the same "
                             "worker (first: %r pid %s, second: %r pid %s %s)" % (cls, timeout, timeout * 2.2, st, pid1, st2, pid2, err2 or ""))
        except Exception as e:
            ctx.broken.append("real idle-with-keepalive scenario (%s) could not be carried out: %s: %s" % (cls, type(e).__name__, e))
        finally:
            srv.cleanup()
    import threading
    ths = [threading.Thread(target=one, args=(c,)) for c in classes]
    for t in ths:
        t.start()
    for t in ths:
        t.join()
    for f in fails:
        ctx.violation("real processes: " + f, {"kind": "real-idle-keepalive", "note": f})


def real_processes(ctx):
    """thorough tier, supporting exploration: real master + workers with short timeouts.  Idle healthy workers must
    survive 3 timeouts; a worker stopped with SIGSTOP, one blocked in the application (sync), must be killed and
    replaced within timeout + a few seconds."""
    import os
    import signal as sg
    import time
    import lib_realproc as R
    notes = []
    for cls in H.CLASSES:
        for timeout in (1, 2, 3):
            srv = R.Server(workers=2, worker_class=cls, timeout=timeout)
            try:
                if srv.wait_workers(2, 15) is None:
                    notes.append("%s timeout=%d: the workers did not start" % (cls, timeout))
                    continue
                first = set(srv.workers()[0])
                time.sleep(3 * timeout + 1.5)
                now = set(srv.workers()[0])
                killed = "WORKER TIMEOUT" in srv.logtext()
                ctx.hist("real_idle", "%s t=%d %s" % (cls, timeout, "killed" if killed or now != first else "survived"))
                if killed or now != first:
                    text = "real processes: idle healthy %s workers with timeout=%d were killed for inactivity" % (cls, timeout)
                    if cls != "sync" and timeout == 1:
                        ctx.violation(text, {}, key=KEY_D19)
                    else:
                        notes.append(text)
                    continue
                # hang by SIGSTOP
                victim = sorted(now)[0]
                os.kill(victim, sg.SIGSTOP)
                t = srv.wait_for(lambda: victim not in srv.workers()[0] and len(srv.workers()[0]) == 2 and not srv.workers()[1], timeout + 8)
                ctx.hist("real_sigstop", "%s t=%d %s" % (cls, timeout, "replaced in %.1fs" % t if t is not None else "NOT replaced"))
                if t is None:
                    try:
                        os.kill(victim, sg.SIGCONT)
                    except OSError:
                        pass
                    notes.append("%s timeout=%d: a SIGSTOPped worker was not killed and replaced within timeout + 8 s" % (cls, timeout))
                elif t > timeout + 5:
                    notes.append("%s timeout=%d: a SIGSTOPped worker was replaced only after %.1f s" % (cls, timeout, t))
                # blocked application (sync only: for the others a blocked handler is not a hang)
                if cls == "sync":
                    import threading
                    cur = set(srv.workers()[0])
                    th = threading.Thread(target=lambda: srv.request("/sleep/60", timeout=timeout + 10), daemon=True)
                    th.start()
                    t = srv.wait_for(lambda: len(cur - set(srv.workers()[0])) >= 1 and len(srv.workers()[0]) == 2, timeout + 8)
                    ctx.hist("real_blocked_app", "sync t=%d %s" % (timeout, "replaced in %.1fs" % t if t is not None else "NOT replaced"))
                    if t is None:
                        notes.append("sync timeout=%d: a worker blocked in the application was not killed and replaced" % timeout)
            finally:
                srv.stop()
    ctx.extra["real_process_notes"] = notes
    for n in notes:
        ctx.violation("real processes (supporting exploration): " + n, {"kind": "real-process", "note": n})


def replay(rep):
    if rep.get("kind") in ("real-hang-boot", "real-idle-keepalive"):
        class C:                                   # a minimal stand-in for the context: collect violations
            def __init__(self):
                self.v, self.broken = [], []
            def quick(self): return False
            def count_case(self, *a, **k): pass
            def hist(self, *a, **k): pass
            def violation(self, what, rep, key=None): self.v.append(what)
        c = C()
        (real_hang_during_boot if rep["kind"] == "real-hang-boot" else real_idle_with_keepalive)(c)
        print("failures:", c.v, c.broken)
        return 1 if c.v else 0
    if rep.get("kind") == "real-process":
        print("real-process observation (not replayable in-process):", rep.get("note"))
        return 1
    sc = rep["scenario"]
    for s in sc["slots"]:
        if s.get("events") is not None:
            s["events"] = [tuple(e) for e in s["events"]]
    w = run_scenario(sc)
    print("signals delivered (pid, sig, tick):", [(p, s, t - L.MONO0) for p, s, t in w.all_delivered])
    print("forks:", [(p, t - L.MONO0) for p, m, t in w.forks])
    fs = judge(sc, w)
    print("oracle failures:", fs)
    return 1 if fs else 0
