"""C09 - application-supplied status and headers cannot split or forge a response.

Alphabet sweep: every code point 0-255 plus samples above, at the start / in the middle / at the end of the
status, of a header name and of a header value (and of a Content-Length value, which goes through int()),
every hop-by-hop name in several spellings, second / late start_response calls with and without exc_info.
Each case is served by a real worker over a socketpair.  Step 3 compares wire bytes, ending, sent and status
with Model/Response.v; step 4 judges the raw head bytes at the client end line by line.
"""
import json

import vlib
import lib_resp as L

DATE = "Thu, 01 Oct 2026 21:13:00 GMT"
ABOVE = [256, 257, 0x130, 0x17f, 0x212a, 0x2028, 0x2029, 0x3000, 0xff10, 0x660, 0xfffd, 0xffff, 0x10000, 0x10ffff]
WS = {"nr": 0, "max_requests": 1000, "alive": True, "keepalive": True, "keep_full": False, "sendfile": True}
RFC_HOP = {"connection", "keep-alive", "proxy-authenticate", "proxy-authorization", "te", "trailers", "transfer-encoding", "upgrade"}
SERVER_OWN_OPTIONAL = {"server", "date"}          # gunicorn also keeps these two for itself
TCHARS = set("!#$%&'*+-.^_`|~0123456789abcdefghijklmnopqrstuvwxyzABCDEFGHIJKLMNOPQRSTUVWXYZ")


def mkcase(worker, acts, end=("done",), minor=1, method="GET", conn=("close",), split=None, raise_in_call=False):
    app = {"acts": acts, "end": list(end), "split": len(acts) if split is None else split}
    if raise_in_call:
        app["raise_in_call"] = True
    return {"worker": worker, "ws": dict(WS), "date": DATE,
            "reqs": [{"req": {"major": 1, "minor": minor, "method": method, "conn": list(conn), "te_gzip": False}, "app": app},
                     L.sentinel()]}


def place(base, ch, pos):
    if pos == "start":
        return ch + base
    if pos == "end":
        return base + ch
    m = len(base) // 2
    return base[:m] + ch + base[m:]


def sweep_cases(rng):
    cases = []
    workers = ["sync", "gthread", "async"]
    k = 0
    cps = list(range(256)) + ABOVE
    for cp in cps:
        ch = chr(cp)
        for pos in ("start", "middle", "end"):
            wk = workers[k % 3]
            k += 1
            body = [["w", "hello"]]
            cases.append(mkcase(wk, [["sr", place("200 OK", ch, pos), [["X-A", "b"]], False]] + body, split=1))
            cases.append(mkcase(wk, [["sr", "200 OK", [["X-A", "b"], [place("X-Name", ch, pos), "v"], ["X-Z", "z"]], False]] + body, split=1))
            cases.append(mkcase(wk, [["sr", "200 OK", [["X-A", "b"], ["X-Val", place("some value", ch, pos)], ["X-Z", "z"]], False]] + body, split=1))
        for pos in ("start", "end"):
            wk = workers[k % 3]
            k += 1
            cases.append(mkcase(wk, [["sr", "200 OK", [["Content-Length", place("5", ch, pos)]], False], ["w", "hello world"]], split=1,
                                conn=[] if cp % 2 else ["close"]))
        # a single character as the whole status / name / value
        wk = workers[k % 3]
        cases.append(mkcase(wk, [["sr", ch, [], False], ["w", "x"]], split=1))
        cases.append(mkcase(wk, [["sr", "200 OK", [[ch, "v"]], False], ["w", "x"]], split=1))
        cases.append(mkcase(wk, [["sr", "200 OK", [["X", ch]], False], ["w", "x"]], split=1))
        # the status code digits with the character between them: int() and split() semantics
        cases.append(mkcase(wk, [["sr", "20" + ch + "4 x", [], False], ["w", ""]], split=1, minor=cp % 2, conn=["keep-alive"] if cp % 3 else []))
    return cases


def hop_cases():
    cases = []
    names = sorted(RFC_HOP | SERVER_OWN_OPTIONAL | {"content-length", "keep-alive ", " te", "te\t", "upgrade\xa0", "x-connection", "connection-x",
                                                     "proxy-connection", "transfer_encoding", "transferencoding"})
    k = 0
    for n in names:
        for sp in (n, n.upper(), n.title(), n.capitalize()):
            for v in ("x", "chunked", "close", "keep-alive", "upgrade", "websocket", "WebSocket", " Upgrade ", "5"):
                wk = ["sync", "gthread", "async"][k % 3]
                k += 1
                cases.append(mkcase(wk, [["sr", "200 OK", [["X-A", "1"], [sp, v], ["X-Z", "2"]], False], ["w", "hello"]], split=1,
                                    conn=[] if k % 2 else ["close"], minor=(k // 2) % 2))
    # Connection: upgrade together with Upgrade: websocket, both orders
    for wk in ("sync", "gthread", "async"):
        for hs in ([["Connection", "Upgrade"], ["Upgrade", "websocket"]], [["Upgrade", "websocket"], ["Connection", "upgrade"]],
                   [["Connection", "upgrade"], ["Upgrade", "h2c"]], [["Connection", "upgrade, close"]]):
            for minor in (0, 1):
                for conn in ([], ["close"], ["keep-alive"]):
                    cases.append(mkcase(wk, [["sr", "101 Switching Protocols", hs, False], ["w", ""]], split=1, minor=minor, conn=conn))
                    cases.append(mkcase(wk, [["sr", "abc", hs, False], ["w", "x"]], split=1, minor=minor, conn=conn))
    # an upgraded connection does not turn the other hop-by-hop fields into forwardable ones: each of them AFTER (and before)
    # Connection: upgrade in the same list, with and without the websocket Upgrade field
    others = [["Transfer-Encoding", "gzip, chunked"], ["Keep-Alive", "timeout=5"], ["Date", "Thu, 01 Jan 1970 00:00:00 GMT"],
              ["Server", "upstream/1.0"], ["Proxy-Authenticate", "Basic realm=x"], ["TE", "trailers"], ["Trailers", "X-T"],
              ["Proxy-Authorization", "x"], ["Upgrade", "h2c"]]
    k = 0
    for o in others:
        for up in ([], [["Upgrade", "websocket"]]):
            for first in (True, False):
                hs = ([["Connection", "upgrade"]] + up + [o, ["X-App", "1"]]) if first else ([o] + up + [["Connection", "Upgrade"], ["X-App", "1"]])
                wk = ["sync", "gthread", "async"][k % 3]
                k += 1
                cases.append(mkcase(wk, [["sr", "101 Switching Protocols", hs, False], ["w", ""]], split=1, minor=1, conn=[]))
                cases.append(mkcase(wk, [["sr", "200 OK", hs, False], ["w", "hello"]], split=1, minor=1, conn=[] if k % 2 else ["keep-alive"]))
    for wk in ("sync", "gthread", "async"):
        hs = [["Connection", "upgrade"], ["Upgrade", "websocket"]] + others[:5] + [["X-App", "1"]]
        cases.append(mkcase(wk, [["sr", "101 Switching Protocols", hs, False], ["w", ""]], split=1, minor=1, conn=[]))
    return cases


def second_call_cases(rng):
    cases = []
    good1 = ["sr", "200 OK", [["Content-Length", "3"], ["X-First", "1"], ["Connection", "upgrade"]], False]
    alts = [("500 Oops", [["Content-Length", "5"], ["X-Second", "2"]]),
            ("500 Oops\r\nX-Inj: 1", [["X-Second", "2"]]),
            ("500 Oops", [["X-Second", "2\r\nX-Inj: 1"]]),
            ("500 Oops", [["X Second", "2"]]),
            ("500 \x00", []),
            ("500 Ā", []),
            ("", []),
            ("500 Oops", [])]
    for wk in ("sync", "gthread", "async"):
        for minor in (0, 1):
            for conn in ([], ["close"], ["keep-alive"]):
                for st, hs in alts:
                    for exc in (True, False):
                        second = ["sr", st, hs, exc]
                        # before any output
                        cases.append(mkcase(wk, [good1, second, ["w", "hello"]], split=2, minor=minor, conn=conn))
                        cases.append(mkcase(wk, [good1, second, ["w", "hello"]], split=1, minor=minor, conn=conn))
                        # after the head was sent (by write() inside the call, or by a yielded item)
                        cases.append(mkcase(wk, [good1, ["w", "ab"], second, ["w", "c"]], split=3, minor=minor, conn=conn))
                        cases.append(mkcase(wk, [good1, ["w", "ab"], second, ["w", "c"]], split=1, minor=minor, conn=conn))
                        # after an empty write (head sent, no body byte yet)
                        cases.append(mkcase(wk, [good1, ["w", ""], second, ["w", "abc"]], split=1, minor=minor, conn=conn))
                        # third call
                        cases.append(mkcase(wk, [good1, ["sr", "404 Not Found", [["X-Mid", "m"]], True], second, ["w", "abc"]], split=3, minor=minor, conn=conn))
                # no start_response at all before the first item; start_response after output
                cases.append(mkcase(wk, [["w", "abc"]], split=0, minor=minor, conn=conn))
                cases.append(mkcase(wk, [["w", "abc"], ["sr", "200 OK", [["X-Late", "1"]], False], ["w", "def"]], split=0, minor=minor, conn=conn))
                cases.append(mkcase(wk, [["w", ""], ["sr", "200 OK\r\nX: y", [], False]], split=0, minor=minor, conn=conn))
                cases.append(mkcase(wk, [], minor=minor, conn=conn))
                cases.append(mkcase(wk, [], end=("raise",), minor=minor, conn=conn))
                cases.append(mkcase(wk, [good1], end=("raise",), minor=minor, conn=conn, raise_in_call=True))
    return cases


def caught_refusal_cases():
    """The application catches the refusal of a start_response call (try / except around it) and reports the failure with
    start_response(..., exc_info) - the PEP 3333 error idiom.  Nothing of the refused call may reach the client.
    Oracle only: Model/Response.v has no action for an exception caught inside the application."""
    cases = []
    bads = [[["Set-Cookie", "secret=of-the-refused-call"], ["Content-Type", "application/json"], ["Bad Name", "x"]],
            [["X-Trace", "of-the-refused-call"], ["Content-Length", "77"], ["X-V", "a\r\nb"]],
            [["Upgrade", "websocket"], ["Connection", "upgrade"], ["X-N\x00", "v"]],
            [["X-Only", "refused"], ["X", "\u0100"]]]
    goods = [("500 Internal Server Error", [["Content-Type", "text/plain"], ["Content-Length", "5"]]),
             ("500 Oops", [["X-Second", "2"]]),
             ("503 Later", [])]
    for wk in ("sync", "gthread", "async"):
        for minor in (0, 1):
            for conn in ([], ["keep-alive"]):
                for bad in bads:
                    for st, hs in goods:
                        first = ["srt", "200 OK", bad, False]
                        for split in (1, 2, 3):
                            c = mkcase(wk, [first, ["sr", st, hs, True], ["w", "error"]], split=split, minor=minor, conn=conn)
                            c["oracle_only"] = True
                            cases.append(c)
                        # a refused replacement, caught, then a good one
                        c = mkcase(wk, [["sr", "200 OK", [["Content-Length", "3"], ["X-First", "1"]], False],
                                        ["srt", "500 A", bad, True], ["sr", st, hs, True], ["w", "error"]], split=3, minor=minor, conn=conn)
                        c["oracle_only"] = True
                        cases.append(c)
    # the refused part is the STATUS (CR / LF / NUL in it): caught, and the application goes on - with a proper call, or with
    # nothing but its body
    bad_statuses = ["200 Hello x\r\nSet-Cookie: session=forged-by-status", "200 OK\nX-Injected: by-the-status", "302 Found\rLocation: http://evil.example/",
                    "200 O\x00K-with-a-NUL-inside"]
    for wk in ("sync", "gthread", "async"):
        for minor in (0, 1):
            for bst in bad_statuses:
                for hs in ([], [["Content-Type", "text/plain"], ["X-Of-The-Refused-Call", "yes-it-is"]]):
                    for follow in (None, ("200 OK", [["Content-Length", "5"]]), ("500 Oops", [["X-Second", "2"]])):
                        acts = [["srt", bst, hs, False]]
                        if follow is not None:
                            acts.append(["sr", follow[0], follow[1], False])
                        acts.append(["w", "error"])
                        c = mkcase(wk, acts, split=1, minor=minor, conn=[])
                        c["oracle_only"] = True
                        cases.append(c)
    return cases


def random_cases(rng, n):
    cases = []
    alphabet = [chr(c) for c in (0, 9, 10, 13, 32, 58, 44, 127, 133, 160, 255, 256, 0x2028)] + list("aZ09-_ :;,\"")
    for _ in range(n):
        def text(base):
            s = list(base)
            for _ in range(rng.choice([0, 1, 1, 2])):
                s.insert(rng.randrange(len(s) + 1), rng.choice(alphabet) if rng.random() < 0.7 else chr(rng.randrange(256)))
            return "".join(s)
        hs = [[text(rng.choice(["X-A", "Content-Type", "Server", "Connection", "Content-Length", "Set-Cookie"])),
               text(rng.choice(["v", "text/html", "close", "12", "a=b"]))] for _ in range(rng.choice([0, 1, 2, 3]))]
        acts = [["sr", text(rng.choice(["200 OK", "404 Not Found", "204 No Content"])), hs, False], ["w", rng.choice(["", "abc", "hello world!!"])]]
        cases.append(mkcase(rng.choice(["sync", "gthread", "async"]), acts, split=rng.choice([1, 2]), minor=rng.choice([0, 1]),
                            method=rng.choice(["GET", "HEAD"]), conn=rng.choice([[], ["close"], ["keep-alive"]])))
    return cases


# ------------------------------------------------------------------------------------------------
# step 4: the head on the wire, judged line by line
# ------------------------------------------------------------------------------------------------

def bad_text(s):
    return any(c in s for c in "\r\n\x00")


def refusable(a):
    """this start_response call carries text the property says must be refused"""
    _, status, hdrs, _ = a
    if bad_text(status):
        return True
    for n, v in hdrs:
        if bad_text(n) or bad_text(v) or n == "" or any(c not in TCHARS for c in n):
            return True
    return False


def unencodable(a):
    return any(ord(c) > 255 for c in a[1]) or any(ord(c) > 255 for n, v in a[2] for c in n + v)


def judge(case, outs, info):
    """PEP 3333 reference reading of the program + the property.  Returns failure descriptions."""
    fails = []
    if not outs:
        return ["the application was not called"]
    o = outs[0]
    wire = o["wire"]
    app = case["reqs"][0]["app"]
    rq = case["reqs"][0]["req"]
    # 1. a call that must be refused as the very first action: no byte, exception to handle_error
    if case.get("oracle_only"):
        return judge_caught(case, o)
    first = app["acts"][0] if app["acts"] else None
    if first is not None and first[0] == "sr" and (refusable(first) or unencodable(first)):
        if wire:
            fails.append("bytes were sent although the first start_response call had to be refused: %r" % wire[:200])
        if o["ended"][0] != 2:
            fails.append("a refusable start_response call did not raise before any byte (ended=%r)" % (o["ended"],))
        return fails
    # 1b. refused text never reaches the wire, in any position
    for a in app["acts"]:
        if a[0] == "sr" and (refusable(a) or unencodable(a)):
            for piece in [a[1]] + [x for n, v in a[2] for x in (n, v)]:
                if bad_text(piece) or any(ord(c) > 255 for c in piece):
                    enc = piece.encode("latin-1", "ignore")
                    if len(enc) >= 3 and enc in wire:
                        fails.append("text of a refusable start_response call is on the wire: %r" % piece)
    if not wire:
        return fails
    # 2. the head, line by line
    hl = L.head_lines(wire)
    if hl is None:
        return ["the bytes sent contain no complete head: %r" % wire[:200]]
    lines, _rest = hl
    for ln in lines:
        if b"\r" in ln or b"\n" in ln or b"\x00" in ln:
            fails.append("head line with a bare CR / LF / NUL: %r" % ln)
    # which call was in effect when the head left: the last accepted one before the first body item
    eff = None
    for a in app["acts"]:
        if a[0] != "sr":
            break
        if refusable(a) or unencodable(a):
            break
        if eff is not None and not a[3]:
            break
        eff = a
    if eff is None:
        # no start_response before the first item: whatever the server does, the lines must be its own
        status_ok = lines[0].startswith(b"HTTP/%d.%d " % (rq["major"], rq["minor"]))
        if not status_ok:
            fails.append("status line %r" % lines[0])
        own = lines[1:]
        app_lines = []
    else:
        want0 = ("HTTP/%d.%d %s" % (rq["major"], rq["minor"], eff[1])).encode("latin-1")
        if lines[0] != want0:
            fails.append("status line %r, expected %r" % (lines[0], want0))
        own = lines[1:]
        app_lines = eff[2]
    # the server's own lines: Server, Date, Connection, [Transfer-Encoding: chunked]
    k = 0
    if len(own) >= 3 and own[0].startswith(b"Server: ") and own[1].startswith(b"Date: ") and \
            own[2] in (b"Connection: close", b"Connection: keep-alive", b"Connection: upgrade"):
        k = 3
        if len(own) > 3 and own[3] == b"Transfer-Encoding: chunked":
            k = 4
    else:
        fails.append("the head does not carry the server's Server/Date/Connection lines: %r" % own[:4])
    got = own[k:]
    upgrade = len(own) >= 3 and own[2] == b"Connection: upgrade"
    # one line per accepted application header, in order; hop-by-hop names never
    want = []
    for n, v in app_lines:
        ln = n.lower()
        line = ("%s: %s" % (n, v.strip(" \t"))).encode("latin-1")
        if ln in RFC_HOP:
            if ln == "upgrade" and v.strip(" \t").lower() == "websocket":
                want.append((line, True))          # the websocket handshake pair is the server's business (DESIGN.md 5)
            continue
        want.append((line, ln in SERVER_OWN_OPTIONAL))
    i = 0
    okm = True
    for g in got:
        while i < len(want) and want[i][0] != g and want[i][1]:
            i += 1
        if i >= len(want) or want[i][0] != g:
            okm = False
            break
        i += 1
    if okm and not all(x[1] for x in want[i:]):
        okm = False
    if not okm:
        fails.append("application header lines on the wire %r, expected exactly %r" % (got, [w[0] for w in want if not w[1]]))
    return fails


def judge_caught(case, o):
    """caught-refusal cases: the head is the server's lines + exactly the headers of the last accepted call"""
    fails = []
    wire = o["wire"]
    app = case["reqs"][0]["app"]
    rq = case["reqs"][0]["req"]
    import re as _re
    # nothing of a refused call - its status text, its headers - may be on the wire, whatever the application does next
    for a in app["acts"]:
        if a[0] == "srt":
            for seg in _re.split("[\r\n\x00]", a[1]):
                enc = seg.encode("latin-1", "ignore")
                if len(enc) >= 6 and not _re.fullmatch(rb"\d{3} [A-Za-z ]{0,24}", enc) and enc in wire:
                    fails.append("text of a refused status is on the wire: %r (the status %r was refused by start_response and the "
                                 "application caught the refusal)" % (enc, a[1]))
            for n, v in a[2]:
                enc = ("%s: %s" % (n, v)).encode("latin-1", "ignore")
                if len(enc) >= 6 and enc in wire and not any(b[0] == "sr" and [n, v] in b[2] for b in app["acts"]):
                    fails.append("a header of the refused call is on the wire: %r" % enc)
    srs = [a for a in app["acts"] if a[0] == "sr"]
    if not srs:
        return fails                 # no accepted call at all: whatever the server makes of it, it is not the application's text
    eff = srs[-1]
    hl = L.head_lines(wire)
    if hl is None:
        return fails + ["the bytes sent contain no complete head: %r" % wire[:200]]
    lines, _rest = hl
    want0 = ("HTTP/%d.%d %s" % (rq["major"], rq["minor"], eff[1])).encode("latin-1")
    if lines[0] != want0:
        fails.append("status line %r, expected %r (the call in effect)" % (lines[0], want0))
    own = lines[1:]
    k = 3
    if not (len(own) >= 3 and own[0].startswith(b"Server: ") and own[1].startswith(b"Date: ") and own[2].startswith(b"Connection: ")):
        fails.append("the head does not carry the server's Server/Date/Connection lines: %r" % own[:4])
    if len(own) > 3 and own[3] == b"Transfer-Encoding: chunked":
        k = 4
    got = own[k:]
    want = [("%s: %s" % (n, v.strip(" \t"))).encode("latin-1") for n, v in eff[2] if n.lower() not in RFC_HOP]
    if got != want:
        fails.append("after a refused start_response call that the application caught, the replacing call's head carries %r, expected exactly %r"
                     % (got, want))
    if own[2:3] == [b"Connection: upgrade"]:
        fails.append("Connection: upgrade survives from a refused start_response call")
    for a in app["acts"]:
        if a[0] == "srt":
            for n, v in a[2]:
                enc = ("%s: %s" % (n, v)).encode("latin-1", "ignore")
                if len(enc) >= 6 and enc in wire:
                    fails.append("a header of the refused call is on the wire: %r" % enc)
    return fails


def run_case(case):
    outs, info = L.run_real(case)
    return outs, info, judge(case, outs, info)


def all_cases(ctx):
    cases = sweep_cases(ctx.rng) + hop_cases() + second_call_cases(ctx.rng) + caught_refusal_cases()
    cases += random_cases(ctx.rng, 600 if ctx.quick() else 40000)
    if not ctx.quick():
        # pairs of code points in one value / status
        crit = [0, 9, 10, 13, 32, 127, 128, 133, 160, 255, 256]
        k = 0
        for a in crit:
            for b in range(256):
                wk = ["sync", "gthread", "async"][k % 3]
                k += 1
                cases.append(mkcase(wk, [["sr", "200 O" + chr(a) + chr(b) + "K", [["X", "v" + chr(b) + chr(a)]], False], ["w", "x"]], split=1))
    return cases


def run(ctx):
    ok = ctx.build()
    cases = all_cases(ctx)
    corr = []
    nfail = 0
    for case in cases:
        outs, info, fails = run_case(case)
        app = case["reqs"][0]["app"]
        ctx.count_case(json.dumps(case, sort_keys=True), True)
        ctx.hist("worker", case["worker"])
        ctx.hist("start_response_calls", sum(1 for a in app["acts"] if a[0] in ("sr", "srt")))
        if case.get("oracle_only"):
            ctx.hist("caught_refusal", case["worker"])
        if outs:
            e = outs[0]["ended"]
            ctx.hist("ended", {0: "completed", 1: "aborted-after-head", 2: "refused-before-any-byte"}[e[0]] + ("" if e[0] == 0 else "/%d" % e[1]))
        if not case.get("oracle_only"):
            corr.append((L.cq_case(case), L.impl_obs(outs), case))
        if fails:
            nfail += 1
            if len(ctx.violations) < 3:
                ctx.violation(fails[0], {"kind": "head", "case": case, "failures": fails,
                                         "observed_wire": [o["wire"].decode("latin-1") for o in outs],
                                         "observed_ended": [o["ended"] for o in outs]})
    for c in cases[:: max(1, len(cases) // 6)][:6]:
        ctx.sample({"worker": c["worker"], "request": c["reqs"][0]["req"], "app": c["reqs"][0]["app"]})
    ctx.cov["rule"] = ("alphabet sweep: every code point 0-255 and %d samples above 255 at start/middle/end of the status, a header name, a "
                       "header value (3 positions x 3 fields), at both ends of a Content-Length value, alone as the whole field, and inside "
                       "the status code; every hop-by-hop name x 4 spellings x 9 values; Connection: upgrade pairs; second/third/late "
                       "start_response calls with and without exc_info before and after the head was sent, with good and bad text; seeded "
                       "random mutations; each served by a real Sync/Thread/Async worker over a socketpair; distinct by the whole case"
                       % len(ABOVE))
    ctx.log("served %d cases on the real workers; oracle failures: %d" % (len(cases), nfail))
    bad = ctx.correspond("head", L.HEADER, corr, shard=300)
    if bad:
        i, m, im = bad[0]
        ctx.broken.append("correspondence Model/Response.v vs gunicorn start_response/process_headers/send_headers: %d of %d cases differ; first: %s model=%r impl=%r"
                          % (len(bad), len(corr), json.dumps(corr[i][2])[:1200], m[:80], im[:80]))
        ctx.log("CORRESPONDENCE: %d cases differ, e.g. %s" % (len(bad), json.dumps(corr[i][2])[:1000]))
        ctx.log("  model=%r" % (m[:300],))
        ctx.log("  impl =%r" % (im[:300],))
    if (not ok or bad or bad is None) and not ctx.violations:
        search(ctx)


def search(ctx):
    """Failing-input search: pairs of code points and more mutations, oracle only."""
    ctx.log("failing-input search (head oracle only) ...")
    tried = 0
    crit = [10, 13, 0, 9, 32, 58, 127, 133, 160, 255, 256, 0x2028]
    cases = []
    for a in crit:
        for b in crit:
            for f in range(3):
                s = "200 O" + chr(a) + chr(b) + "K" if f == 0 else "200 OK"
                n = "X" + chr(a) + chr(b) + "N" if f == 1 else "X-N"
                v = "v" + chr(a) + chr(b) + "w" if f == 2 else "v"
                for wk in ("sync", "gthread", "async"):
                    cases.append(mkcase(wk, [["sr", s, [[n, v]], False], ["w", "x"]], split=1))
    cases += random_cases(ctx.rng, 20000)
    for case in cases:
        try:
            outs, info, fails = run_case(case)
        except Exception:
            continue
        tried += 1
        if fails:
            ctx.violation(fails[0], {"kind": "head", "case": case, "failures": fails,
                                     "observed_wire": [o["wire"].decode("latin-1") for o in outs],
                                     "observed_ended": [o["ended"] for o in outs]})
            break
    ctx.extra["search_cases"] = tried


def replay(rep):
    case = rep["case"]
    outs, info, fails = run_case(case)
    print("request:", json.dumps(case["reqs"][0]["req"]))
    print("app:", json.dumps(case["reqs"][0]["app"]))
    for o in outs:
        print("wire: %r" % o["wire"])
        print("ended=%r sent=%r status=%r" % (o["ended"], o["sent"], o["status"]))
    print("oracle failures:", fails)
    return 1 if fails else 0
