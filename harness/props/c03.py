"""C03 - the master keeps exactly the configured number of live workers.

The REAL gunicorn.arbiter.Arbiter.run() executes in-process against the simulated kernel of lib_arbiter
(os.fork returns fresh pids, the child branch is never taken; SIGCHLD = the real handle_chld called at a
chosen yield point).  A case = (configuration, schedule).  Every schedule is followed by the canonical fair
tail (told workers exit, SIGCHLD delivered, healthy workers notify) so that the end-state predicates of the
property can be judged directly on the real objects; the executed schedule is replayed on Model/Arbiter.v
by the Coq kernel and the observation after every master / SIGCHLD step is compared."""
import signal

import lib_arbiter as L
import vlib

SIG = {n: int(getattr(signal, "SIG" + n)) for n in "HUP QUIT INT TERM TTIN TTOU USR1 USR2 WINCH ABRT KILL".split()}
# wait statuses: exit codes (<<8), fatal signals, core-dump flag (0x80|sig), real-time signals that signal.Signals cannot name
STATUSES = [0, 256, 768, 1024, 9, 15, 6, 11, 0xFF00, 134, 512, 40, 35, 63, 139, 64, 127, 2]
C03_SIGNALS = [SIG["TTIN"], SIG["TTOU"], SIG["HUP"]]

KEY_D17 = "fork-reap-race-timeout0"


# ---------------------------------------------------------------------------------------------------
# running one case on the real arbiter
# ---------------------------------------------------------------------------------------------------

def run_case(cfg, script, tail_loops=None, strict_sigchld=False):
    w = L.World(workers=cfg["workers"], timeout=cfg["timeout"], graceful=cfg["graceful_timeout"], rand=cfg.get("rand", 0.0))
    if tail_loops is None:
        tail_loops = cfg["timeout"] + 10
    w.kills_ctx = []
    w.forks_after_stop = 0
    orig_kill = w.k_kill
    orig_fork = w.k_fork

    def k_kill(pid, sig):
        a = w.arbiter
        w.kills_ctx.append((pid, int(sig), [(int(p), int(x.age)) for p, x in dict.items(a.WORKERS)], int(a.num_workers),
                            w.stopping_at is not None))
        return orig_kill(pid, sig)

    def k_fork(master):
        if w.stopping_at is not None:
            w.forks_after_stop += 1
        return orig_fork(master)
    w.k_kill = k_kill
    w.k_fork = k_fork
    st = {"num": None, "loads": 0}

    def probe(world, code):
        a = world.arbiter
        num = int(a.num_workers)
        loads = sum(1 for e in world.events if e[0] == "load_config")
        if st["num"] is not None and num == 0 and st["num"] == 1 and loads == st["loads"]:
            world.oracle_notes.append("the target went from 1 to 0 workers without a reload (TTOU must not go below 1)")
        st["num"], st["loads"] = num, loads
        if code == L.Y_SLEEP and world.stopping_at is None:
            n = dict.__len__(a.WORKERS)
            if n > num:
                world.oracle_notes.append("spawn_workers registered worker number %d although the target is %d" % (n, num))
    w.probe = probe
    # schedules with a child that is not a worker are judged with a kernel that raises SIGCHLD on deaths only
    strict_sigchld = strict_sigchld or any(l[0] == "Sp" for l in script)
    w.run(script, policy=L.make_settle(tail_loops, strict_sigchld))
    return w


def judge(cfg, w):
    """The property itself on the real end state.  Returns a list of (text, known-key-or-None)."""
    fails = []
    st = w.state()
    wp = [p for p, _, _ in st["workers"]]
    ages = [a for _, a, _ in st["workers"]]
    reaped = set(p for p, _ in w.reaps)
    # children reaped through the worker branch of reap_workers with a boot-failure exit code
    boot_reaped = [(p, s) for (p, s), rx in zip(w.reaps, w.reaps_ctx) if (s >> 8) in (3, 4) and rx != p]
    out = w.outcome[0]
    if out == "error":
        fails.append(("unexpected exception in the master: %s" % (w.outcome[1],), None))
        return fails
    # oldest-first: a TERM sent by manage_workers goes to a worker older than every worker never told to stop
    told = set()
    for pid, sig, ws, num, stopping in w.kills_ctx:
        if sig == SIG["TERM"] and not stopping:
            agemap = dict(ws)
            if pid in agemap:
                younger_untold = [p for p, a in ws if p != pid and p not in told and a < agemap[pid]]
                if younger_untold:
                    fails.append(("surplus worker %d (age %d) was told to stop while older workers %r were kept" %
                                  (pid, agemap[pid], younger_untold), None))
            told.add(pid)
        if sig in (SIG["TERM"], SIG["QUIT"], SIG["KILL"], SIG["ABRT"]):
            told.add(pid)
    for note in sorted(set(w.oracle_notes)):
        fails.append((note, None))
    if ages != sorted(ages) or len(set(ages)) != len(ages):
        fails.append(("worker ages not strictly increasing in WORKERS: %r" % (ages,), None))
    if out == "done" and boot_reaped:
        fails.append(("a worker exited with boot-failure code %d and was reaped, but the master keeps serving (respawn loop)" %
                      (boot_reaped[0][1] >> 8), None))
    elif out == "done":
        # still serving after the fair tail: converged?
        phantoms = [p for p in wp if p not in st["running"] and p not in st["zombies"]]
        problems = []
        if len(wp) != st["num_workers"]:
            problems.append("len(WORKERS)=%d but num_workers=%d" % (len(wp), st["num_workers"]))
        if sorted(wp) != sorted(st["running"]):
            problems.append("WORKERS=%r but live worker processes=%r" % (wp, st["running"]))
        if st["zombies"]:
            problems.append("unreaped children %r" % (st["zombies"],))
        if st["queue"]:
            problems.append("signals still queued %r" % (st["queue"],))
        if problems:
            key = None
            # D17 signature: every discrepancy is a tracked pid that was reaped before it was registered, timeout = 0
            if w.arbiter.timeout == 0 and phantoms and all(L.reaped_before_registration(w, p) for p in phantoms) \
                    and sorted(p for p in wp if p not in phantoms) == sorted(st["running"]) and not st["zombies"] and not st["queue"]:
                key = KEY_D17
            fails.append(("after events stopped the pool did not converge: " + "; ".join(problems), key))
    elif out == "exit":
        status = w.outcome[1]
        # the first reason decides: a boot failure reaped before the master entered stop() halts it with that code; one
        # reaped once a shutdown (TERM / INT / QUIT, or the halt of an earlier boot failure) is under way is an ordinary death
        first = [(p, s) for p, s in boot_reaped if w.stopping_at is None or w.reap_at.get(p, 0) <= w.stopping_at]
        if first:
            want = first[0][1] >> 8
            if status != want:
                fails.append(("a worker exited with boot-failure code %d but the master exited with status %r" % (want, status), None))
        elif status != 0:
            fails.append(("master exited with status %r although no boot failure was reaped before it began to stop%s" % (
                status, " (reaped while it was stopping: %r)" % (boot_reaped,) if boot_reaped else ""), None))
        if w.forks_after_stop:
            fails.append(("%d fork(s) after the master began to halt" % w.forks_after_stop, None))
    elif out == "crash":
        fails.append(("HaltServer escaped from Arbiter.run() (exit status 1 with a traceback, pid file kept): %s; boot failures reaped: %r"
                      % (w.outcome[1], boot_reaped), None))
    else:
        fails.append(("Arbiter.run() returned", None))
    return fails


# ---------------------------------------------------------------------------------------------------
# generators
# ---------------------------------------------------------------------------------------------------
# Proof/ArbiterRefute.v: d17_schedule (refuted), d22_schedule (a crash only on a tree without the `not self._stopping` test)
WITNESS_D17 = [("M",)] * 3 + [("X", 100, 0), ("C",)] + [("M",)] * 6
WITNESS_D22 = [("M",)] * 9 + [("X", 100, 768), ("X", 101, 768), ("C",), ("M",), ("C",)]

def cfg_of(workers, timeout, graceful=1, rand=0.0):
    return {"workers": workers, "timeout": timeout, "graceful_timeout": graceful, "rand": rand}


def fixed_cases():
    """Every delivery point of (child death, SIGCHLD) along a base run, for the situations the property names."""
    cases = []
    base_len = 34
    for timeout in (0, 2):
        for status in (0, 9, 256):
            for i in range(base_len):
                s = [("M",)] * i + [("Xk", 0, status), ("C",)] + [("M",)] * (base_len - i)
                cases.append((cfg_of(2, timeout), s, "delivery-point"))
        # death and handler separated
        for i in range(0, 16):
            for j in range(i, 16, 2):
                s = [("M",)] * i + [("Xk", 1, 15)] + [("M",)] * (j - i) + [("C",)] + [("M",)] * 6
                cases.append((cfg_of(2, timeout), s, "delivery-split"))
    for code in (768, 1024):
        for i in range(0, 22):
            s = [("M",)] * i + [("Xk", 0, code), ("C",)] + [("M",)] * 4
            cases.append((cfg_of(2, 2), s, "boot-failure"))
            s2 = [("M",)] * i + [("Xk", 0, code), ("Xk", 1, code), ("C",)] + [("M",)] * 3 + [("C",)] + [("M",)] * 2
            cases.append((cfg_of(3, 2), s2, "boot-failure-x2"))
    # a boot failure around a shutdown signal: before the dispatch it decides the status, afterwards it is an ordinary death
    for sg in ("TERM", "INT", "QUIT"):
        for code in (768, 1024):
            for i in range(0, 9):
                s = [("M",)] * 12 + [("S", SIG[sg])] + [("M",)] * i + [("Xk", 0, code), ("C",)] + [("M",)] * 4
                cases.append((cfg_of(2, 2), s, "stop+boot-failure"))
    for sg in ("TTIN", "TTOU", "HUP"):
        for i in range(0, 20, 1):
            s = [("M",)] * 12 + [("S", SIG[sg])] + [("M",)] * i + [("Xk", 0, 9), ("C",)] + [("M",)] * 5
            cases.append((cfg_of(2, 2), s, "signal+death"))
    # a SIGTERM swallowed by a worker that had not installed its handlers yet (between fork and Worker.init_signals the child
    # runs the master's handler, which only queues the signal): the surplus worker must be asked again on a later pass.
    # Oracle only - the kernel of Model/Arbiter.v never loses a signal.
    for nw, sg in ((3, "TTOU"), (2, "TTOU"), (2, "HUP")):
        for i in (3, 6, 10, 16):
            s = [("M",)] * 14 + [("S", SIG[sg])] + [("M",)] * i + [("LTk", 0)] + [("M",)] * 6 + [("LTk", 0)] + [("M",)] * 12
            cases.append((cfg_of(nw, 2), s, "lost-term"))
    # a child of the master that is not a worker dies in the same SIGCHLD batch as workers (SIGCHLDs coalesce: one handler run
    # has to reap them all).  Oracle only - Model/Arbiter.v knows no children but workers and masters.
    for nw in (2, 3):
        for i in (0, 3, 8):
            for status in (0, 9):
                s = [("M",)] * (14 + i) + [("Sp", status), ("Xk", 0, 9), ("Xk", 1, 15), ("C",)] + [("M",)] * 12
                cases.append((cfg_of(nw, 2), s, "stray-child"))
                s = [("M",)] * (14 + i) + [("Xk", 0, 9), ("Sp", status), ("Xk", 0, 15), ("C",)] + [("M",)] * 12
                cases.append((cfg_of(nw, 2), s, "stray-child"))
    # the queue bound: more signals than the queue holds
    cases.append((cfg_of(1, 2), [("M",)] * 8 + [("S", SIG["TTIN"])] * 8 + [("M",)] * 40, "queue-bound"))
    cases.append((cfg_of(3, 2), [("M",)] * 14 + [("S", SIG["TTOU"])] * 7 + [("M",)] * 40, "queue-bound"))
    cases.append((cfg_of(2, 0), [("M",)] * 12 + [("E", 4, 0), ("S", SIG["HUP"])] + [("M",)] * 30, "reload"))
    cases.append((cfg_of(3, 2), [("M",)] * 14 + [("E", 1, 1), ("S", SIG["HUP"])] + [("M",)] * 30, "reload"))
    cases.append((cfg_of(0, 2), [("M",)] * 5 + [("S", SIG["TTIN"])] + [("M",)] * 10, "zero-workers"))
    # the witness schedules of Props/C03.v (C03_converges_refuted, C03_boot_failure_during_halt), replayed on the implementation
    cases.append((cfg_of(2, 0, graceful=30), WITNESS_D17, "witness-D17"))
    cases.append((cfg_of(2, 30, graceful=30), WITNESS_D22, "witness-D22"))
    return cases


def gen_random(rng, maxev):
    workers = rng.choice([0, 1, 1, 2, 2, 3, 4])
    timeout = rng.choice([0, 0, 1, 2, 3])
    cfg = cfg_of(workers, timeout, graceful=rng.choice([0, 1, 2]), rand=rng.choice([0.0, 0.5]))
    nev = rng.randint(1, maxev)
    script = [("M",)] * rng.randint(0, 14)
    kind = rng.random()
    for _ in range(nev):
        x = rng.random()
        if x < 0.34:
            script.append(("Xk", rng.randrange(6), rng.choice(STATUSES if rng.random() < 0.8 else [768, 1024])))
            if rng.random() < 0.6:
                script += [("M",)] * rng.choice([0, 0, 1, 2])
                script.append(("C",))
        elif x < 0.46:
            script.append(("C",))
        elif x < 0.72:
            pool = C03_SIGNALS if kind < 0.8 else C03_SIGNALS + [SIG["USR1"], SIG["USR2"], SIG["WINCH"], SIG["TERM"], SIG["QUIT"], SIG["INT"]]
            script.append(("S", rng.choice(pool)))
        elif x < 0.80:
            script.append(("T", rng.choice([1, 64, 128, 256, 257, 512, 768])))
        elif x < 0.90:
            script.append(("Nk", rng.randrange(6)))
        else:
            script.append(("E", rng.choice([0, 1, 2, 3, 5]), rng.choice([0, 1, 2])))
        script += [("M",)] * rng.choice([0, 0, 1, 1, 2, 3, 5, 9])
    return cfg, script, "random"


def exhaustive_cases(depth):
    """thorough: every sequence over a small alphabet, one event per master step position class"""
    import itertools
    alpha = [("MM",), ("C",), ("Xk", 0, 0), ("Xk", 1, 768), ("S", SIG["TTIN"]), ("S", SIG["TTOU"]), ("S", SIG["HUP"])]
    for seq in itertools.product(alpha, repeat=depth):
        s = []
        for a in seq:
            if a[0] == "MM":
                s += [("M",)] * 3
            else:
                s.append(a)
        yield cfg_of(2, 1), [("M",)] * 2 + s, "exhaustive"


# ---------------------------------------------------------------------------------------------------

def model_case(cfg, w):
    """the scripted part as executed, then the tail as generated by the model's own fair environment"""
    return "run_obs %s %s" % (L.init_expr(cfg), L.tail_expr(cfg, w))


def describe(cfg, script):
    return {"cfg": cfg, "schedule": [list(x) for x in script]}


def run(ctx):
    ok = ctx.build()
    cases = list(fixed_cases())
    n_random = 1400 if ctx.quick() else 12000
    for _ in range(n_random):
        cases.append(gen_random(ctx.rng, 12))
    if not ctx.quick():
        for c in exhaustive_cases(5):
            cases.append(c)
    corr = []
    failures = []
    for cfg, script, tag in cases:
        w = run_case(cfg, script, strict_sigchld=(tag == "stray-child"))
        env_events = sum(1 for l in script if l[0] != "M")
        ctx.count_case((tuple(sorted(cfg.items())), tuple(script)), nontrivial=env_events >= 1 and len(w.forks) >= 1)
        ctx.hist("kind", tag)
        ctx.hist("outcome", w.outcome[0] + ("" if len(w.outcome) < 2 or w.outcome[0] != "exit" else str(w.outcome[1])))
        ctx.hist("env_events", min(env_events, 12))
        for l in script:
            if l[0] != "M":
                ctx.hist("label", l[0] if l[0] != "S" else "S%d" % l[1])
        if tag not in ("lost-term", "stray-child"):
            corr.append((model_case(cfg, w), L.flat(w.trace), (cfg, script)))
        fs = judge(cfg, w)
        if fs:
            failures.append((cfg, script, fs))
        if tag.startswith("witness-"):
            ctx.extra.setdefault("refutation_witnesses_replayed", {})[tag] = [t for t, _ in fs] or ["no longer fails on this tree"]
        if tag == "random" and env_events >= 3:
            ctx.sample(describe(cfg, script[:40]))
    ctx.cov["rule"] = ("schedules for the real Arbiter.run() on the simulated kernel: fixed corpus (a child death + SIGCHLD at every yield "
                       "point of a base run, split death/handler positions, boot failures, TTIN/TTOU/HUP with deaths, queue overflow, reload) "
                       "then seeded random schedules of <= 12 environment events {death with any status, SIGCHLD, TTIN/TTOU/HUP (+ other "
                       "signals in 20%), time, notify, config edit} between master steps; every schedule is followed by the fair tail; "
                       "non-trivial = at least one environment event and one fork; distinct by (config, schedule)")
    ctx.log("ran %d schedules on the real Arbiter; %d with oracle failures" % (len(cases), len(failures)))
    report(ctx, failures)
    bad = ctx.correspond("sched", L.HEADER, corr, shard=120)
    if bad:
        i, m, im = bad[0]
        k = next((j for j in range(min(len(m), len(im))) if m[j] != im[j]), min(len(m), len(im)))
        ctx.broken.append("correspondence Model/Arbiter.v vs gunicorn/arbiter.py: %d of %d schedules differ; first: %r (observation index %d: model %r impl %r)"
                          % (len(bad), len(corr), corr[i][2], k, m[max(0, k - 6):k + 6], im[max(0, k - 6):k + 6]))
        ctx.log("CORRESPONDENCE: %d schedules differ" % len(bad))
    if (bad or bad is None or not ok) and not ctx.violations:
        search(ctx, [corr[i][2] for i, _, _ in (bad or [])[:40]])
    if not ctx.quick():
        real_processes(ctx)
    else:
        notes = real_boot_failure(ctx)
        ctx.extra["real_process_notes"] = notes
        for n in notes:
            ctx.violation("real processes: " + n, {"kind": "real-process", "note": n})


def report(ctx, failures):
    shown = 0
    for cfg, script, fs in failures:
        for text, key in fs:
            if key is not None and ctx.known.has(ctx.prop, key):
                ctx.violation(text, {}, key=key)
                continue
            if shown >= 3:
                continue
            small = shrink(cfg, script, text_class(text))
            w = run_case(cfg, small)
            f2 = judge(cfg, w) or fs
            ctx.violation(f2[0][0], {"kind": "schedule", "cfg": cfg, "schedule": [list(x) for x in small],
                                     "executed": [list(x) for x in w.resolved], "failures": [t for t, _ in f2],
                                     "end_state": w.state(), "outcome": list(w.outcome)}, key=f2[0][1])
            shown += 1


def text_class(text):
    return text.split(":")[0][:40]


def shrink(cfg, script, cls):
    def still(cand):
        try:
            w = run_case(cfg, cand)
            return any(text_class(t) == cls for t, _ in judge(cfg, w))
        except Exception:
            return False
    return vlib.shrink_list(script, still, max_steps=250)


def search(ctx, seeds):
    """failing-input search: the oracle alone on a larger space, seeded with the disagreeing schedules"""
    ctx.log("failing-input search (oracle only) ...")
    tried = 0
    pool = []
    for cfg, script in seeds:
        pool.append((cfg, script))
        for i in range(0, len(script) + 1, 2):
            pool.append((cfg, script[:i] + [("Xk", 0, 9), ("C",)] + script[i:]))
    for _ in range(6000):
        cfg, script, _ = gen_random(ctx.rng, 14)
        pool.append((cfg, script))
    fails = []
    for cfg, script in pool:
        tried += 1
        try:
            w = run_case(cfg, script)
        except Exception:
            continue
        fs = [(t, k) for t, k in judge(cfg, w) if not (k is not None and ctx.known.has(ctx.prop, k))]
        if fs:
            fails.append((cfg, script, fs))
            break
    ctx.extra["search_schedules"] = tried
    report(ctx, fails)


def real_processes(ctx):
    """thorough tier, supporting exploration: a real master under kill -9 / TTIN / TTOU / HUP and with an application
    that cannot boot; the process table is compared with the target after every event."""
    import signal as sg
    import time
    import lib_realproc as R
    notes = []
    for cls in ("sync", "gthread"):
        srv = R.Server(workers=3, worker_class=cls, timeout=30)
        try:
            ok = srv.wait_workers(3, 15)
            steps = [("start", 3, ok)]
            live, _ = srv.workers()
            if live:
                import os
                os.kill(live[0], sg.SIGKILL)
                t = srv.wait_for(lambda: len(srv.workers()[0]) == 3 and live[0] not in srv.workers()[0] and not srv.workers()[1], 10)
                steps.append(("kill -9 one worker", 3, t))
            srv.signal(sg.SIGTTIN)
            steps.append(("TTIN", 4, srv.wait_workers(4, 10)))
            srv.signal(sg.SIGTTOU)
            time.sleep(0.3)
            srv.signal(sg.SIGTTOU)
            steps.append(("TTOU x2", 2, srv.wait_workers(2, 15)))
            before = set(srv.workers()[0])
            srv.signal(sg.SIGHUP)
            # a reload re-reads the configuration: the target is again the configured 3
            t = srv.wait_for(lambda: len(srv.workers()[0]) == 3 and not (set(srv.workers()[0]) & before) and not srv.workers()[1], 20)
            steps.append(("HUP (all workers replaced, target back to the configured 3)", 3, t))
            for what, want, t in steps:
                ctx.hist("real_process_step", "%s:%s" % (what, "ok" if t is not None else "FAILED"))
                if t is None:
                    notes.append("%s worker class: after %s the process table did not reach %d live workers (now %r)" % (cls, what, want, srv.workers()))
        finally:
            rc = srv.stop()
    notes += real_boot_failure(ctx)
    ctx.extra["real_process_notes"] = notes
    for n in notes:
        ctx.violation("real processes (supporting exploration): " + n, {"kind": "real-process", "note": n})


BOOT_FAILURES = [
    # (name, application, configuration file text or None, expected exit statuses)
    ("the import of the application raises", "bootfail:app", None, (3,)),
    ("the application object does not exist", "app:no_such_callable", None, (4,)),
    ("the post_worker_init hook raises (the last step of the boot)", "app:app",
     "def post_worker_init(worker):\n    raise RuntimeError('post_worker_init failed')\n", (3,)),
    ("the post_fork hook raises (the first step in the child)", "app:app",
     "def post_fork(server, worker):\n    raise RuntimeError('post_fork failed')\n", (3,)),
]


def real_boot_failure(ctx):
    """real processes: a worker that cannot boot, in every way the boot can fail (application import, application lookup, the
    hooks run in the child before the main loop).  One worker, and four workers failing at the same moment (the second SIGCHLD
    arrives while halt() runs): the master must exit with the boot-failure status (3 or 4), not 1, must not leave its pid file
    behind, and must not have respawned the worker over and over before it gave up."""
    import os
    import tempfile
    import lib_realproc as R
    notes = []
    quick = ctx.quick()
    for name, app, conf, want in BOOT_FAILURES:
        for nw in ((1, 4) if (conf is None and app == "bootfail:app") or not quick else (2,)):
            extra = ()
            conf_path = None
            if conf is not None:
                base = vlib.VERIF / ".build" / "scratch"
                base.mkdir(parents=True, exist_ok=True)
                fd, conf_path = tempfile.mkstemp(prefix="bootconf-", suffix=".py", dir=str(base))
                os.write(fd, conf.encode())
                os.close(fd)
                extra = ("-c", conf_path)
            srv = R.Server(workers=nw, app=app, graceful=3, extra=extra)
            try:
                srv.wait_for(lambda: srv.proc.poll() is not None, 25)
                rc = srv.proc.poll()
                pidfile_left = os.path.exists(srv.pidfile)
                boots = srv.logtext().count("Booting worker with pid")
                ctx.count_case(("real-boot-failure", name, nw), True)
                ctx.hist("real_boot_failure", "%s: workers=%d exit=%r pidfile_left=%s boots=%d" % (name, nw, rc, pidfile_left, boots))
                if rc is None:
                    notes.append("%s, %d worker(s): the master did not exit within 25 s (the worker was forked %d times: respawned "
                                 "for ever instead of stopping the server)" % (name, nw, boots))
                elif rc not in want or pidfile_left:
                    notes.append("%s, %d worker(s): master exit status %r instead of %s, pid file left: %s" % (
                        name, nw, rc, " / ".join(map(str, want)), pidfile_left))
                elif boots > 3 * nw + 2:
                    notes.append("%s, %d worker(s): the worker was forked %d times before the master stopped" % (name, nw, boots))
            finally:
                srv.stop()
                if conf_path:
                    try:
                        os.unlink(conf_path)
                    except OSError:
                        pass
    return notes


def replay(rep):
    if rep.get("kind") == "real-process":
        print("real-process observation (not replayable in-process):", rep.get("note"))
        return 1
    cfg = rep["cfg"]
    script = [tuple(x) for x in rep["schedule"]]
    w = run_case(cfg, script)
    print("outcome:", w.outcome)
    print("executed schedule:", w.resolved)
    print("end state:", w.state())
    fs = judge(cfg, w)
    print("oracle failures:", fs)
    return 1 if fs else 0
