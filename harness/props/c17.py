"""C17 - pid file: the real gunicorn.pidfile.Pidfile on a scratch directory, with a simulated
process table and crash injection between any two lines of pidfile.py, compared step by step with
Model/Pidfile.v (evaluated by the Coq kernel), and judged directly against the property."""
import errno
import os
import re
import shutil
import sys
import tempfile

import vlib

OSPIDS = [11, 12, 13]
OTHER = [77, 78]
PATHS = [0, 1, 2, 100]
OBS_PATHS = [0, 1, 2, 100, 101]
SYSCALLS = ("mkstemp", "write", "rename", "close", "chmod")


class Crash(BaseException):
    pass


class World:
    """Scratch directory + simulated process table + the os/tempfile proxies seen by pidfile.py."""

    def __init__(self, ninst, paths):
        import gunicorn.pidfile as pf
        self.pf = pf
        base = vlib.VERIF / ".build" / "scratch"
        base.mkdir(parents=True, exist_ok=True)
        self.root = tempfile.mkdtemp(prefix="c17-", dir=str(base))
        os.mkdir(os.path.join(self.root, "d"))
        self.live = set(OSPIDS[:ninst])
        self.eperm = set()
        self.cur = None           # index of the instance executing
        self.done_calls = 0
        self.fds = []
        self.paths = list(paths)
        self.insts = [pf.Pidfile(self.path_of(p)) for p in paths]
        world = self

        class OsProxy:
            def __getattr__(self, name):
                return getattr(os, name)

            def kill(self, pid, sig):
                if pid == 0 or pid in world.live:
                    return None
                if pid in world.eperm:
                    raise PermissionError(errno.EPERM, "Operation not permitted")
                raise ProcessLookupError(errno.ESRCH, "No such process")

            def getpid(self):
                return OSPIDS[world.cur]

            def open(self, path, flags, *a, **k):
                fd = os.open(path, flags, *a, **k)
                if flags & os.O_CREAT:          # a temporary file made without tempfile.mkstemp
                    world.fds.append(fd)
                    world.done_calls += 1
                return fd

            def write(self, fd, data):
                r = os.write(fd, data)
                world.done_calls += 1
                return r

            def rename(self, a, b):
                r = os.rename(a, b)
                world.done_calls += 1
                return r

            def close(self, fd):
                r = os.close(fd)
                if fd in world.fds:
                    world.fds.remove(fd)
                world.done_calls += 1
                return r

            def unlink(self, p):
                r = os.unlink(p)
                world.unlinked = True
                return r

            def chmod(self, p, m):
                r = os.chmod(p, m)
                world.done_calls += 1
                return r

        class TempProxy:
            def __getattr__(self, name):
                return getattr(tempfile, name)

            def mkstemp(self, *a, **k):
                fd, name = tempfile.mkstemp(*a, **k)
                world.fds.append(fd)
                world.done_calls += 1
                return fd, name

        # (a tree that does not import tempfile into pidfile.py makes its temporary file some other way: through os)
        self.saved = (pf.os, getattr(pf, "tempfile", None))
        pf.os = OsProxy()
        if self.saved[1] is not None:
            pf.tempfile = TempProxy()

    def close(self):
        self.pf.os = self.saved[0]
        if self.saved[1] is not None:
            self.pf.tempfile = self.saved[1]
        for fd in self.fds:
            try:
                os.close(fd)
            except OSError:
                pass
        shutil.rmtree(self.root, ignore_errors=True)

    def path_of(self, p):
        if p >= 100:
            return os.path.join(self.root, "nodir", "pid%d" % p)
        return os.path.join(self.root, "d", "pid%d" % p)

    def id_of(self, fname):
        b = os.path.basename(fname)
        return int(b[3:]) if b.startswith("pid") else -1

    def content(self, p):
        try:
            with open(self.path_of(p), "rb") as fh:
                return fh.read()
        except FileNotFoundError:
            return None

    def ntemps(self):
        return len([f for f in os.listdir(os.path.join(self.root, "d")) if not re.fullmatch(r"pid\d+", f)])

    def state(self):
        return {
            "files": {p: self.content(p) for p in OBS_PATHS},
            "temps": self.ntemps(),
            "insts": [(self.id_of(x.fname), x.pid) for x in self.insts],
        }

    # run fn() of instance i; a Crash is raised before the `crash_line`-th traced line of pidfile.py
    def call(self, i, fn, crash_line=None):
        self.cur = i
        self.done_calls = 0
        self.unlinked = False
        if crash_line is not None:
            return self.call_forked(i, fn, crash_line)
        count = [0]
        target = self.pf.__file__

        def local(frame, event, arg):
            if event == "line":
                count[0] += 1
                if crash_line is not None and count[0] > crash_line:
                    raise Crash()
            return local

        def glob(frame, event, arg):
            if frame.f_code.co_filename == target:
                return local
            return None
        res = None
        try:
            if crash_line is not None:
                sys.settrace(glob)
            try:
                v = fn()
            finally:
                sys.settrace(None)
            res = ("ok", v)
        except Crash:
            res = ("crash", self.done_calls)
        except RuntimeError:
            res = ("runtime", None)
        except Exception as e:   # anything else is unexpected and will never match the model
            res = ("exc", type(e).__name__)
        return res


def _call_forked(self, i, fn, crash_line):
    """The operation runs in a forked child that dies by os._exit before the (crash_line+1)-th traced line of pidfile.py:
    a real process death - nothing is unwound, no buffered data is flushed, no context manager runs - and the parent looks
    at what is left on disk.  When the operation completes first, the child reports its result and the instance's fields."""
    import json
    rfd, wfd = os.pipe()
    sys.stdout.flush()
    sys.stderr.flush()
    pid = os.fork()
    if pid == 0:
        try:
            os.close(rfd)
            world = self

            def report(obj):
                os.write(wfd, json.dumps(obj).encode())
                os._exit(0)
            count = [0]
            target = self.pf.__file__

            def local(frame, event, arg):
                if event == "line":
                    count[0] += 1
                    if count[0] > crash_line:
                        report(["crash", world.done_calls, world.unlinked])
                return local

            def glob(frame, event, arg):
                if frame.f_code.co_filename == target:
                    return local
                return None
            try:
                sys.settrace(glob)
                try:
                    v = fn()
                finally:
                    sys.settrace(None)
                res = ["ok", v]
            except RuntimeError:
                res = ["runtime", None]
            except BaseException as e:
                res = ["exc", type(e).__name__]
            inst = self.insts[i]
            report(res + [inst.fname, inst.pid, self.unlinked])
        finally:
            os._exit(1)
    os.close(wfd)
    data = b""
    while True:
        blk = os.read(rfd, 65536)
        if not blk:
            break
        data += blk
    os.close(rfd)
    os.waitpid(pid, 0)
    if not data:
        return ("exc", "child-died")
    obj = json.loads(data)
    if obj[0] == "crash":
        self.unlinked = bool(obj[2])
        return ("crash", obj[1])
    kind, v, fname, ipid, unl = obj
    self.insts[i].fname = fname
    self.insts[i].pid = ipid
    self.unlinked = bool(unl)
    return (kind, v)


World.call_forked = _call_forked


def enc_state(st):
    out = []
    for p in OBS_PATHS:
        out += vlib.enc_opt(vlib.enc_bytes, st["files"][p])
    out += [st["temps"]]
    out += vlib.enc_list(lambda x: [x[0]] + vlib.enc_opt(vlib.enc_int, x[1]), st["insts"])
    return out


def enc_result(r):
    kind, v = r
    if kind == "ok":
        return [0] if v is None else [1, int(v)]
    if kind == "runtime":
        return [2]
    if kind == "crash":
        return [3]
    return [8]


def py_int_text(c):
    """What int(f.read()) gives for file content c, None for ValueError."""
    try:
        return int(c.decode("utf-8"))
    except ValueError:
        return None


def run_history(ninst, paths, ops):
    """Execute a history on the real class.  Returns (trace, model_ops, oracle_failures).
    trace: list of (op, result, state_after); model_ops: the Coq op literals (crash points translated
    into completed-syscall counts as observed)."""
    w = World(ninst, paths)
    trace, mops, fails = [], [], []
    complete = set()       # complete contents legitimately written so far
    try:
        for op in ops:
            kind = op[0]
            before = w.state()
            live_before = set(w.live) | set(w.eperm)
            r = ("ok", None)
            mop = None
            if kind == "create":
                _, i, pid, crash_line = op
                complete.add(b"%d\n" % pid)
                r = w.call(i, lambda: w.insts[i].create(pid), crash_line)
                c = r[1] if r[0] == "crash" else None
                mop = "Create %d %s %s" % (i, vlib.coq_Z(pid), vlib.coq_opt(c, lambda k: "%d%%nat" % k))
            elif kind == "validate":
                _, i = op
                r = w.call(i, lambda: w.insts[i].validate())
                mop = "Validate %d" % i
            elif kind == "unlink":
                _, i = op
                r = w.call(i, lambda: w.insts[i].unlink())
                mop = "Unlink %d" % i
            elif kind == "rename":
                _, i, p, crash_line = op
                if w.insts[i].pid is None:
                    continue      # gunicorn renames only a pid file it has created
                complete.add(b"%d\n" % w.insts[i].pid)
                old_content = before["files"].get(before["insts"][i][0])
                would_unlink = (old_content is not None and before["insts"][i][1] is not None and
                                (py_int_text(old_content) if old_content != b"" else 0) == before["insts"][i][1])
                r = w.call(i, lambda: w.insts[i].rename(w.path_of(p)), crash_line)
                c = r[1] if r[0] == "crash" else None
                # killed before os.unlink ran although unlink() was going to remove the file
                early = (r[0] == "crash" and c == 0 and would_unlink and not w.unlinked)
                mop = "Rename %d %d%%N %s %s" % (i, p, vlib.coq_opt(c, lambda k: "%d%%nat" % k), vlib.coq_bool(early))
            elif kind == "foreign":
                _, p, content = op
                complete.add(content)
                with open(w.path_of(p), "wb") as fh:
                    fh.write(content)
                mop = "Foreign %d%%N %s%%N" % (p, vlib.coq_bytes(content))
            elif kind == "foreignrm":
                _, p = op
                try:
                    os.unlink(w.path_of(p))
                except FileNotFoundError:
                    pass
                mop = "ForeignRm %d%%N" % p
            elif kind == "die":
                _, pid = op
                w.live.discard(pid)
                w.eperm.discard(pid)
                mop = "Die %s" % vlib.coq_Z(pid)
            elif kind == "spawn":
                _, pid, other = op
                (w.eperm if other else w.live).add(pid)
                mop = "Spawn %s %s" % (vlib.coq_Z(pid), vlib.coq_bool(other))
            if r[0] == "crash":
                # the process is gone: a new master instance (same configured path) takes the slot
                i = op[1]
                w.insts[i] = w.pf.Pidfile(w.path_of(before["insts"][i][0]))
            after = w.state()
            trace.append((op, r, after))
            mops.append(mop)
            fails += oracle_step(op, r, before, after, live_before, complete)
    finally:
        w.close()
    return trace, mops, fails


def oracle_step(op, r, before, after, live_before, complete):
    """The property itself, judged on one real step.  Returns a list of failure descriptions."""
    fails = []
    kind = op[0]
    # (c) only complete contents ever appear under a pid-file name
    for p, c in after["files"].items():
        if c is not None and c != before["files"][p] and c not in complete:
            fails.append("partial-content: path %d holds %r after %r" % (p, c, op))
    if kind in ("create", "rename", "unlink", "validate"):
        i = op[1]
        fid, ipid = before["insts"][i]
        me = OSPIDS[i]
        if kind == "create":
            cur = before["files"].get(fid)
            w = py_int_text(cur) if cur is not None else None
            names_live_other = (w is not None and w != 0 and w != me and w in live_before)
            if names_live_other:
                if r[0] not in ("runtime", "crash") or after["files"] != before["files"]:
                    fails.append("started-over-live: pid file names live pid %r, create gave %r" % (w, r))
            elif fid < 100 and r[0] == "ok" and not (w is not None and w == me and w in live_before):
                want = b"%d\n" % op[2]
                if after["files"][fid] != want:
                    fails.append("stale-not-taken: after create the file holds %r, expected %r" % (after["files"][fid], want))
            elif fid < 100 and r[0] == "runtime" and not names_live_other and not (w == me):
                fails.append("refused-stale: create refused although the file was absent/stale (%r)" % (cur,))
            elif fid < 100 and r[0] == "runtime" and w is not None and w == me and w in live_before:
                fails.append("refused-own: create refused although the pid file names this very process (%r): a master restarted under "
                             "the pid its predecessor left in the file must take the file over" % (cur,))
            elif fid < 100 and r[0] == "exc" and not names_live_other:
                fails.append("refused-stale: create failed with %s although the pid file was absent/stale (%r) and no live process owns it"
                             % (r[1], cur))
        # (d) files of other instances: any pid-file path that vanished or changed because of this
        # instance must have carried this instance's pid (unlink) or have been stale (install)
        for p in before["files"]:
            b, a = before["files"][p], after["files"][p]
            if b == a or b is None:
                continue
            bw = py_int_text(b) if b != b"" else 0
            if a is None:
                if kind == "validate" or bw is None or bw != ipid:
                    fails.append("removed-foreign-file: path %d held %r, removed by instance with pid %r (%r)" % (p, b, ipid, op))
            else:
                if kind in ("validate", "unlink"):
                    fails.append("overwrote-in-%s: path %d %r -> %r" % (kind, p, b, a))
                elif bw is not None and bw != 0 and bw in live_before and bw != me:
                    fails.append("overwrote-live-file: path %d held live pid %r, now %r (%r)" % (p, bw, a, op))
    return fails


FOREIGN_CONTENTS = [b"", b"abc\n", b"12", b" 77 \n", b"+77\n", b"7_7\n", b"1e3\n", b"0\n", b"-5\n", b"077\n",
                    b"77\n", b"78\n", b"11\n", b"12\n", b"13\n", b"7 7\n", b"\n", b"77", b"\t78\r\n", b"_77\n", b"77_\n", b"\x1c77\n", b"77\x1f\n", b"\x0b77\x0c\n"]


def gen_history(rng, maxlen):
    ninst = rng.choice([1, 2, 2, 3])
    shared = rng.random() < 0.7
    paths = [0] * ninst if shared else [rng.choice(PATHS) for _ in range(ninst)]
    n = rng.randint(1, maxlen)
    ops = []
    for _ in range(n):
        x = rng.random()
        i = rng.randrange(ninst)
        if x < 0.30:
            crash = rng.choice([None, None, None] + list(range(0, 22)))
            ops.append(("create", i, OSPIDS[i] if rng.random() < 0.9 else rng.choice(OSPIDS), crash))
        elif x < 0.40:
            ops.append(("validate", i))
        elif x < 0.55:
            ops.append(("unlink", i))
        elif x < 0.65:
            ops.append(("rename", i, rng.choice(PATHS), rng.choice([None, None] + list(range(0, 30)))))
        elif x < 0.80:
            ops.append(("foreign", rng.choice([0, 0, 1, 2]), rng.choice(FOREIGN_CONTENTS)))
        elif x < 0.84:
            ops.append(("foreignrm", rng.choice([0, 1, 2])))
        elif x < 0.92:
            ops.append(("die", rng.choice(OSPIDS[:ninst] + OTHER)))
        else:
            ops.append(("spawn", rng.choice(OSPIDS[:ninst] + OTHER), rng.random() < 0.3))
    return ninst, paths, ops


def fixed_histories():
    """Corpus: the situations the property names, deterministic; every crash line of create."""
    hs = []
    for crash in list(range(0, 24)):
        hs.append((1, [0], [("create", 0, 11, crash), ("validate", 0)]))
        hs.append((2, [0, 0], [("create", 0, 11, None), ("die", 11), ("create", 1, 12, crash), ("unlink", 0)]))
        hs.append((1, [0], [("create", 0, 11, None), ("rename", 0, 1, crash), ("validate", 0)]))
    hs.append((2, [0, 0], [("create", 0, 11, None), ("create", 1, 12, None)]))                       # live -> refuse
    hs.append((2, [0, 0], [("create", 0, 11, None), ("die", 11), ("create", 1, 12, None)]))          # stale -> take
    hs.append((2, [0, 0], [("create", 0, 11, None), ("foreign", 0, b"12\n"), ("unlink", 0)]))        # foreign overwrite
    hs.append((2, [0, 1], [("create", 0, 11, None), ("create", 1, 12, None), ("rename", 1, 0, None)]))
    hs.append((1, [0], [("spawn", 77, True), ("foreign", 0, b"77\n"), ("create", 0, 11, None)]))     # EPERM => alive
    hs.append((1, [0], [("foreign", 0, b"garbage"), ("create", 0, 11, None), ("unlink", 0)]))
    hs.append((1, [100], [("create", 0, 11, None)]))                                                # missing directory
    hs.append((1, [0], [("foreign", 0, b""), ("unlink", 0), ("create", 0, 11, None)]))
    hs.append((1, [0], [("foreign", 0, b"11\n"), ("create", 0, 11, None), ("unlink", 0)]))           # own pid already there
    return hs


HEADER = """From Coq Require Import List NArith ZArith.
From GV Require Import Base.Enc Base.Dec Model.Pidfile.
Import ListNotations.
Open Scope Z_scope.
"""


def model_expr(ninst, paths, mops):
    init = "(init %s %s%%N %s)" % (vlib.coq_listZ(OSPIDS[:ninst]), vlib.coq_listN(paths), "[]")
    return "run_obs %s [%s]" % (init, "; ".join(mops))


def impl_obs(trace):
    out = []
    for op, r, st in trace:
        out += enc_result(r) + enc_state(st)
    return out


# ---------------------------------------------------------------------------------------------------------------------
# the arbiter's use of the pid file (gunicorn/arbiter.py is an anchor of the property): start, reload, re-exec, promotion, stop
# ---------------------------------------------------------------------------------------------------------------------
ARBITER_HISTORIES = [
    ("A", [("HUP", "A")]),
    ("A", [("HUP", "A"), ("HUP", "A")]),
    ("A", [("HUP", "A"), ("USR2", "A"), ("Stop", "A")]),
    ("A", [("USR2", "A"), ("HUP", "A"), ("Stop", "B"), ("NoticeChild", "A"), ("HUP", "A")]),
    ("B", [("HUP", "B"), ("Stop", "A"), ("NoticeParent", "B"), ("HUP", "B")]),
    ("B", [("Stop", "A"), ("NoticeParent", "B"), ("HUP", "B"), ("HUP", "B")]),
]


def arbiter_layer(ctx):
    """The real Arbiter on the simulated kernel of the C14 harness, pid file configured: after every event a live master holds
    its pid file (the configured name, or '<name>.2' while its parent lives) and leaves the other master's alone - otherwise a
    second instance started on the same path would not be refused.  Oracle only (the histories' model is C14's)."""
    from props import c14
    nbad = 0
    for unix in (True, False):
        cfg = c14.base_cfg(True, unix)
        for real, evs in ARBITER_HISTORIES:
            u = c14.run_history(cfg, real, evs)
            ctx.count_case(("arbiter-pidfile", unix, real, tuple(evs)), True)
            ctx.hist("arbiter_layer", "real master in slot %s" % real)
            for text, key in c14.judge(cfg, real, u):
                if "pid file" not in text or key is not None:
                    continue
                nbad += 1
                if nbad <= 2:
                    ctx.violation("arbiter: " + text + " - a second master started on that path is then not refused",
                                  {"kind": "arbiter-pidfile", "cfg": cfg, "real": real, "events": [list(e) for e in evs]})
    ctx.log("arbiter layer: %d histories of the real Arbiter with a pid file; %d failures" % (2 * len(ARBITER_HISTORIES), nbad))


def syscall_crash_probe(bare, stale, other_tmp):
    """The REAL Pidfile.create() in a child process that dies immediately before its k-th call into the operating system (any
    built-in of posix / io, whichever module of the standard library makes it), for k = 1, 2, ... until a child survives: after
    each death the pid file is what it was before (absent / the stale file) or complete - never anything else.  `bare`: the
    pid file is named without a directory (relative to the working directory); `other_tmp`: $TMPDIR is on another filesystem
    than the working directory (when the machine has two)."""
    import shutil as _sh
    import tempfile as _tf
    base = vlib.VERIF / ".build" / "scratch"
    base.mkdir(parents=True, exist_ok=True)
    wd = _tf.mkdtemp(prefix="c17-sys-", dir=str(base))
    tmpd = None
    out = {"bare": bare, "stale": stale, "other_tmp": False, "deaths": [], "calls": None}
    try:
        if other_tmp and os.path.isdir("/dev/shm") and os.stat("/dev/shm").st_dev != os.stat(wd).st_dev:
            tmpd = _tf.mkdtemp(prefix="gv-c17-", dir="/dev/shm")
            out["other_tmp"] = True
        name = "app.pid" if bare else os.path.join(wd, "app.pid")
        full = os.path.join(wd, "app.pid")
        # a pid that names no process: a child that has been reaped
        dead = os.fork()
        if dead == 0:
            os._exit(0)
        os.waitpid(dead, 0)
        prev = ("%d\n" % dead).encode() if stale else None
        for k in range(1, 400):
            for f in os.listdir(wd):
                os.unlink(os.path.join(wd, f))
            if prev is not None:
                with open(full, "wb") as fh:
                    fh.write(prev)
            pid = os.fork()
            if pid == 0:
                try:
                    os.chdir(wd)
                    if tmpd:
                        os.environ["TMPDIR"] = tmpd
                    _tf.tempdir = None
                    from gunicorn.pidfile import Pidfile
                    pf = Pidfile(name)
                    n = [0]

                    def prof(frame, event, arg):
                        if event == "c_call" and getattr(arg, "__module__", None) in ("posix", "io", "_io"):
                            n[0] += 1
                            if n[0] == k:
                                os._exit(77)
                    sys.setprofile(prof)
                    pf.create(4242)
                    sys.setprofile(None)
                    os._exit(0)
                except BaseException:
                    os._exit(3)
            _, st = os.waitpid(pid, 0)
            code = os.waitstatus_to_exitcode(st)
            try:
                with open(full, "rb") as fh:
                    content = fh.read()
            except FileNotFoundError:
                content = None
            if code == 0:
                out["calls"] = k - 1
                out["final"] = None if content is None else content.decode("latin-1")
                break
            if code != 77:
                out["error"] = "the child ended with status %r at k=%d" % (code, k)
                break
            if content not in (prev, b"4242\n"):
                out["deaths"].append({"before_call": k, "pid_file": None if content is None else content.decode("latin-1")})
    finally:
        _sh.rmtree(wd, ignore_errors=True)
        if tmpd:
            _sh.rmtree(tmpd, ignore_errors=True)
    return out


def unreadable_probe(mode):
    """The pid file of a LIVE master that the starting user cannot read (another user's file, mode 0600 / 000, in a directory both
    can write to): Pidfile.create() must refuse (it cannot know the file is stale) and leave the file alone.  The second instance
    is a forked child that drops to uid 65534.  -> dict"""
    import shutil as _sh
    import lib_c20 as L20
    d = L20.scratch_dir("c17-unr-")
    out = {"mode": mode}
    try:
        os.chmod(d, 0o777)
        path = os.path.join(d, "gunicorn.pid")
        live = os.getpid()
        with open(path, "w") as fh:
            fh.write("%d\n" % live)
        os.chmod(path, mode)
        r, w = os.pipe()
        pid = os.fork()
        if pid == 0:
            try:
                os.close(r)
                os.setgroups([])
                os.setresgid(65534, 65534, 65534)
                os.setresuid(65534, 65534, 65534)
                from gunicorn.pidfile import Pidfile
                try:
                    Pidfile(path).create(os.getpid())
                    os.write(w, b"created")
                except BaseException as e:
                    os.write(w, ("refused:" + type(e).__name__).encode())
            finally:
                os._exit(0)
        os.close(w)
        os.waitpid(pid, 0)
        out["second_instance"] = os.read(r, 200).decode()
        os.close(r)
        try:
            with open(path) as fh:
                out["file_after"] = fh.read()
        except OSError as e:
            out["file_after"] = "<%s>" % type(e).__name__
        out["live"] = live
    finally:
        _sh.rmtree(d, ignore_errors=True)
    return out


def unreadable_layer(ctx):
    if os.geteuid() != 0:
        ctx.extra["unreadable_layer"] = "skipped: needs root to become a second user"
        return
    nbad = 0
    for mode in (0o600, 0o000, 0o200):
        res = unreadable_probe(mode)
        ctx.count_case(("unreadable-pidfile", mode), True)
        ctx.hist("unreadable_pidfile", "mode %03o" % mode)
        ctx.extra.setdefault("unreadable_pidfile", []).append(res)
        bad = []
        if not res.get("second_instance", "").startswith("refused"):
            bad.append("a second instance (uid 65534) was allowed to create the pid file although it exists, belongs to another user "
                       "(mode %03o, unreadable) and names the live process %d" % (mode, res.get("live", -1)))
        if res.get("file_after") != "%d\n" % res.get("live", -1):
            bad.append("the unreadable pid file of the live master %d was replaced: it now holds %r" % (res.get("live", -1), res.get("file_after")))
        for b in bad[:1]:
            nbad += 1
            ctx.violation(b, {"kind": "unreadable-pidfile", "mode": mode})
    ctx.log("unreadable pid file layer: 3 modes, second instance as another user; %d failures" % nbad)


def syscall_crash_layer(ctx):
    nbad = 0
    for bare in (False, True):
        for stale in (False, True):
            for other in (False, True):
                res = syscall_crash_probe(bare, stale, other)
                ctx.count_case(("syscall-crash", bare, stale, other), True)
                ctx.hist("syscall_crash", "%s name, %s, TMPDIR %s" % ("bare" if bare else "absolute", "stale file" if stale else "no file",
                                                                      "elsewhere" if res["other_tmp"] else "same filesystem"))
                ctx.extra.setdefault("syscall_crash", []).append(res)
                if "error" in res:
                    ctx.broken.append("syscall crash probe %r could not be carried out: %s" % ((bare, stale, other), res["error"]))
                elif res["calls"] is None:
                    ctx.broken.append("syscall crash probe %r: create() makes more than 400 system calls" % ((bare, stale, other),))
                elif res.get("final") != "4242\n":
                    nbad += 1
                    ctx.violation("Pidfile.create() returned and the pid file holds %r, not the pid" % (res.get("final"),),
                                  {"kind": "syscall-crash", "args": [bare, stale, other]})
                for d in res["deaths"][:1]:
                    nbad += 1
                    ctx.violation("a master that dies immediately before the %d-th system call of Pidfile.create() (%s pid file name, %s, "
                                  "$TMPDIR on %s) leaves the pid file as %r: neither what was there before nor the complete new content"
                                  % (d["before_call"], "bare" if bare else "absolute", "stale file present" if stale else "first start",
                                     "another filesystem" if res["other_tmp"] else "the same filesystem", d["pid_file"]),
                                  {"kind": "syscall-crash", "args": [bare, stale, other]})
    ctx.log("syscall crash layer: 8 configurations of the real Pidfile.create(), death before every system call; %d failures" % nbad)


def run(ctx):
    ok = ctx.build()
    n_random = 2000 if ctx.quick() else 50000
    maxlen = 10 if ctx.quick() else 14
    hs = fixed_histories()
    for _ in range(n_random):
        hs.append(gen_history(ctx.rng, maxlen))
    cases = []
    allfails = []
    for (ninst, paths, ops) in hs:
        trace, mops, fails = run_history(ninst, paths, ops)
        cases.append((model_expr(ninst, paths, mops), impl_obs(trace), (ninst, paths, ops)))
        nontrivial = any(o[0] in ("create", "rename") for o in ops) and len(ops) >= 2
        ctx.count_case((ninst, tuple(paths), tuple(ops)), nontrivial)
        for o in ops:
            ctx.hist("ops", o[0])
        for op, r, _ in trace:
            if op[0] in ("create", "rename"):
                ctx.hist("create_outcome", r[0] if r[0] != "crash" else "crash@%d" % r[1])
        if fails:
            allfails.append(((ninst, paths, ops), fails))
        if len(ops) >= 3:
            ctx.sample({"instances": ninst, "paths": paths, "ops": [repr(o) for o in ops]})
    ctx.cov["rule"] = ("histories of 1-%d operations {create(+crash before any line of pidfile.py), validate, rename, unlink, foreign "
                       "write/remove, process death/start} by 1-3 Pidfile instances on a scratch directory; fixed corpus first "
                       "(every crash line of create/rename), then seeded random; non-trivial = contains a create/rename and >= 2 ops; "
                       "distinct by (instances, paths, op list)" % maxlen)
    ctx.log("ran %d histories on the real Pidfile; oracle failures: %d" % (len(hs), len(allfails)))
    # step 4: the property judged on the real traces
    for (case, fails) in allfails:
        ninst, paths, ops = case
        small = vlib.shrink_list(ops, lambda cand: bool(safe_fails(ninst, paths, cand)))
        f2 = safe_fails(ninst, paths, small) or fails
        ctx.violation(f2[0], {"instances": ninst, "paths": paths, "ops": [list(map(repr_op, o)) for o in small], "failures": f2,
                              "kind": "history"}, key=None)
        break_after = 3
        if len(ctx.violations) >= break_after:
            break
    arbiter_layer(ctx)
    syscall_crash_layer(ctx)
    unreadable_layer(ctx)
    # step 3: model vs implementation
    bad = ctx.correspond("hist", HEADER, cases, shard=300)
    if bad:
        i, m, im = bad[0]
        ctx.broken.append("correspondence Model/Pidfile.v vs gunicorn/pidfile.py: %d of %d histories differ; first: %r model=%r impl=%r"
                          % (len(bad), len(cases), cases[i][2], m, im))
        ctx.log("CORRESPONDENCE: %d histories differ, e.g. %r" % (len(bad), cases[i][2]))
        # failing-input search: a larger oracle run seeded with the disagreeing histories
        if not ctx.violations:
            search(ctx, [cases[i][2] for i, _, _ in bad[:50]])
    elif not ok and not ctx.violations:
        search(ctx, [])


def repr_op(x):
    return x if not isinstance(x, bytes) else x.decode("latin-1")


def safe_fails(ninst, paths, ops):
    # drop ops that refer to instances out of range after shrinking (none do: indices are absolute)
    try:
        return run_history(ninst, paths, ops)[2]
    except Exception:
        return []


def search(ctx, seeds):
    ctx.log("failing-input search (oracle only) ...")
    tried = 0
    for (ninst, paths, ops) in seeds:
        # all crash lines for every create/rename of the disagreeing history
        for k in range(0, 30):
            ops2 = [(o[0], o[1], o[2], k) if o[0] in ("create", "rename") else o for o in ops]
            fails = safe_fails(ninst, paths, ops2)
            tried += 1
            if fails:
                small = vlib.shrink_list(ops2, lambda cand: bool(safe_fails(ninst, paths, cand)))
                ctx.violation(fails[0], {"instances": ninst, "paths": paths, "ops": [list(map(repr_op, o)) for o in small],
                                         "failures": safe_fails(ninst, paths, small) or fails, "kind": "history"})
                return
    for _ in range(20000):
        ninst, paths, ops = gen_history(ctx.rng, 12)
        fails = safe_fails(ninst, paths, ops)
        tried += 1
        if fails:
            small = vlib.shrink_list(ops, lambda cand: bool(safe_fails(ninst, paths, cand)))
            ctx.violation(fails[0], {"instances": ninst, "paths": paths, "ops": [list(map(repr_op, o)) for o in small],
                                     "failures": safe_fails(ninst, paths, small) or fails, "kind": "history"})
            return
    ctx.extra["search_histories"] = tried


def replay(rep):
    if rep.get("kind") == "unreadable-pidfile":
        res = unreadable_probe(rep["mode"])
        print(res)
        return 0 if (res.get("second_instance", "").startswith("refused") and res.get("file_after") == "%d\n" % res["live"]) else 1
    if rep.get("kind") == "syscall-crash":
        res = syscall_crash_probe(*rep["args"])
        print(res)
        return 1 if (res["deaths"] or res.get("final") != "4242\n") else 0
    if rep.get("kind") == "arbiter-pidfile":
        from props import c14
        u = c14.run_history(rep["cfg"], rep["real"], [tuple(e) for e in rep["events"]])
        fs = [t for t, k in c14.judge(rep["cfg"], rep["real"], u) if "pid file" in t and k is None]
        for e, o in u.obs:
            print(e, o)
        print("failures:", fs)
        return 1 if fs else 0
    ops = []
    for o in rep["ops"]:
        o = list(o)
        if o[0] == "foreign":
            o[2] = o[2].encode("latin-1") if isinstance(o[2], str) else o[2]
        ops.append(tuple(o))
    trace, mops, fails = run_history(rep["instances"], rep["paths"], ops)
    for op, r, st in trace:
        print(op, "->", r, st)
    print("oracle failures:", fails)
    return 1 if fails else 0
