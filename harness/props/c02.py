"""C02 - responses on the wire are correctly framed; keep-alive only when safe.

Real SyncWorker.handle / ThreadWorker.handle / AsyncWorker.handle serve generated (request, application)
sequences over a socketpair.  Step 3 compares bytes on the wire, the way every request ended,
Response.sent and Response.status with Model/Response.v (vm_compute).  Step 4 judges the property on the
real wire alone: the connection's byte stream is read by py_decode (twin of Spec/RespSpec.v, itself
cross-checked against the Coq definition on real wires) and compared with what the application produced.
"""
import json

import os

import vlib
import lib_resp as L

DATES = ["Thu, 01 Oct 2026 21:13:00 GMT", "Mon, 29 Feb 2024 00:00:00 GMT", "Sun, 06 Nov 1994 08:49:37 GMT"]

CONN_FORMS = [[], [], [], ["close"], ["keep-alive"], ["Keep-Alive"], ["Close"], ["CLOSE"], ["foo, close"], ["close, foo"],
              ["keep-alive, close"], ["close,keep-alive"], ["keep-alive", "close"], ["foo", "close"], ["foo"], ["upgrade"],
              ["keep-alive, Upgrade"], ["clos"], ["closed"], ["keep-alive,"], [",close"], ["x ,\tclose\t, y"], ["keepalive"],
              ["close\xa0"], ["\xc7lose"], ["TE, close"], ["keep-alive", "keep-alive"], ["foo", "bar"]]

GOOD_STATUS = ["200 OK", "200 OK", "200 OK", "404 Not Found", "500 Internal Server Error", "201 Created", "301 Moved Permanently",
               "200 ", "299 r\xe9ason with \t tab", "418 I'm a teapot", "599 x", "200 200 OK", "400 Bad: Request", "203 \xa0",
               # every class of status that is NOT bodiless by itself (RFC 9112 6.3: only 1xx, 204, 304 and HEAD are)
               "205 Reset Content", "205 Reset Content", "206 Partial Content", "202 Accepted", "300 Multiple Choices", "303 See Other",
               "305 x", "401 Unauthorized", "503 Service Unavailable", "214 x", "314 y"]
NOBODY_STATUS = ["204 No Content", "304 Not Modified", "204 ", "304 x"]

BENIGN_HEADERS = [("Content-Type", "text/plain"), ("X-Foo", "bar"), ("X-Foo", "  padded \t"), ("x-lower", "v"), ("X-Latin", "caf\xe9 \xff"),
                  ("Set-Cookie", "a=b; Path=/"), ("Set-Cookie", "c=d"), ("X-Empty", ""), ("X-Colon", "a: b"), ("ETag", '"abc"'),
                  ("X-Long", "v" * 70), ("!#$%&'*+-.^_`|~09azAZ", "tok"), ("Content-Lengthy", "7"), ("X-Content-Length", "9"),
                  ("Vary", "Accept-Encoding"), ("X-Sp", " "), ("Trailer", "x")]
HOP_HEADERS = [("Transfer-Encoding", "chunked"), ("transfer-encoding", "gzip"), ("Connection", "close"), ("Connection", "keep-alive"),
               ("connection", "Keep-Alive"), ("Keep-Alive", "timeout=5"), ("Server", "evil/1.0"), ("Date", "yesterday"),
               ("Upgrade", "h2c"), ("TE", "trailers"), ("Trailers", "x"), ("Proxy-Authenticate", "Basic"), ("Proxy-Authorization", "x"),
               ("CONNECTION", "x")]


def pick(rng, xs):
    return xs[rng.randrange(len(xs))]


def rand_bytes(rng, n):
    mode = rng.random()
    if mode < 0.6:
        return "".join(chr(rng.choice(b"abcxyz 0123\r\n")) for _ in range(n))
    return "".join(chr(rng.randrange(256)) for _ in range(n))


def gen_chunks(rng, empty_only=False):
    k = rng.choice([0, 1, 1, 2, 3, 4, 6])
    out = []
    for _ in range(k):
        if empty_only or rng.random() < 0.25:
            out.append("")
        else:
            n = rng.choice([1, 1, 2, 3, 5, 9, 10, 15, 16, 17, 31, 255, 256, 300])
            n = min(n, 40) if rng.random() < 0.8 else n
            out.append(rand_bytes(rng, n))
    # special shapes the chunked framing is sensitive to
    if not empty_only and rng.random() < 0.15:
        out.append(pick(rng, ["0\r\n\r\n", "\r\n", "0", "HTTP/1.1 200 OK\r\n\r\n", "5\r\nhello\r\n"]))
    return out


def gen_req(rng):
    minor = rng.choice([0, 0, 1, 1, 1, 1, 2, 9])
    method = rng.choice(["GET", "GET", "GET", "HEAD", "HEAD", "POST", "PUT", "HEADX", "OPTIONS"])
    rq = {"major": 1, "minor": minor, "method": method, "conn": list(pick(rng, CONN_FORMS)),
          "te_gzip": rng.random() < 0.04}
    if method in ("POST", "PUT"):
        rq["body"] = rng.choice(["", "abc", "x" * 20])
    return rq


sentinel = L.sentinel


def gen_headers(rng, allow_hop=True):
    hs = []
    for _ in range(rng.choice([0, 0, 1, 1, 2, 3, 5])):
        if allow_hop and rng.random() < 0.3:
            hs.append(list(pick(rng, HOP_HEADERS)))
        else:
            hs.append(list(pick(rng, BENIGN_HEADERS)))
    return hs


def gen_file(rng, want_empty=False):
    if want_empty:
        n = rng.choice([0, 0, 5])
        off = n
    else:
        n = rng.choice([0, 1, 5, 10, 16, 17, 40, 100, 255, 256, 257])
        off = rng.choice([0, 0, 0, 1, 3, n, n + 2]) if n else rng.choice([0, 0, 3])
    big = (not want_empty) and rng.random() < 0.02
    if big:
        n = rng.choice([8191, 8192, 8193, 16384, 20000])
        off = rng.choice([0, 1, 100])
        content = ["pat", n, rng.randrange(250)]
        blk = None
    else:
        content = rand_bytes(rng, n)
        blk = rng.choice([None, None, 1, 2, 3, 7, 16, 64, 8192])
    fs = {"content": content, "offset": off, "blksize": blk, "fileno": rng.random() < 0.6}
    if fs["fileno"] and rng.random() < 0.3:
        # the application read the beginning of the (buffered) file before positioning it
        fs["sniff"] = rng.choice([1, 4, 4, 16])
    if fs["fileno"] and rng.random() < 0.15:
        fs["buffered"] = False
    return fs


def gen_wb_app(rng, rq):
    """A well-behaved application (DESIGN.md section 5) for this request."""
    head_only = rq["method"] == "HEAD"
    if head_only or rng.random() < 0.12:
        status = pick(rng, NOBODY_STATUS) if (not head_only or rng.random() < 0.3) else pick(rng, GOOD_STATUS)
    else:
        status = pick(rng, GOOD_STATUS)
    nobody = head_only or status[:3] in ("204", "304")
    hdrs = gen_headers(rng)
    # never "Connection: upgrade" from a well-behaved application (hijacking is outside PEP 3333)
    use_file = rng.random() < 0.3
    if use_file:
        fs = gen_file(rng, want_empty=nobody)
        data = L.file_content(fs["content"])[fs["offset"]:]
        # write() calls before the file wrapper is returned
        writes = gen_chunks(rng, empty_only=nobody)[:2] if rng.random() < 0.3 else []
        total = len(data) + sum(len(c) for c in writes)
    else:
        writes = gen_chunks(rng, empty_only=nobody)
        total = sum(len(c) for c in writes)
    clmode = rng.choice(["none", "none", "exact", "exact", "shorter", "zero"])
    if clmode != "none":
        if clmode == "exact":
            n = total
        elif clmode == "shorter":
            n = rng.randrange(0, total + 1)
        else:
            n = 0
        if nobody and rng.random() < 0.5:
            n = rng.choice([0, 5, 100])        # HEAD / 304 may announce the length of the entity they do not send
        pos = rng.randrange(len(hdrs) + 1)
        hdrs.insert(pos, [pick(rng, ["Content-Length", "content-length", "CONTENT-LENGTH"]),
                          pick(rng, ["%d", "%d", " %d", "%d \t"]) % n])
    acts = []
    if rng.random() < 0.08:
        # an error before any output: start_response is called again with exc_info
        acts.append(["sr", pick(rng, GOOD_STATUS), gen_headers(rng) + ([["Content-Length", "3"]] if rng.random() < 0.5 else []), False])
        acts.append(["sr", status, hdrs, True])
    else:
        acts.append(["sr", status, hdrs, False])
    acts += [["w", c] for c in writes]
    app = {"acts": acts, "split": rng.randrange(1, len(acts) + 1)}
    if use_file:
        app["end"] = ["file", fs]
    else:
        app["end"] = ["done"]
    return app


WILD_STATUS = ["abc", "", " ", "\t", "99 low", "100 Continue", "101 Switching Protocols", "199 x", "2000 x", "+200 OK", "-200 x", "2_0_0 OK",
               "200", "200\xa0OK", "\xa0200 OK", "200\x85", "0200 OK", "204", "304\tx", "20 0", "OK 200", "\xb2\xb2\xb2 x", "200 OK\r\nX: y",
               "200 OK\n", "200\rOK", "200 \x00", "200 Ā", "١٢٣ OK", "200 \x7f", "200 \x1f"]
WILD_HEADERS = [("Content-Length", "abc"), ("Content-Length", ""), ("Content-Length", "-5"), ("Content-Length", "+5"), ("Content-Length", "1_0"),
                ("Content-Length", "\xa05"), ("Content-Length", "5\x85"), ("Content-Length", "5 5"), ("Content-Length", "0x10"),
                ("Content-Length", "5"), ("Content-Length", "7"), ("Content-Length", "100"), ("Content-Length", "00"),
                ("Connection", "upgrade"), ("Connection", "Upgrade"), ("connection", " UPGRADE "), ("Upgrade", "websocket"), ("Upgrade", "WebSocket"),
                ("X\r\nY", "v"), ("X Y", "v"), ("", "v"), ("X:Y", "v"), ("X-\xe9", "v"), ("X-Ā", "v"), ("X", "a\r\nb"), ("X", "a\nb"),
                ("X", "a\x00b"), ("X", "Ā"), ("X", "\x7f"), ("X", "\x01"), ("Content-Length ", "5"), (" Server", "x"), ("Server ", "x")]


def gen_wild_app(rng, rq):
    """Anything an application might do, well-behaved or not (model correspondence only)."""
    acts = []
    n = rng.choice([1, 2, 2, 3, 3, 4, 5, 6])
    for i in range(n):
        x = rng.random()
        if x < 0.45:
            status = pick(rng, GOOD_STATUS + NOBODY_STATUS) if rng.random() < 0.6 else pick(rng, WILD_STATUS)
            hdrs = gen_headers(rng)
            for _ in range(rng.choice([0, 0, 1, 1, 2])):
                hdrs.insert(rng.randrange(len(hdrs) + 1), list(pick(rng, WILD_HEADERS)))
            acts.append(["sr", status, hdrs, rng.random() < 0.4 and i > 0])
        else:
            acts.append(["w", pick(rng, gen_chunks(rng) or [""])])
    if rng.random() < 0.7 and (not acts or acts[0][0] != "sr"):
        acts.insert(0, ["sr", pick(rng, GOOD_STATUS), gen_headers(rng), False])
    app = {"acts": acts, "split": rng.randrange(0, len(acts) + 1)}
    y = rng.random()
    first_sr = next((i for i, a in enumerate(acts) if a[0] == "sr"), None)
    first_w = next((i for i, a in enumerate(acts) if a[0] == "w"), None)
    can_file = first_w is None or (first_sr is not None and first_sr < first_w)
    if y < 0.25 and can_file:
        app["end"] = ["file", gen_file(rng)]
    elif y < 0.45:
        app["end"] = ["raise"]
        app["raise_in_call"] = rng.random() < 0.5
    else:
        app["end"] = ["done"]
    return app


def gen_ws(rng):
    mx = rng.choice([1000, 1000, 1000, 1, 2, 3, 4])
    nr = rng.choice([0, 0, 1, 2, 3]) if mx < 1000 else rng.choice([0, 5])
    return {"nr": nr, "max_requests": mx, "alive": rng.random() < 0.93, "keepalive": rng.random() < 0.85,
            "keep_full": rng.random() < 0.12, "sendfile": rng.random() < 0.75}


def gen_case(rng, wild):
    worker = rng.choice(["sync", "gthread", "gthread", "async", "async"])
    reqs = []
    for _ in range(rng.choice([1, 1, 2, 2, 3])):
        rq = gen_req(rng)
        if wild and rng.random() < 0.7:
            reqs.append({"req": rq, "app": gen_wild_app(rng, rq), "wb": False})
        else:
            app = gen_wb_app(rng, rq)
            if app["end"][0] == "done" and rng.random() < 0.06:
                # a well-behaved application that fails at some point of its iteration
                k = rng.randrange(1, len(app["acts"]) + 1)
                app = {"acts": app["acts"][:k], "end": ["raise"], "split": rng.randrange(1, k + 1), "raise_in_call": rng.random() < 0.3}
                reqs.append({"req": rq, "app": app, "wb": False, "wb_fail": True})
                break
            reqs.append({"req": rq, "app": app, "wb": True})
    reqs.append(sentinel())
    return {"worker": worker, "ws": gen_ws(rng), "date": pick(rng, DATES), "reqs": reqs}


def os_error_cases():
    """Oracle only: the application fails behind the head with an OSError of its OWN (a missing file, a refused outbound connection):
    like after any other failure, nothing but (a prefix of) its output may follow the head.  (Model/Response.v has one kind of
    application failure; these are never sent to it.)"""
    cs = []
    ws = {"nr": 0, "max_requests": 1000, "alive": True, "keepalive": True, "keep_full": False, "sendfile": True}
    for wk in ("sync", "gthread", "async"):
        for cl in ([], [["Content-Length", "2000"]], [["Content-Length", "6"]]):
            for k in (1, 2):
                for exc in ("FileNotFoundError", "PermissionError", "TimeoutError", "ConnectionRefusedError"):
                    for minor in (1, 0):
                        app = {"acts": [["sr", "200 OK", [list(x) for x in cl], False]] + [["w", "abc"]] * k, "end": ["raise", exc], "split": 1}
                        rq = {"major": 1, "minor": minor, "method": "GET", "conn": [], "te_gzip": False}
                        cs.append({"worker": wk, "ws": dict(ws), "date": DATES[0], "reqs": [{"req": rq, "app": app, "wb": False}, sentinel()]})
    return cs


def fixed_cases():
    """Corpus: the combinations the property names, deterministic."""
    cs = []
    ws = {"nr": 0, "max_requests": 1000, "alive": True, "keepalive": True, "keep_full": False, "sendfile": True}

    def req(method="GET", minor=1, conn=()):
        return {"major": 1, "minor": minor, "method": method, "conn": list(conn), "te_gzip": False}

    def one(worker, rq, app, ws_=None, wb=True):
        return {"worker": worker, "ws": dict(ws_ or ws), "date": DATES[0], "reqs": [{"req": rq, "app": app, "wb": wb}, sentinel()]}
    for wk in ("sync", "gthread", "async"):
        for minor in (0, 1):
            for conn in ([], ["close"], ["keep-alive"], ["foo, close"]):
                for fileno in (True, False):
                    for sf in (True, False):
                        for content, off in (("", 0), ("abcdef", 0), ("abcdef", 6), ("abcdef", 2)):
                            for cl in (None, len(content) - off):
                                hdrs = [] if cl is None else [["Content-Length", str(cl)]]
                                app = {"acts": [["sr", "200 OK", hdrs, False]],
                                       "end": ["file", {"content": content, "offset": off, "blksize": 4, "fileno": fileno}]}
                                w2 = dict(ws)
                                w2["sendfile"] = sf
                                cs.append(one(wk, req(minor=minor, conn=conn), app, w2))
                for method in ("GET", "HEAD"):
                    for status in ("200 OK", "204 No Content", "304 Not Modified", "205 Reset Content", "305 Use Proxy", "214 Transformation"):
                        body = [] if (method == "HEAD" or status[0] == "2" and status[2] == "4" or status[0] == "3") else ["he", "", "llo"]
                        for cl in (None, sum(map(len, body))):
                            hdrs = [] if cl is None else [["Content-Length", str(cl)]]
                            app = {"acts": [["sr", status, hdrs, False]] + [["w", b] for b in body], "end": ["done"], "split": 1}
                            cs.append(one(wk, req(method, minor, conn), app))
        # worker recycling and keep-alive slots
        for mx, nr in ((1, 0), (2, 0), (2, 1), (3, 1)):
            for alive in (True, False):
                w2 = dict(ws)
                w2.update({"max_requests": mx, "nr": nr, "alive": alive})
                app = {"acts": [["sr", "200 OK", [], False], ["w", "x"]], "end": ["done"], "split": 1}
                c = one(wk, req(), app, w2)
                c["reqs"].insert(1, {"req": req(), "app": dict(app), "wb": True})
                cs.append(c)
        for ka, kf in ((False, False), (True, True)):
            w2 = dict(ws)
            w2.update({"keepalive": ka, "keep_full": kf})
            cs.append(one(wk, req(), {"acts": [["sr", "200 OK", [], False], ["w", "x"]], "end": ["done"], "split": 1}, w2))
        # big file through the default 8192 block
        for fileno in (True, False):
            app = {"acts": [["sr", "200 OK", [], False]],
                   "end": ["file", {"content": ["pat", 20000, 3], "offset": 5, "blksize": None, "fileno": fileno}]}
            cs.append(one(wk, req(), app))
        # write() before a file wrapper with a declared length; file object read from before it is wrapped
        for sf in (True, False):
            w2 = dict(ws)
            w2["sendfile"] = sf
            for conn in ([], ["close"]):
                app = {"acts": [["sr", "200 OK", [["Content-Length", "10"]], False], ["w", "hello"]],
                       "end": ["file", {"content": "0123456789ABCDEFGHIJ", "offset": 0, "blksize": None, "fileno": True}]}
                cs.append(one(wk, req(conn=conn), app, w2))
                for cl in ([], [["Content-Length", "20"]], [["Content-Length", "7"]]):
                    for off in (0, 3):
                        app = {"acts": [["sr", "200 OK", [list(x) for x in cl], False]],
                               "end": ["file", {"content": "0123456789ABCDEFGHIJKLM", "offset": off, "blksize": None, "fileno": True, "sniff": 4}]}
                        if cl and int(cl[0][1]) > 23 - off:
                            continue
                        cs.append(one(wk, req(conn=conn), app, w2))
        # failure after the head / before the head
        for k in (0, 1, 2):
            app = {"acts": [["sr", "200 OK", [], False]] + [["w", "abc"]] * k, "end": ["raise"], "split": 1}
            cs.append(one(wk, req(), app, wb=False))
            cs[-1]["reqs"][0]["wb_fail"] = True
        # second start_response
        a1 = ["sr", "200 OK", [["Content-Length", "3"], ["X-A", "1"]], False]
        a2 = ["sr", "500 Oops", [["Content-Length", "5"], ["X-B", "2"]], True]
        cs.append(one(wk, req(), {"acts": [a1, a2, ["w", "hello"]], "end": ["done"], "split": 2}))
        cs.append(one(wk, req(), {"acts": [a1, ["w", "abc"], a2], "end": ["done"], "split": 1}, wb=False))
        cs.append(one(wk, req(), {"acts": [a1, a2[:3] + [False]], "end": ["done"], "split": 2}, wb=False))
    return cs


# ------------------------------------------------------------------------------------------------
# step 4: the property judged on the real wire
# ------------------------------------------------------------------------------------------------

RFC_HOP = {b"connection", b"keep-alive", b"proxy-authenticate", b"proxy-authorization", b"te", b"trailers",
           b"transfer-encoding", b"upgrade"}


def effective_call(app):
    """status, headers of the start_response call in effect when the first byte leaves (well-behaved programs:
    one call, or calls with exc_info before any output)."""
    eff = None
    for a in app["acts"]:
        if a[0] == "sr":
            eff = a
        else:
            break
    return eff


def app_output(app):
    out = b"".join(a[1].encode("latin-1") for a in app["acts"] if a[0] == "w")
    if app["end"][0] == "file":
        fs = app["end"][1]
        out += L.file_content(fs["content"])[fs["offset"]:]
    return out


def expected_of(rq, app):
    eff = effective_call(app)
    status = eff[1].encode("latin-1")
    code = int(status[:3])
    cl = None
    fwd = []
    for n, v in eff[2]:
        ln = n.lower().encode("latin-1")
        v2 = v.strip(" \t").encode("latin-1")
        if ln == b"content-length":
            cl = int(v2)
        if ln in RFC_HOP:
            continue
        fwd.append((n.encode("latin-1"), v2, ln in (b"server", b"date")))
    out = app_output(app)
    if rq["method"] == "HEAD" or code in (204, 304):
        body = b""
    elif cl is not None:
        body = out[:cl]
    else:
        body = out
    return {"code": code, "reason": status[4:], "cl": cl, "fwd": fwd, "body": body}


def match_fields(got, fwd):
    """got: app part of the response fields; fwd: [(name, value, optional)] in order.  Every non-optional
    entry must appear, in order, and nothing else."""
    i = 0
    for f in got:
        while i < len(fwd) and (fwd[i][0], fwd[i][1]) != f and fwd[i][2]:
            i += 1
        if i >= len(fwd) or (fwd[i][0], fwd[i][1]) != f:
            return False
        i += 1
    return all(x[2] for x in fwd[i:])


def judge_conn(case, outs):
    """-> list of failure descriptions for a connection whose requests are all well-behaved."""
    fails = []
    stream = b"".join(o["wire"] for o in outs)
    served = len(outs)
    rest = stream
    for i in range(served):
        r = case["reqs"][i]
        rq, app = r["req"], r["app"]
        meth = rq["method"].encode("latin-1")
        d = L.py_decode(meth, rest)
        if d is None:
            fails.append("response %d is not a well-formed, completely framed HTTP response: %r" % (i, rest[:300]))
            return fails
        exp = expected_of(rq, app)
        if not d["sd"] and i < served - 1:
            fails.append("response %d is delimited by connection close but the connection was kept open: %d more response(s) follow"
                         % (i, served - 1 - i))
            return fails
        if d["code"] != exp["code"] or d["reason"] != exp["reason"]:
            fails.append("response %d: status %r %r, application said %r %r" % (i, d["code"], d["reason"], exp["code"], exp["reason"]))
        if (d["major"], d["minor"]) != (rq["major"], rq["minor"]):
            fails.append("response %d: version %d.%d for a %d.%d request" % (i, d["major"], d["minor"], rq["major"], rq["minor"]))
        if d["body"] != exp["body"]:
            fails.append("response %d: decoded body %r differs from the application's output %r (declared length %r)"
                         % (i, d["body"][:120], exp["body"][:120], exp["cl"]))
        # head fields: Server, Date, Connection, [Transfer-Encoding], then the application's
        names = [L.ascii_lower(n) for n, _ in d["fields"]]
        k = 4 if (len(names) > 3 and names[3] == b"transfer-encoding") else 3
        if names[:3] != [b"server", b"date", b"connection"]:
            fails.append("response %d: head does not start with Server/Date/Connection: %r" % (i, d["fields"][:4]))
        elif not match_fields(d["fields"][k:], exp["fwd"]):
            fails.append("response %d: application header fields on the wire %r, expected %r" % (i, d["fields"][k:], exp["fwd"]))
        last = (i == served - 1)
        if not last:
            # the connection was kept open after response i
            if not d["sd"]:
                fails.append("response %d is delimited by connection close but the connection was kept open" % i)
            if L.client_wants_close(rq["major"], rq["minor"], rq["conn"]):
                fails.append("connection kept open after response %d although the client asked to close (%r)" % (i, rq["conn"]))
            if not L.announces_keepalive(d):
                fails.append("connection kept open after response %d without announcing keep-alive (%r)" % (i, d["fields"][:4]))
        else:
            if d["leftover"]:
                fails.append("bytes follow the last response %d: %r" % (i, d["leftover"][:120]))
        rest = d["leftover"]
    return fails


def judge_failed_response(case, outs):
    """Connections ending in an application failure after the head: the truncated response must not read as a
    complete self-delimited response with a different body, and nothing may follow it."""
    fails = []
    i = len(outs) - 1
    r = case["reqs"][i]
    if not all(case["reqs"][j].get("wb") for j in range(i)):
        return fails
    o = outs[i]
    if not r.get("wb_fail") or o["ended"][0] != 1:
        return fails
    try:
        exp = expected_of(r["req"], r["app"])
    except ValueError:
        return fails
    d = L.py_decode(r["req"]["method"].encode("latin-1"), o["wire"])
    if d is not None and d["sd"] and exp["cl"] is None and r["req"]["method"] != "HEAD" and exp["code"] not in (204, 304):
        fails.append("response aborted by an application failure reads as a complete chunked response: %r" % o["wire"][-60:])
    return fails


def judge_nothing_after_aborted(r, o):
    """An application that fails after the head went out: whatever the worker does next, the bytes behind the
    head may only be (a prefix of) the application's own output in the announced framing - never an error
    page or anything else appended to the unfinished response."""
    app, rq = r["app"], r["req"]
    if app["end"][0] != "raise" or not any(a[0] == "w" for a in app["acts"]):
        return []
    try:
        exp = expected_of(rq, app)
    except (ValueError, TypeError):
        return []
    wire = o["wire"]
    k = wire.find(b"\r\n\r\n")
    if k < 0 or not wire.startswith(b"HTTP/"):
        return []
    # the head on the wire must be the application's response, not an error page written instead of it
    if not wire.startswith(b"HTTP/%d.%d %d" % (rq["major"], rq["minor"], exp["code"])):
        return []
    rest = wire[k + 4:]
    writes = [a[1].encode("latin-1") for a in app["acts"] if a[0] == "w"]
    nobody = rq["method"] == "HEAD" or exp["code"] in (204, 304)
    chunked = exp["cl"] is None and (rq["major"], rq["minor"]) >= (1, 1) and not nobody
    body = b"".join(writes)
    if chunked:
        # any chunking of (a prefix of) the application's output, possibly cut anywhere: sizes in either hex case, any chunk
        # boundaries - only the decoded bytes are the application's business
        data, ok, why = lenient_chunk_prefix(rest)
        if not ok:
            return ["after an application failure behind the response head, the bytes that follow are not a (truncated) chunked "
                    "stream: %s: %r" % (why, rest[:120])]
        if not body.startswith(data):
            return ["after an application failure behind the response head, bytes that are not the application's output follow: %r"
                    % data[len(os.path.commonprefix([body, data])):][:120]]
        return []
    allowed = body[:exp["cl"]] if exp["cl"] is not None else body
    if not allowed.startswith(rest):
        return ["after an application failure behind the response head, bytes that are not the application's output follow: %r"
                % rest[len(os.path.commonprefix([allowed, rest])):][:120]]
    return []


def lenient_chunk_prefix(rest):
    """decode a chunked stream that may stop anywhere -> (data decoded so far, well-formed-so-far, why not)"""
    data, pos = b"", 0
    hexd = b"0123456789abcdefABCDEF"
    while pos < len(rest):
        e = rest.find(b"\r\n", pos)
        line = rest[pos:] if e < 0 else rest[pos:e]
        size = line.split(b";", 1)[0]
        if not size.strip(b" \t") and e < 0:
            return data, True, ""
        if not size or any(c not in hexd for c in size.strip(b" \t")) or not size.strip(b" \t"):
            # an incomplete size line at the very end may stop inside the CRLF
            if e < 0 and all(c in hexd + b"\r" for c in line):
                return data, True, ""
            return data, False, "chunk-size line %r" % line[:40]
        if e < 0:
            return data, True, ""
        n = int(size.strip(b" \t"), 16)
        pos = e + 2
        if n == 0:
            tail = rest[pos:]
            if not b"\r\n".startswith(tail) and tail != b"\r\n":
                return data, False, "bytes after the last chunk: %r" % tail[:40]
            return data, True, ""
        chunk = rest[pos:pos + n]
        data += chunk
        pos += n
        if len(chunk) < n:
            return data, True, ""
        term = rest[pos:pos + 2]
        if not b"\r\n".startswith(term):
            return data, False, "chunk not followed by CRLF: %r" % term
        pos += 2
    return data, True, ""


def is_wb_conn(case, served):
    return all(case["reqs"][i].get("wb") for i in range(served))


def run_case(case):
    outs, info = L.run_real(case)
    fails = []
    if info["pre"]:
        fails.append("bytes before the first response: %r" % info["pre"][:100])
    if outs and is_wb_conn(case, len(outs)):
        if outs[-1]["ended"][0] != 0:
            fails.append("a well-behaved application ended with an exception: %r %r" % (outs[-1]["ended"], info))
        else:
            fails += judge_conn(case, outs)
    elif outs:
        fails += judge_failed_response(case, outs)
    for i, o in enumerate(outs):
        if i < len(case["reqs"]):
            fails += judge_nothing_after_aborted(case["reqs"][i], o)
    if outs and outs[-1].get("headers_sent") and info.get("handled_errors"):
        # the driver records handle_error() instead of letting it write: an error page behind a head that has
        # already gone out would be bytes that are neither this response nor the next one
        fails.append("the worker sends an error page (%s) after the head of response %d had gone out: %r"
                     % (info["handled_errors"], len(outs) - 1, outs[-1]["wire"][:80]))
    return outs, info, fails


def shrink_case(case):
    """Smaller case that still fails the oracle."""
    def fails(c):
        try:
            return bool(run_case(c)[2])
        except Exception:
            return False
    best = case
    # drop leading requests
    while len(best["reqs"]) > 2:
        cand = dict(best)
        cand["reqs"] = best["reqs"][1:]
        if fails(cand):
            best = cand
        else:
            break
    # a single request without the sentinel
    if len(best["reqs"]) >= 2:
        cand = dict(best)
        cand["reqs"] = best["reqs"][:1]
        if fails(cand):
            best = cand
    # drop headers of the first application
    r0 = best["reqs"][0]
    for ai, a in enumerate(r0["app"]["acts"]):
        if a[0] == "sr" and a[2]:
            def with_headers(hs):
                c = json.loads(json.dumps(best))
                c["reqs"][0]["app"]["acts"][ai][2] = hs
                return c
            keep = vlib.shrink_list(a[2], lambda hs: fails(with_headers(hs))) if len(a[2]) > 1 else a[2]
            if fails(with_headers(keep)):
                best = with_headers(keep)
            if fails(with_headers([])):
                best = with_headers([])
    return best


def report(ctx, case, fails):
    small = shrink_case(case)
    outs, info, f2 = run_case(small)
    if not f2:
        small, f2 = case, fails
        outs, info, _ = run_case(case)
    ctx.violation(f2[0], {"kind": "connection", "case": small, "failures": f2,
                          "observed_wire": [o["wire"].decode("latin-1") for o in outs],
                          "observed_ended": [o["ended"] for o in outs]})


def count(ctx, case, outs):
    for i, o in enumerate(outs):
        r = case["reqs"][i]
        rq, app = r["req"], r["app"]
        sentinel_req = (i == len(case["reqs"]) - 1)
        key = (case["worker"], json.dumps(case["ws"], sort_keys=True), json.dumps(rq, sort_keys=True), json.dumps(app, sort_keys=True))
        ctx.count_case(key, nontrivial=not sentinel_req)
        if sentinel_req:
            continue
        ctx.hist("worker", case["worker"])
        ctx.hist("version", "1.%d" % rq["minor"])
        ctx.hist("method", rq["method"])
        ctx.hist("producer", app["end"][0] if app["end"][0] != "file" else
                 "file/%s/%s" % ("fileno" if app["end"][1]["fileno"] else "nofileno", "sendfile" if case["ws"]["sendfile"] else "nosendfile"))
        ctx.hist("well_behaved", bool(r.get("wb")))
        ctx.hist("ended", {0: "completed-" + ("kept-open" if o["ended"][1] else "closed"), 1: "aborted-after-head", 2: "refused-before-any-byte"}[o["ended"][0]])
        w = o["wire"]
        framing = ("none" if not w else "chunked" if b"\r\nTransfer-Encoding: chunked\r\n" in w.split(b"\r\n\r\n")[0] + b"\r\n"
                   else "content-length" if b"\r\ncontent-length:" in w.split(b"\r\n\r\n")[0].lower() else "close-or-nobody")
        ctx.hist("framing", framing)



def patched_sendfile_layer(ctx):
    """The eventlet worker replaces socket.sendfile on its green sockets by gunicorn.workers.geventlet._eventlet_socket_sendfile;
    Response.sendfile() hands it (file, offset, count = what is left of the response).  Semantics of socket.sendfile: exactly
    count bytes from offset (fewer only at EOF), the number sent is returned, the file position ends at offset + sent - for
    partial sends and EAGAIN too.  Run on a scripted socket; oracle only (the worker model has no send loop)."""
    import io
    try:
        from gunicorn.workers import geventlet as ge
    except Exception as e:                              # eventlet not importable here: nothing to check
        ctx.extra["patched_sendfile"] = "not checked: %r" % (e,)
        return
    fn = getattr(ge, "_eventlet_socket_sendfile", None)
    if fn is None:
        ctx.extra["patched_sendfile"] = "gunicorn.workers.geventlet has no _eventlet_socket_sendfile"
        return

    class FakeSock:
        def __init__(self, plan):
            self.out = bytearray()
            self.plan = list(plan)                      # per send: None = everything, int = at most that many, "again" = EAGAIN

        def gettimeout(self):
            return None

        def send(self, data):
            step = self.plan.pop(0) if self.plan else None
            if step == "again":
                raise BlockingIOError(11, "try again")
            n = len(data) if step is None else max(1, min(len(data), step))
            self.out += bytes(data[:n])
            return n
    content = bytes((i * 7 + i // 251) % 256 for i in range(40000))
    nbad = 0
    sizes = [0, 1, 100, 8191, 8192, 8193, 10000, 16384, 16385, 20000, 39999, 40000]
    for fsize in (0, 5, 8192, 20000, 40000):
        data = content[:fsize]
        for offset in (0, 3, 8192):
            if offset > fsize:
                continue
            for count in [None] + [c for c in sizes if c <= fsize + 10]:
                for plan in ([], [7, "again", 100, None, 1], ["again", 4000] * 6):
                    f = io.BytesIO(data)
                    sk = FakeSock(plan)
                    try:
                        ret = fn(sk, f, offset, count)
                    except Exception as e:
                        ret = "%s: %s" % (type(e).__name__, e)
                    want = data[offset:] if not count else data[offset:offset + count]
                    ctx.count_case(("eventlet-sendfile", fsize, offset, count, len(plan)), True)
                    ctx.hist("patched_sendfile", "count=None" if count is None else "count<=8192" if count <= 8192 else "count>8192")
                    pos_ok = (f.tell() == offset + len(want)) if want else True
                    if bytes(sk.out) != want or ret != len(want) or not pos_ok:
                        nbad += 1
                        if nbad <= 2:
                            ctx.violation("eventlet worker's socket.sendfile replacement: file of %d bytes, offset %d, count %r, send plan %r: "
                                          "%d bytes went out (returned %r, file position %d), socket.sendfile sends exactly %d"
                                          % (fsize, offset, count, plan, len(sk.out), ret, f.tell(), len(want)),
                                          {"kind": "eventlet-sendfile", "fsize": fsize, "offset": offset, "count": count, "plan": plan})
    ctx.log("eventlet sendfile replacement: %d failures" % nbad)

def real_gthread_big_responses():
    """The REAL ThreadWorker.run() on a loopback listener: a response far larger than the socket buffers, produced four ways
    (Content-Length iterable, chunked iterable, write(), file wrapper), as the FIRST and as the SECOND request of a kept-alive
    connection, read by a client that pauses before it reads.  The body on the wire must be exactly the application's output.
    -> list of failures"""
    import hashlib
    import tempfile
    import time
    import lib_gthread_real as G
    block = bytes((i * 13 + 5) % 253 for i in range(65536))
    nblocks = 160                                   # 10 MiB
    total = len(block) * nblocks
    h = hashlib.sha1()
    for _ in range(nblocks):
        h.update(block)
    digest = h.hexdigest()
    tmp = tempfile.NamedTemporaryFile(prefix="c02-big-", dir=str(vlib.VERIF / ".build"))
    for _ in range(nblocks):
        tmp.write(block)
    tmp.flush()

    def app(environ, start_response):
        path = environ["PATH_INFO"]
        if path == "/small":
            start_response("200 OK", [("Content-Length", "2")])
            return [b"ok"]
        if path == "/big-cl":
            start_response("200 OK", [("Content-Length", str(total))])
            return (block for _ in range(nblocks))
        if path == "/big-chunked":
            start_response("200 OK", [("Content-Type", "application/octet-stream")])
            return (block for _ in range(nblocks))
        if path == "/big-write":
            write = start_response("200 OK", [("Content-Length", str(total))])
            for _ in range(nblocks):
                write(block)
            return []
        if path == "/big-file":
            start_response("200 OK", [("Content-Length", str(total))])
            return environ["wsgi.file_wrapper"](open(tmp.name, "rb"), 65536)
        start_response("404 Not Found", [("Content-Length", "0")])
        return []
    fails = []
    try:
        with G.RealGthread(app, threads=2, keepalive=5) as srv:
            for path in ("/big-cl", "/big-chunked", "/big-write", "/big-file"):
                for second in (False, True):
                    c = srv.connect(timeout=20)
                    what = "%s as the %s request of a connection" % (path, "second" if second else "first")
                    try:
                        if second:
                            c.sendall(b"GET /small HTTP/1.1\r\nHost: x\r\n\r\n")
                            st, hd, body, complete, err = G.read_response(c, 8)
                            if st != 200 or body != b"ok":
                                fails.append("%s: the first (small) request was not answered: %r %r" % (what, st, body[:40]))
                                continue
                            time.sleep(0.2)
                        c.sendall(("GET %s HTTP/1.1\r\nHost: x\r\n\r\n" % path).encode())
                        time.sleep(0.6)            # the send buffers fill up before the client reads
                        st, hd, body, complete, err = G.read_response(c, 30)
                        if st != 200 or not complete or len(body) != total or hashlib.sha1(body).hexdigest() != digest:
                            fails.append("%s: the application produced %d bytes, the client received status %r, %d body bytes, %s%s"
                                         % (what, total, st, len(body), "complete framing" if complete else "framing CUT SHORT",
                                            (" (%s)" % err) if err else ""))
                    except OSError as e:
                        fails.append("%s: %s" % (what, type(e).__name__))
                    finally:
                        c.close()
    finally:
        tmp.close()
    return fails


def run(ctx):
    ok = ctx.build()
    patched_sendfile_layer(ctx)
    rf = real_gthread_big_responses()
    ctx.count_case(("real-gthread-big",), True)
    ctx.hist("real_gthread_big", "4 ways x first / second request of a connection")
    ctx.log("real gthread run(): 10 MiB responses to a client that pauses before reading: %d failures" % len(rf))
    for f in rf[:2]:
        ctx.violation("real gthread worker: " + f, {"kind": "real-gthread-big"})
    import lib_battery
    lib_battery.report(ctx, "responses", "battery")
    n_rand = 2300 if ctx.quick() else 45000
    cases = fixed_cases()
    for i in range(n_rand):
        cases.append(gen_case(ctx.rng, wild=(i % 3 == 2)))
    corr = []
    twin = []
    nfail = 0
    for case in cases:
        outs, info, fails = run_case(case)
        count(ctx, case, outs)
        if len(ctx.cov["samples"]) < 6 and len(case["reqs"]) >= 2 and case["reqs"][0]["app"]["end"][0] != "raise":
            ctx.sample({"worker": case["worker"], "ws": case["ws"], "request": case["reqs"][0]["req"], "app": case["reqs"][0]["app"],
                        "wire": outs[0]["wire"][:300].decode("latin-1") if outs else None})
        corr.append((L.cq_case(case), L.impl_obs(outs), case))
        if len(twin) < 400:
            for i, o in enumerate(outs):
                if len(o["wire"]) < 500:
                    m = case["reqs"][i]["req"]["method"]
                    twin.append(("enc_resp (decode %s %s)" % (L.cq_str(m), vlib.coq_bytes(o["wire"])),
                                 L.enc_resp(L.py_decode(m.encode("latin-1"), o["wire"])), (m, o["wire"])))
        if fails:
            nfail += 1
            if len(ctx.violations) < 3:
                report(ctx, case, fails)
    nos = 0
    for case in os_error_cases():
        outs, info, fails = run_case(case)
        ctx.count_case(("os-error", json.dumps(case, sort_keys=True)), True)
        ctx.hist("application_failure", case["reqs"][0]["app"]["end"][1])
        if fails:
            nos += 1
            if len(ctx.violations) < 3:
                report(ctx, case, fails)
    ctx.log("application failures of the OSError family behind the head (oracle only): %d failures" % nos)
    # the real Date value (util.http_date is not replaced here): IMF-fixdate, i.e. the model's date parameter
    # ranges over texts without CR / LF / edge blanks as the theorems assume; judged by the wire oracle only
    import re
    fix = re.compile(rb"^(Mon|Tue|Wed|Thu|Fri|Sat|Sun), \d\d (Jan|Feb|Mar|Apr|May|Jun|Jul|Aug|Sep|Oct|Nov|Dec) \d{4} \d\d:\d\d:\d\d GMT$")
    for case in [c for c in cases if is_wb_conn(c, len(c["reqs"]))][:25]:
        outs, info = L.run_real(case, date_patch=False)
        fails = judge_conn(case, outs) if outs and outs[-1]["ended"][0] == 0 else ["well-behaved application did not complete"]
        for o in outs:
            d = L.py_decode(b"GET", o["wire"])
            dates = L.field_values(b"date", d["fields"]) if d else []
            if len(dates) != 1 or not fix.match(dates[0]):
                fails.append("Date field is not one IMF-fixdate: %r" % dates)
        ctx.hist("real_date_runs", "ok" if not fails else "fail")
        if fails and len(ctx.violations) < 3:
            ctx.violation(fails[0], {"kind": "connection", "case": case, "failures": fails, "real_date": True,
                                     "observed_wire": [o["wire"].decode("latin-1") for o in outs]})
    ctx.cov["rule"] = ("connections of 1-3 generated (request, application) pairs + a closing sentinel request, served by the real "
                       "SyncWorker/ThreadWorker/AsyncWorker.handle over a socketpair; request = version x method x Connection forms; "
                       "application = status x headers (benign, hop-by-hop, Content-Length none/exact/shorter) x producer (write() calls then "
                       "iterable with empty chunks | file wrapper over real temp files or BytesIO with offset/blksize | failure point | "
                       "second start_response) x worker state (max_requests, alive, keepalive, keep-alive slots, sendfile); two thirds "
                       "well-behaved (judged by the wire oracle), one third arbitrary (model correspondence); fixed corpus first; "
                       "non-trivial = every non-sentinel pair, distinct by (worker, worker state, request, application)")
    ctx.log("served %d connections on the real workers; oracle failures: %d" % (len(cases), nfail))
    bad = ctx.correspond("conn", L.HEADER, corr, shard=150)
    if bad:
        i, m, im = bad[0]
        ctx.broken.append("correspondence Model/Response.v vs gunicorn response path: %d of %d connections differ; first: %s model=%r impl=%r"
                          % (len(bad), len(corr), json.dumps(corr[i][2])[:1500], m[:80], im[:80]))
        ctx.log("CORRESPONDENCE: %d connections differ, e.g. %s" % (len(bad), json.dumps(corr[i][2])[:1200]))
        ctx.log("  model=%r" % (m[:400],))
        ctx.log("  impl =%r" % (im[:400],))
    badt = ctx.correspond("twin", L.HEADER, twin, shard=200)
    if badt:
        i, m, im = badt[0]
        ctx.broken.append("py_decode (oracle twin) disagrees with Spec/RespSpec.decode on %d wires; first: %r coq=%r py=%r"
                          % (len(badt), twin[i][2], m[:60], im[:60]))
    if (not ok or bad or bad is None) and not ctx.violations:
        search(ctx, [corr[i][2] for i, _, _ in (bad or [])[:40]])


def search(ctx, seeds):
    """Failing-input search: the wire oracle alone over a larger space, seeded with the disagreeing cases."""
    ctx.log("failing-input search (wire oracle only) ...")
    tried = 0
    variants = []
    for c in seeds:
        for wk in ("sync", "gthread", "async"):
            for minor in (0, 1):
                for conn in ([], ["keep-alive"], ["close"]):
                    v = json.loads(json.dumps(c))
                    v["worker"] = wk
                    for r in v["reqs"][:-1]:
                        r["req"]["minor"] = minor
                        r["req"]["conn"] = list(conn)
                        if not r.get("wb"):
                            r["app"] = gen_wb_app(ctx.rng, r["req"])
                            r["wb"] = True
                    variants.append(v)
    n = 12000 if ctx.quick() else 60000
    for k in range(len(variants) + n):
        case = variants[k] if k < len(variants) else gen_case(ctx.rng, wild=False)
        try:
            outs, info, fails = run_case(case)
        except Exception:
            continue
        tried += 1
        if fails:
            report(ctx, case, fails)
            break
    ctx.extra["search_connections"] = tried


def replay(rep):
    if rep.get("kind") == "battery":
        import lib_battery
        return lib_battery.replay(rep)
    if rep.get("kind") == "real-gthread-big":
        fs = real_gthread_big_responses()
        print("failures:", fs)
        return 1 if fs else 0
    if rep.get("kind") == "eventlet-sendfile":
        class C:
            extra = {}
            def __init__(self): self.v = []
            def count_case(self, *a, **k): pass
            def hist(self, *a, **k): pass
            def log(self, *a): print(*a)
            def violation(self, what, rep): self.v.append(what)
        c = C()
        patched_sendfile_layer(c)
        print("failures:", c.v)
        return 1 if c.v else 0
    case = rep["case"]
    outs, info, fails = run_case(case)
    for i, o in enumerate(outs):
        print("request %d: %s" % (i, json.dumps(case["reqs"][i]["req"])))
        print("  app: %s" % json.dumps(case["reqs"][i]["app"]))
        print("  wire: %r" % o["wire"])
        print("  ended=%r sent=%r status=%r" % (o["ended"], o["sent"], o["status"]))
    print("oracle failures:", fails)
    return 1 if fails else 0
