"""C10 - reload (HUP) replaces every worker without refusing or cutting a request.

Layers:
 1. the REAL Arbiter.run() on the simulated kernel (cfg.timeout = 0), through schedules of HUPs, configuration edits
    (workers, bind address), child deaths and SIGCHLD deliveries at every yield point; from an idle point on, the state
    is handed to Model/Reload.v and the observation after every master / SIGCHLD step is compared: pool (pid, age, WHICH
    Config object, WHICH listener objects), num_workers, worker_age, listeners, closed listeners.  Oracle on the real run:
    listener objects kept and never closed while the address is unchanged; new workers forked before any old one is
    told to stop; after the told workers have gone the pool is the new generation, in the new number, with the new
    Config.
 2. REAL master + workers under client load through one or several HUPs with a rewritten configuration file: no
    refused / reset / truncated exchange, requests in flight answered by the old worker, afterwards only new worker
    pids, the new number, the new marker.
"""
import os
import signal as _signal
import threading
import time

import lib_arbiter as L
import lib_arb2 as A
import vlib

SIG = A.SIG
KEY_WINDOW = "reload-window-death"
KEY_ACCEPTED = "accepted-not-started-dropped"
BIND_CHOICES = [["127.0.0.1:8000"], ["unix:/run/gv/r.sock"], ["127.0.0.1:8001"], ["127.0.0.1:8000", "unix:/run/gv/r2.sock"],
                # bind settings whose text is not what getsockname() reports for the bound socket
                ["localhost:8000"], ["127.0.0.1:0"], [":8002"], ["localhost:0", "unix:/run/gv/r3.sock"]]


# ---------------------------------------------------------------------------------------------------------------------
# simulated kernel
# ---------------------------------------------------------------------------------------------------------------------

class RWorld(A.World2):
    """snapshot of the state at the first idle visit of the top of the main loop; C10 observation from there on"""

    def __init__(self, **kw):
        A.World2.__init__(self, **kw)
        self.start = None
        self.start_index = None
        self.tr = []
        self.addr_ids = {}
        self.want_start = False

    def addr_id(self, binds):
        k = tuple(binds)
        if k not in self.addr_ids:
            self.addr_ids[k] = len(self.addr_ids)
        return self.addr_ids[k]

    def yield_(self, code, a=0, b=0):
        if self.in_handler or not self.active:
            return
        self.cur = (code, int(a), int(b))
        if self.pending_obs:
            self.snap()
        if self.start is None and self.want_start and code == L.Y_QLEN and list.__len__(self.arbiter.SIG_QUEUE) == 0 \
                and dict.__len__(self.arbiter.WORKERS) == int(self.arbiter.num_workers):
            self.start_index = len(self.resolved)
            self.start = self.state10()
        L.World.yield_(self, code, a, b)

    def snap(self):
        L.World.snap(self)
        if self.start is not None:
            self.tr.append(self.obs10())

    def workers10(self):
        a = self.arbiter
        out = []
        for pid, w in dict.items(a.WORKERS):
            out.append((int(pid), int(w.age), self.cfg_index(w.cfg), [self.lid(l) for l in w.sockets]))
        return out

    def state10(self):
        a = self.arbiter
        self.note_listeners()
        return {
            "workers": self.workers10(), "num": int(a.num_workers), "wage": int(a.worker_age),
            "sigq": [int(s) for s in list.__iter__(a.SIG_QUEUE)], "cfgid": self.cfg_index(a.cfg), "cfgw": int(a.cfg.workers),
            "addr": self.addr_id(a.cfg.settings["bind"].get()), "lsn": [self.lid(l) for l in a.LISTENERS],
            "kids": [(k["pid"], 1 if k["st"] == "Z" else 0, k["status"], list(k["sigs"])) for k in self.kids],
            "next_pid": self.next_pid, "next_lsn": len(self.listener_objs), "ncfg": len(self.cfgs),
            "disk_w": int(self.disk["workers"]), "disk_addr": self.addr_id(self.binds), "closed0": len(self.closed_ids),
        }

    def obs10(self):
        a = self.arbiter
        self.note_listeners()
        code, x, y = self.cur
        if code == L.Y_SLEEP:
            x = 0
        out = [code, x, y, int(a.num_workers), int(a.worker_age), list.__len__(a.SIG_QUEUE), self.cfg_index(a.cfg)]
        ls = [self.lid(l) for l in a.LISTENERS]
        out += [len(ls)] + ls + [len(self.closed_ids) - self.start["closed0"]]
        ws = self.workers10()
        out.append(len(ws))
        for pid, age, ci, lsn in ws:
            out += [pid, age, ci, len(lsn)] + lsn
        out.append(len(self.kids))
        for k in self.kids:
            out += [k["pid"], 0 if k["st"] == "R" else 1, k["status"], len(k["sigs"])]
        return out


def run_case(case):
    cfg = case["cfg"]
    w = RWorld(workers=cfg["workers"], timeout=0, graceful=1, binds=BIND_CHOICES[cfg["bind"]], rand=0.0)
    w.binds_loaded = list(w.binds)
    w.want_start = not case.get("prelude")      # prelude: the snapshot is taken after the ("START",) label of the script
    w.seq = []
    orig_kill, orig_fork = w.k_kill, w.k_fork

    def k_kill(pid, sig):
        w.events.append(("kill", pid, int(sig)))
        return orig_kill(pid, sig)

    def k_fork(master):
        pid = orig_fork(master)
        return pid
    w.k_kill = k_kill
    # binds in force are those read at the last load_config
    orig_apply = w.apply_env

    def apply_env(lab):
        orig_apply(lab)
    w.apply_env = apply_env
    try:
        w.run([tuple(x) for x in case["script"]], policy=settle_policy(case.get("tail_loops", 6)))
    finally:
        w.cleanup()
    return w


def settle_policy(loops):
    """after the script: told workers exit and are reaped at the top of the loop; a few more turns of the loop"""
    box = {"q": [], "tops": 0}

    def policy(world):
        if box["q"]:
            return box["q"].pop(0)
        code = world.cur[0]
        q = []
        if code == L.Y_QLEN:
            box["tops"] += 1
            if box["tops"] > loops:
                return None
            dying = [k for k in world.kids if k["st"] == "R" and int(_signal.SIGTERM) in k["sigs"]]
            for k in dying:
                q.append(("XT", k["pid"]))
            if dying or any(k["st"] == "Z" for k in world.kids):
                q.append(("C",))
        q.append(("M",))
        box["q"] = q
        return box["q"].pop(0)
    return policy


# World2 does not know the label XT (exit of a told worker): resolve it to X pid 0 before it is applied
_orig_apply = A.World2.apply_env


def _apply_env(self, lab):
    if lab[0] == "S" and lab[1] == SIG["HUP"] and list.__len__(self.arbiter.SIG_QUEUE) < 5:
        # what the configuration source says at the moment a HUP reaches the master (and is queued): that reload is owed
        if not hasattr(self, "hup_disk"):
            self.hup_disk = []
        self.hup_disk.append(int(self.disk["workers"]))
    if lab[0] == "START":
        # end of the prelude (TTIN / TTOU before the first reload): from the next idle visit of the top of the loop on, the
        # run is observed and compared with Model/Reload.v started in THAT state (num_workers != cfg.workers)
        self.want_start = True
        return
    if lab[0] == "XT":
        k = self.kid(lab[1])
        if k is not None and k["st"] == "R" and int(_signal.SIGTERM) in k["sigs"]:
            self.resolved.append(("XT", lab[1]))
            self.nlabels += 1
            k["st"] = "Z"
            k["status"] = 0
            self.events.append(("death", lab[1], 0, self.mono))
        return
    if lab[0] == "XTk":
        told = [k for k in self.kids if k["st"] == "R" and int(_signal.SIGTERM) in k["sigs"]]
        if told:
            self.apply_env(("XT", told[lab[1] % len(told)]["pid"]))
        return
    if lab[0] == "LTk":
        # the SIGTERM reached a worker that had not yet installed its own handlers (between fork and Worker.init_signals the
        # child still runs the arbiter's handler, which only queues the signal): the worker does not know it was told to stop.
        # Outside Model/Reload.v (whose kernel never loses a signal): these schedules are judged by the oracle only.
        told = [k for k in self.kids if k["st"] == "R" and int(_signal.SIGTERM) in k["sigs"]]
        if told:
            k = told[lab[1] % len(told)]
            k["sigs"] = [x for x in k["sigs"] if x != int(_signal.SIGTERM)]
            self.resolved.append(("LT", k["pid"]))
            self.nlabels += 1
        return
    return _orig_apply(self, lab)


RWorld.apply_env = _apply_env


# ---- the model side -----------------------------------------------------------------------------------------------------

HEADER = """From Coq Require Import List ZArith Bool.
From GV Require Import Gen.GenArbiter Model.Reload.
Import ListNotations.
Open Scope Z_scope.
"""


def model_expr(w):
    st = w.start
    ws = "[" + "; ".join("mkWk %d %d %d %s" % (p, a, c, vlib.coq_listZ(l)) for p, a, c, l in st["workers"]) + "]"
    kids = "[" + "; ".join("mkKid %d %s %d %s" % (p, vlib.coq_bool(z), s, vlib.coq_listZ(sg)) for p, z, s, sg in st["kids"]) + "]"
    init = "(mkSt %s %d %d %s %d %d %d %s PSigq %s %d %d %d %d %d [] 0)" % (
        ws, st["num"], st["wage"], vlib.coq_listZ(st["sigq"]), st["cfgid"], st["cfgw"], st["addr"], vlib.coq_listZ(st["lsn"]),
        kids, st["next_pid"], st["next_lsn"], st["ncfg"], st["disk_w"], st["disk_addr"])
    labs = []
    dw, da = st["disk_w"], st["disk_addr"]
    for l in w.resolved[w.start_index:]:
        k = l[0]
        if k == "M":
            labs.append("Master")
        elif k == "C":
            labs.append("Chld")
        elif k == "X":
            labs.append("Exit %d %d" % (l[1], l[2]))
        elif k == "XT":
            labs.append("ExitTold %d" % l[1])
        elif k == "S" and l[1] == SIG["HUP"]:
            labs.append("Hup")
        elif k == "S" and l[1] == TTIN:
            labs.append("Ttin")
        elif k == "S" and l[1] == TTOU:
            labs.append("Ttou")
        elif k == "E":
            dw = l[1]
            labs.append("Edit %d %d" % (dw, da))
        elif k == "B":
            da = w.addr_id(l[1])
            labs.append("Edit %d %d" % (dw, da))
    return "run_obs %s [%s]" % (init, "; ".join(labs))


# ---- oracle ----------------------------------------------------------------------------------------------------------------

def judge(case, w):
    fails = []
    if w.outcome[0] != "done":
        fails.append(("the master stopped: %r" % (w.outcome,), None))
        return fails
    a = w.arbiter
    # the reloads: load_config events after the first
    loads = [i for i, e in enumerate(w.events) if e[0] == "load_config"]
    addr_changed = any(l[0] == "B" for l in w.resolved)
    if not addr_changed:
        if w.closed_ids:
            fails.append(("listener objects %r were closed although the bind address never changed" % (w.closed_ids,), None))
        ids = [w.lid(l) for l in a.LISTENERS]
        if ids != list(range(len(BIND_CHOICES[case["cfg"]["bind"]]))):
            fails.append(("LISTENERS are no longer the objects the master started with: ids %r" % (ids,), None))
        for pid, wk in dict.items(a.WORKERS):
            if [w.lid(l) for l in wk.sockets] != ids:
                fails.append(("worker %d was not forked with the master's listener objects" % pid, None))
    # spawn before kill: between a reload and the first SIGTERM after it, cfg.workers forks happened
    for n, i in enumerate(loads[1:], 1):
        want = w.events[i][1]["workers"]
        forks = 0
        for e in w.events[i + 1:]:
            if e[0] == "load_config":
                break
            if e[0] == "fork" and not e[2]:
                forks += 1
            if e[0] == "kill" and e[2] == SIG["TERM"]:
                if forks < want:
                    fails.append(("reload %d told worker %d to stop after only %d of the %d new workers had been forked" % (n, e[1], forks, want), None))
                break
    # after the told workers have gone: the pool is the new generation
    if len(loads) >= 2 and not list.__len__(a.SIG_QUEUE):
        cur = w.cfg_index(a.cfg)
        ws = [(int(p), int(x.age), w.cfg_index(x.cfg)) for p, x in dict.items(a.WORKERS)]
        hup_age = getattr(w, "last_hup_age", None)
        untold_death = any(e[0] == "death" and e[1] in w.untold_deaths for e in w.events) if hasattr(w, "untold_deaths") else False
        stale = [x for x in ws if x[2] != cur]
        key = KEY_WINDOW if case.get("crashes") else None
        if stale:
            fails.append(("after the reloads and after every told worker has gone, workers %r still run an old configuration (current is #%d)"
                          % (stale, cur), key))
        # the newly configured number - unless TTIN / TTOU arrived after the last HUP (num_workers then moves away from it)
        sigs = [l[1] for l in w.resolved if l[0] == "S"]
        last_hup = max(i for i, sg in enumerate(sigs) if sg == SIG["HUP"]) if SIG["HUP"] in sigs else -1
        resized_after = any(sg in (TTIN, TTOU) for sg in sigs[last_hup + 1:])
        # every HUP that reached the master is honoured: the configuration in force is the one the source held when the LAST of
        # them arrived (or a later one) - a HUP arriving while an earlier reload is under way is not a duplicate
        owed = getattr(w, "hup_disk", [])
        edits_after = False
        seen_hup = False
        for l in reversed(w.resolved):
            if l[0] == "S" and l[1] == SIG["HUP"]:
                seen_hup = True
                break
            if l[0] == "E":
                edits_after = True
        if owed and seen_hup and not edits_after and int(a.cfg.workers) != owed[-1] and not case.get("crashes"):
            fails.append(("the last HUP was not honoured: the configuration in force says workers = %d, the source said %d when that HUP "
                          "reached the master (a HUP that arrives during an earlier reload is dropped?)" % (a.cfg.workers, owed[-1]), None))
        if not resized_after and (len(ws) != int(a.cfg.workers) or len(ws) != int(a.num_workers)):
            fails.append(("after the reloads the pool has %d workers; cfg.workers = %d, num_workers = %d" % (len(ws), a.cfg.workers, a.num_workers), key))
    return fails


# ---- generators ---------------------------------------------------------------------------------------------------------------

M = ("M",)


TTIN, TTOU = int(_signal.SIGTTIN), int(_signal.SIGTTOU)


def fixed_cases():
    cs = []
    boot = [M] * 30
    for nw in (0, 1, 2, 3):
        for neww in (0, 1, 2, 4):
            cs.append({"cfg": {"workers": nw, "bind": 0}, "script": boot + [("E", neww, 0), ("S", SIG["HUP"])] + [M] * 40, "kind": "resize"})
    # two listeners
    cs.append({"cfg": {"workers": 2, "bind": 3}, "script": boot + [("E", 3, 0), ("S", SIG["HUP"])] + [M] * 40, "kind": "two-binds"})
    cs.append({"cfg": {"workers": 1, "bind": 3}, "script": boot + [("S", SIG["HUP"])] + [M] * 20 + [("S", SIG["HUP"])] + [M] * 30, "kind": "two-binds"})
    # HUP bursts (the queue holds 5)
    cs.append({"cfg": {"workers": 2, "bind": 0}, "script": boot + [("S", SIG["HUP"])] * 7 + [M] * 150, "kind": "burst", "tail_loops": 10})
    cs.append({"cfg": {"workers": 1, "bind": 0}, "script": boot + [("S", SIG["HUP"]), M, M, M, ("S", SIG["HUP"])] + [M] * 60, "kind": "double"})
    # a second HUP, with a changed configuration, at every point of the first reload
    for i in range(1, 14):
        cs.append({"cfg": {"workers": 2, "bind": 0}, "kind": "hup-during-reload", "tail_loops": 12,
                   "script": boot + [("E", 3, 0), ("S", SIG["HUP"])] + [M] * i + [("E", 1, 0), ("S", SIG["HUP"])] + [M] * 60})
    # a told worker's exit + SIGCHLD at every point of a reload
    for i in range(0, 26):
        cs.append({"cfg": {"workers": 2, "bind": 0}, "kind": "delivery-point",
                   "script": boot + [("S", SIG["HUP"])] + [M] * 14 + [("S", SIG["HUP"])] + [M] * i + [("XTk", 0), ("C",)] + [M] * 20})
    # a bind setting spelled with a host name, without a host, with port 0: "unchanged" means the SETTING is unchanged
    for b in (4, 5, 6, 7):
        cs.append({"cfg": {"workers": 2, "bind": b}, "script": boot + [("S", SIG["HUP"])] + [M] * 40, "kind": "bind-form"})
    cs.append({"cfg": {"workers": 1, "bind": 5}, "script": boot + [("S", SIG["HUP"])] + [M] * 20 + [("S", SIG["HUP"])] + [M] * 30, "kind": "bind-form"})
    # the bind address changes / changes back
    cs.append({"cfg": {"workers": 2, "bind": 0}, "script": boot + [("B", BIND_CHOICES[1]), ("S", SIG["HUP"])] + [M] * 30 +
               [("B", BIND_CHOICES[0]), ("S", SIG["HUP"])] + [M] * 30, "kind": "rebind"})
    # a SIGTERM swallowed by a worker in early boot: the once-per-loop re-send of manage_workers must retire it all the same
    for nw in (1, 2):
        for i in (10, 14, 18, 25):
            cs.append({"cfg": {"workers": nw, "bind": 0}, "kind": "lost-term", "lost": True, "tail_loops": 10,
                       "script": boot + [("S", SIG["HUP"])] + [M] * i + [("LTk", 0)] + [M] * 8 + [("LTk", 1)] + [M] * 30})
    cs.append({"cfg": {"workers": 2, "bind": 0}, "kind": "lost-term", "lost": True, "tail_loops": 10,
               "script": boot + [("S", SIG["HUP"])] + [M] * 6 + [("S", SIG["HUP"])] + [M] * 30 + [("LTk", 0), ("LTk", 0)] + [M] * 30})
    # TTIN / TTOU have resized the pool before the reload: "the newly configured number" all the same
    for nw in (1, 2, 3):
        for pre in ([TTIN], [TTIN, TTIN], [TTOU], [TTOU, TTIN, TTIN]):
            for edit in ([], [("E", 1, 0)], [("E", 3, 0)]):
                sc = list(boot)
                for sg in pre:
                    sc += [("S", sg)] + [M] * 14 + [("XTk", 0), ("C",)] + [M] * 8
                sc += [("START",)] + [M] * 4 + edit + [("S", SIG["HUP"])] + [M] * 40
                cs.append({"cfg": {"workers": nw, "bind": 0}, "kind": "resized", "prelude": True, "tail_loops": 10, "script": sc})
    # TTIN / TTOU at every point of a reload and after it (Proof/ReloadSafe.v: the unretired workers are the new generation)
    for i in (0, 3, 6, 9, 12, 16, 22):
        for sg in (TTIN, TTOU):
            cs.append({"cfg": {"workers": 2, "bind": 0}, "kind": "resize-during", "tail_loops": 12,
                       "script": boot + [("S", SIG["HUP"])] + [M] * i + [("S", sg)] + [M] * 30 + [("S", sg), ("S", SIG["HUP"])] + [M] * 40})
    # a NEW worker dies inside the reload window (not in the property's quantifier: side finding)
    for i in range(4, 12):
        cs.append({"cfg": {"workers": 2, "bind": 0}, "kind": "window-death", "crashes": True,
                   "script": boot + [("S", SIG["HUP"])] + [M] * i + [("Xk", 2, 9), ("C",)] + [M] * 30})
    return cs


def gen_random(rng):
    nw = rng.choice([0, 1, 2, 2, 3])
    script = [M] * 30
    crashes = False
    prelude = rng.random() < 0.2
    if prelude:
        for _ in range(rng.randint(1, 3)):
            script += [("S", rng.choice([TTIN, TTIN, TTOU]))] + [M] * rng.choice([10, 14, 20]) + [("XTk", 0), ("C",)] + [M] * rng.choice([4, 8])
        script += [("START",)] + [M] * rng.choice([2, 4, 9])
    for _ in range(rng.randint(1, 6)):
        x = rng.random()
        if x < 0.35:
            if rng.random() < 0.6:
                script.append(("E", rng.choice([0, 1, 2, 3, 4]), 0))
            if rng.random() < 0.12:
                script.append(("B", BIND_CHOICES[rng.randrange(3)]))
            script.append(("S", SIG["HUP"]))
        elif x < 0.6:
            script.append(("XTk", rng.randrange(4)))
            if rng.random() < 0.7:
                script += [M] * rng.choice([0, 0, 1, 2]) + [("C",)]
        elif x < 0.7:
            script.append(("C",))
        elif x >= 0.9:
            script.append(("S", rng.choice([TTIN, TTOU])))       # anywhere: before, between, after the reloads
        elif x < 0.76:
            script.append(("Xk", rng.randrange(5), rng.choice([0, 9, 15, 256])))
            crashes = True
            if rng.random() < 0.7:
                script.append(("C",))
        script += [M] * rng.choice([0, 1, 2, 3, 5, 8, 13, 21])
    rebinds = any(l[0] == "B" for l in script)
    return {"cfg": {"workers": nw, "bind": 0 if rebinds or rng.random() < 0.6 else rng.choice([3, 3, 4, 5, 6, 7])}, "script": script, "kind": "random",
            "crashes": crashes, "tail_loops": 8, "prelude": prelude}


def describe(case):
    return {"cfg": case["cfg"], "schedule": [list(x) for x in case["script"]],
            "tail_loops": case.get("tail_loops", 6), "crashes": case.get("crashes", False), "lost": case.get("lost", False),
            "prelude": bool(case.get("prelude"))}


def run_sim(ctx):
    cases = fixed_cases()
    for _ in range(700 if ctx.quick() else 9000):
        cases.append(gen_random(ctx.rng))
    corr = []
    failures = []
    for case in cases:
        w = run_case(case)
        hups = sum(1 for l in w.resolved if l[0] == "S")
        ctx.count_case((tuple(sorted(case["cfg"].items())), tuple(map(repr, case["script"]))), nontrivial=hups >= 1 and w.start is not None)
        ctx.hist("kind", case["kind"])
        ctx.hist("reloads", sum(1 for e in w.events if e[0] == "load_config") - 1)
        if w.start is not None and not case.get("lost"):
            flat = []
            for o in w.tr:
                flat += o
            corr.append((model_expr(w), flat, describe(case)))
        fs = judge(case, w)
        if fs:
            failures.append((case, fs))
        if case["kind"] == "random" and hups >= 2:
            ctx.sample(describe(case))
    ctx.log("ran %d reload schedules on the real Arbiter; %d with oracle failures" % (len(cases), len(failures)))
    shown = 0
    for case, fs in failures:
        for text, key in fs:
            if key is not None and ctx.known.has(ctx.prop, key):
                ctx.violation(text, {}, key=key)
            elif shown < 3:
                shown += 1
                ctx.violation(text, {"kind": "schedule", "case": describe(case), "failures": [t for t, _ in fs]}, key=key)
    bad = ctx.correspond("reload", HEADER, corr, shard=100)
    if bad:
        i, m, im = bad[0]
        k = next((j for j in range(min(len(m), len(im))) if m[j] != im[j]), min(len(m), len(im)))
        ctx.broken.append("correspondence Model/Reload.v vs gunicorn/arbiter.py: %d of %d schedules differ; first: %r (index %d: model %r impl %r)"
                          % (len(bad), len(corr), corr[i][2], k, m[max(0, k - 8):k + 6], im[max(0, k - 8):k + 6]))
        ctx.log("CORRESPONDENCE: %d schedules differ" % len(bad))


def run(ctx):
    ok = ctx.build()
    run_sim(ctx)
    run_real(ctx)
    ctx.cov["rule"] = ("reload schedules for the real Arbiter.run() on the simulated kernel (timeout = 0): after the boot, <= 6 events {HUP (optionally "
                       "after editing workers / the bind address), exit of a told worker, SIGCHLD, death of any worker} between master steps, then a "
                       "fair tail; fixed corpus: every resize, HUP bursts beyond the queue bound, a told worker's exit at every point of a reload, "
                       "re-binding, a new worker dying inside the reload window, a SIGTERM swallowed by a worker in early boot (oracle only); non-trivial = at least one HUP; distinct by (configuration, schedule)")


def replay(rep):
    if rep.get("kind") == "real":
        fails, tr = reload_scenario(*rep["scenario"])
        for t in tr:
            print(t)
        print("failures:", fails)
        return 1 if fails else 0
    case = dict(rep["case"])
    case["script"] = [tuple(x) for x in case.pop("schedule")]
    w = run_case(case)
    print("outcome:", w.outcome, "workers:", [(int(p), int(x.age), w.cfg_index(x.cfg)) for p, x in dict.items(w.arbiter.WORKERS)])
    fs = judge(case, w)
    print("oracle failures:", fs)
    return 1 if fs else 0


# =====================================================================================================================
# REAL processes: one master under client load through one or several HUPs
# =====================================================================================================================
import lib_arb2_real as R

LATE = 1.0


def reload_scenario(cls, phase, hups=1, bind="unix", new_workers=3, d=1.6, two_binds=False, resize=None, swap_app=False, drop_workers=False):
    """-> (failures, trace).  failures starting with KNOWN:<key> are reported under that key.
    resize: "ttin" / "ttou" sent to the master (and the pool left to follow) before anything else: the reload must give
    the newly configured number of workers whatever the number was before
    swap_app: the application is named by `wsgi_app` in the configuration file and the (last) reload names another one: the new
    workers run the new configuration - all of it
    drop_workers: before the (last) HUP the `workers` line is REMOVED from the configuration file: the newly configured number is
    the built-in default, 1"""
    if drop_workers:
        new_workers = 1
    fails, tr = [], []
    srv = R.Server(worker_class=cls, workers=2, graceful=6, bind=bind, marker="m0", keepalive=8, second_bind=two_binds,
                   app_in_conf=swap_app)
    load = None
    try:
        srv.start()
        master = srv.master
        if resize:
            want = 3 if resize == "ttin" else 1
            srv.signal(_signal.SIGTTIN if resize == "ttin" else _signal.SIGTTOU, master)
            if not R.wait_for(lambda: len(srv.children()) == want, 15):
                fails.append("harness: %s did not bring the pool to %d workers: %r" % (resize, want, sorted(srv.children())))
            tr.append(("resized by", resize, sorted(srv.children())))
        old = set(srv.children())
        tr.append(("old workers", sorted(old)))
        load = R.Load(srv, period=0.04, d=0.03)
        load.start()
        time.sleep(0.3)
        # one connection held in the chosen phase
        c = R.Client(srv, timeout=30).connect()
        later = None
        if phase == "idle":
            later = R.Client.request(d=0)
        elif phase == "head":
            req = R.Client.request(d=0)
            c.send(req[:-2])
            later = req[-2:]
        elif phase == "app":
            c.send(R.Client.request(d=d))
            srv.wait_started(1, 10)          # the phase is "the application is running", not "the request has been sent"
        elif phase == "resp":
            c.send(R.Client.request(w=d))
            c.read_until(lambda b: b"marker=" in b, time.time() + 10)
        elif phase == "keep":
            c.send(R.Client.request(d=0, keepalive=True))
            c.read_response(10)
            c.buf = b""
            later = R.Client.request(d=0)
        time.sleep(0.3)
        marker = "m0"
        for h in range(hups):
            marker = "m%d" % (h + 1)
            changes = dict(workers=new_workers if h == hups - 1 else 2, raw_env=["GV_MARKER=%s" % marker])
            if drop_workers and h == hups - 1:
                del changes["workers"]
                srv.settings.pop("workers", None)
            if swap_app and h == hups - 1:
                changes["wsgi_app"] = "gvapp2:app"
            srv.write_conf(**changes)
            if swap_app and h == hups - 1:
                marker += "-app2"
            srv.signal(_signal.SIGHUP, master)
            tr.append(("hup", h + 1, marker))
            if h < hups - 1:
                time.sleep(0.35)
        if later is not None:
            time.sleep(LATE)
            c.send(later)
        held = c.read_all(15) if phase in ("idle", "keep") and cls != "sync" else c.read_response(15)
        tr.append(("held connection", phase, {"status": held["status"], "complete": held["complete"], "pid": held["pid"], "marker": held["marker"]}, c.err))
        c.close()
        # convergence: only workers started after the (last) HUP, in the new number
        def converged():
            ch = set(srv.children())
            return ch if (len(ch) == new_workers and not (ch & old)) else None
        new = R.wait_for(converged, 20)
        tr.append(("workers afterwards", sorted(srv.children())))
        if not R.pid_alive(master):
            fails.append("the master died during the reload")
        if not new:
            ch = set(srv.children())
            fails.append("after the reload the master has workers %r (old generation: %r); expected %d workers, none of them old" % (sorted(ch), sorted(old), new_workers))
        time.sleep(0.5)
        n_before = len(load.results)
        time.sleep(0.6)
        load.finish()
        after = load.results[n_before:]
        wrong = [r for r in after if r[1] and (r[5] != marker or (new and r[3] not in new))]
        if wrong:
            fails.append("after convergence %d of %d responses came from a worker of an old generation / with an old configuration (expected marker %s): %r"
                         % (len(wrong), len(after), marker, wrong[:2]))
        # the held request: answered in full by the old worker that accepted it
        promised = phase in ("head", "app", "resp") or (phase == "idle" and cls == "sync")
        done = held["status"] == 200 and held["complete"]
        if promised and not done:
            fails.append("the request held in phase %r across the reload was not answered in full: %r (client error %r)"
                         % (phase, {"status": held["status"], "complete": held["complete"]}, c.err))
        if promised and done and (held["pid"] not in old or held["marker"] != "m0"):
            fails.append("the request held in phase %r was answered by pid %r / marker %r, not by the old worker that had it" % (phase, held["pid"], held["marker"]))
        # the stream of short requests
        errs = list(load.errors)
        tr.append(("stream", len(load.results), "errors", len(errs)))
        soft = [e for e in errs if cls != "sync" and ("ECONNRESET" in e[1] or "status None, 0 bytes" in e[1])]
        hard = [e for e in errs if e not in soft]
        if soft:
            fails.append("KNOWN:%s %d connection(s) accepted by a %s worker that was then told to stop were reset before the request was read; first: %r"
                         % (KEY_ACCEPTED, len(soft), cls, soft[0]))
        if hard:
            fails.append("%d of %d client exchanges failed during the reload; first: %r" % (len(hard), len(load.results) + len(errs), hard[0]))
    except Exception as e:
        fails.append("harness: %s: %s\n%s" % (type(e).__name__, e, srv.read_log()[-1000:]))
    finally:
        if load is not None and load.is_alive():
            load.finish()
        tr.append(("log-tail", srv.read_log()[-500:]))
        srv.cleanup()
    return fails, tr


def run_real(ctx):
    if ctx.quick():
        scns = [("sync", "app", 1, "unix", 3), ("gthread", "head", 2, "tcp", 1), ("sync", "idle", 2, "unix", 2), ("gevent", "resp", 1, "unix", 3),
                ("gevent", "app", 1, "unix", 2, 1.6, True), ("eventlet", "app", 1, "tcp", 2, 1.6, True),
                ("gthread", "app", 1, "unix", 2, 1.6, True), ("sync", "resp", 1, "unix", 2, 1.6, True),
                ("sync", "app", 1, "unix", 2, 1.6, False, "ttin"), ("gthread", "keep", 1, "tcp", 2, 1.6, False, "ttou"),
                ("sync", "head", 2, "unix", 3, 1.6, False, None, True),
                ("sync", "idle", 1, "unix", 1, 1.6, False, None, False, True)]
    else:
        scns = []
        for cls in ("sync", "gthread", "gevent", "eventlet"):
            for ph in ("idle", "head", "app", "resp", "keep"):
                for hups in (1, 2):
                    scns.append((cls, ph, hups, "tcp" if len(scns) % 3 == 0 else "unix", [1, 3, 2][len(scns) % 3]))
                # the same with a second, idle listener: the old worker must not take the idle one for "nothing in flight"
                scns.append((cls, ph, 1, "unix", 2, 1.6, True))
            # TTIN / TTOU first: the reload gives the configured number all the same
            scns.append((cls, "app", 1, "unix", 2, 1.6, False, "ttin"))
            scns.append((cls, "head", 2, "tcp", 2, 1.6, False, "ttou"))
            scns.append((cls, "resp", 1, "unix", 3, 1.6, False, "ttin"))
            scns.append((cls, "app", 1, "tcp", 2, 1.6, False, None, True))
            scns.append((cls, "idle", 2, "unix", 3, 1.6, False, None, True))
            scns.append((cls, "app", 1, "unix", 1, 1.6, False, None, False, True))
    results = [None] * len(scns)

    def work(i):
        results[i] = reload_scenario(*scns[i])
    for k in range(0, len(scns), 4):
        ths = [threading.Thread(target=work, args=(i,)) for i in range(k, min(k + 4, len(scns)))]
        for t in ths:
            t.start()
        for t in ths:
            t.join()
    for i, r in enumerate(results):
        if r is None or any(f.startswith("harness:") for f in r[0]):
            results[i] = reload_scenario(*scns[i])
    nf = 0
    for scn, (fails, tr) in zip(scns, results):
        ctx.count_case(("real",) + scn, nontrivial=True)
        ctx.hist("real", "/".join(map(str, scn)))
        for f in fails:
            nf += 1
            rep = {"kind": "real", "scenario": list(scn), "trace": [list(map(repr, t)) for t in tr]}
            if f.startswith("harness:"):
                ctx.broken.append("real-process run %r could not be carried out: %s" % (scn, f[:600]))
            elif f.startswith("KNOWN:"):
                key, text = f[6:].split(" ", 1)
                ctx.violation("real master under load (%s): %s" % ("/".join(map(str, scn)), text), rep, key=key)
            else:
                ctx.violation("real master under load (%s): %s" % ("/".join(map(str, scn)), f), rep)
    ctx.extra["real_runs"] = [{"scenario": "/".join(map(str, s)), "failures": r[0], "trace": [repr(t)[:240] for t in r[1][:-1]]} for s, r in zip(scns, results)]
    ctx.log("ran %d real reloads under load; %d failures" % (len(scns), nf))
