"""C01 - request framing is unambiguous and RFC 9112-exact (no smuggling).
The real RequestParser against an independent strict reader (harness/rfc9112.py): every request that
is handed over (head accepted and wsgi.input read to EOF) must have exactly the body and the end
offset the strict reading assigns; what the strict reading rejects must never be handed over.
Streams: grammar-based pipelines, one mutation rule per malformation class of the property, and an
obfuscation alphabet sweep (every byte value inserted / substituted around the framing-relevant
tokens of four templates).  A sample runs through Model/Parser.v, and the Coq framing function
[rfc_framing] is compared with the strict reader's framing decision."""
import vlib
import lib_parser as lp
import rfc9112

TEMPLATES = [
    b"POST /a HTTP/1.1\r\nHost: h\r\nTransfer-Encoding: chunked\r\n\r\n5\r\nhello\r\n0\r\n\r\nGET /b HTTP/1.1\r\nHost: h\r\n\r\n",
    b"POST /a HTTP/1.1\r\nHost: h\r\nContent-Length: 5\r\n\r\nhelloGET /b HTTP/1.1\r\nHost: h\r\n\r\n",
    b"POST /a HTTP/1.1\r\nTransfer-Encoding: gzip, chunked\r\n\r\n3;x=y\r\nabc\r\n0\r\nT: v\r\n\r\nGET /b HTTP/1.1\r\n\r\n",
    b"POST /a HTTP/1.0\r\nConnection: keep-alive\r\nContent-Length: 3\r\n\r\nabcGET /b HTTP/1.0\r\n\r\n",
]
TOKENS = [b"chunked", b"gzip", b"Transfer-Encoding", b"Content-Length", b": ", b"5\r\n", b"3;x=y", b"0\r\n", b"\r\n\r\n", b" HTTP/1.", b"T: v",
          b"keep-alive", b"hello\r\n", b"abc\r\n"]


def positions(t, all_positions):
    if all_positions:
        return list(range(len(t) + 1))
    pos = set()
    for tok in TOKENS:
        i = t.find(tok)
        while i >= 0:
            for d in (0, 1, len(tok) // 2, len(tok) - 1, len(tok)):
                if 0 <= i + d <= len(t):
                    pos.add(i + d)
            i = t.find(tok, i + 1)
    return sorted(pos)


def sweep(all_positions):
    for ti, t in enumerate(TEMPLATES):
        for p in positions(t, all_positions):
            for b in range(256):
                yield ("insert", ti, p, b), t[:p] + bytes([b]) + t[p:]
                if p < len(t):
                    yield ("replace", ti, p, b), t[:p] + bytes([b]) + t[p + 1:]


CLASS_MUTATIONS = [
    ("cl-with-chunked", lambda s: s.replace(b"Transfer-Encoding: chunked\r\n", b"Transfer-Encoding: chunked\r\nContent-Length: 5\r\n", 1)),
    ("cl-with-chunked-before", lambda s: s.replace(b"Transfer-Encoding: chunked\r\n", b"Content-Length: 5\r\nTransfer-Encoding: chunked\r\n", 1)),
    ("repeated-cl", lambda s: s.replace(b"Content-Length: 5\r\n", b"Content-Length: 5\r\nContent-Length: 5\r\n", 1)),
    ("repeated-cl-diff", lambda s: s.replace(b"Content-Length: 5\r\n", b"Content-Length: 5\r\nContent-Length: 6\r\n", 1)),
    # the repeated field in every position and with every value a falsy / special reading could confuse: 0, 00, empty list item
    ("repeated-cl-zero-first", lambda s: s.replace(b"Content-Length: 5\r\n", b"Content-Length: 0\r\nContent-Length: 5\r\n", 1)),
    ("repeated-cl-00-first", lambda s: s.replace(b"Content-Length: 5\r\n", b"Content-Length: 00\r\nContent-Length: 5\r\n", 1)),
    ("repeated-cl-zero-last", lambda s: s.replace(b"Content-Length: 5\r\n", b"Content-Length: 5\r\nContent-Length: 0\r\n", 1)),
    ("repeated-cl-zero-zero", lambda s: s.replace(b"Content-Length: 5\r\n", b"Content-Length: 0\r\nContent-Length: 0\r\n", 1)),
    ("repeated-cl-apart", lambda s: s.replace(b"Content-Length: 5\r\n", b"Content-Length: 0\r\nX-Between: 1\r\nContent-Length: 5\r\n", 1)),
    ("repeated-cl-three", lambda s: s.replace(b"Content-Length: 5\r\n", b"Content-Length: 0\r\nContent-Length: 0\r\nContent-Length: 5\r\n", 1)),
    ("repeated-te-empty-first", lambda s: s.replace(b"Transfer-Encoding: chunked\r\n", b"Transfer-Encoding:\r\nTransfer-Encoding: chunked\r\n", 1)),
    ("cl-zero-with-chunked", lambda s: s.replace(b"Transfer-Encoding: chunked\r\n", b"Content-Length: 0\r\nTransfer-Encoding: chunked\r\n", 1)),
    ("cl-list", lambda s: s.replace(b"Content-Length: 5", b"Content-Length: 5, 5", 1)),
    ("cl-plus", lambda s: s.replace(b"Content-Length: 5", b"Content-Length: +5", 1)),
    ("cl-hex", lambda s: s.replace(b"Content-Length: 5", b"Content-Length: 0x5", 1)),
    ("cl-underscore", lambda s: s.replace(b"Content-Length: 5", b"Content-Length: 0_5", 1)),
    ("cl-superscript", lambda s: s.replace(b"Content-Length: 5", b"Content-Length: \xb2", 1)),
    ("cl-empty", lambda s: s.replace(b"Content-Length: 5", b"Content-Length: ", 1)),
    ("cl-negative", lambda s: s.replace(b"Content-Length: 5", b"Content-Length: -5", 1)),
    ("chunked-not-last", lambda s: s.replace(b"Transfer-Encoding: chunked", b"Transfer-Encoding: chunked, gzip", 1)),
    ("chunked-repeated", lambda s: s.replace(b"Transfer-Encoding: chunked", b"Transfer-Encoding: chunked, chunked", 1)),
    ("chunked-repeated-lines", lambda s: s.replace(b"Transfer-Encoding: chunked\r\n", b"Transfer-Encoding: chunked\r\nTransfer-Encoding: chunked\r\n", 1)),
    ("unknown-coding", lambda s: s.replace(b"Transfer-Encoding: chunked", b"Transfer-Encoding: br, chunked", 1)),
    ("nontoken-coding", lambda s: s.replace(b"Transfer-Encoding: chunked", b"Transfer-Encoding: \"chunked\"", 1)),
    ("te-identity-then-chunked-x", lambda s: s.replace(b"Transfer-Encoding: chunked", b"Transfer-Encoding: xchunked", 1)),
    ("chunked-http10", lambda s: s.replace(b" HTTP/1.1\r\n", b" HTTP/1.0\r\n", 1)),
    ("nonhex-size", lambda s: s.replace(b"\r\n\r\n5\r\n", b"\r\n\r\n5g\r\n", 1)),
    ("size-0x", lambda s: s.replace(b"\r\n\r\n5\r\n", b"\r\n\r\n0x5\r\n", 1)),
    ("size-plus", lambda s: s.replace(b"\r\n\r\n5\r\n", b"\r\n\r\n+5\r\n", 1)),
    ("size-space", lambda s: s.replace(b"\r\n\r\n5\r\n", b"\r\n\r\n 5\r\n", 1)),
    ("size-trailing-space", lambda s: s.replace(b"\r\n\r\n5\r\n", b"\r\n\r\n5 \r\n", 1)),
    ("size-empty", lambda s: s.replace(b"\r\n\r\n5\r\n", b"\r\n\r\n\r\n", 1)),
    ("missing-chunk-crlf", lambda s: s.replace(b"hello\r\n0", b"hello0", 1)),
    ("chunk-lf-only", lambda s: s.replace(b"hello\r\n0", b"hello\n0", 1)),
    ("chunk-extra-byte", lambda s: s.replace(b"hello\r\n0", b"helloX\r\n0", 1)),
    ("obs-fold", lambda s: s.replace(b"Host: h\r\n", b"Host: h\r\n folded\r\n", 1)),
    ("obs-fold-te", lambda s: s.replace(b"Transfer-Encoding: chunked", b"Transfer-Encoding:\r\n chunked", 1)),
    ("ws-before-colon", lambda s: s.replace(b"Transfer-Encoding:", b"Transfer-Encoding :", 1)),
    ("ws-before-colon-cl", lambda s: s.replace(b"Content-Length:", b"Content-Length\t:", 1)),
    ("nul-in-value", lambda s: s.replace(b"Host: h", b"Host: h\x00x", 1)),
    ("cr-in-value", lambda s: s.replace(b"Host: h", b"Host: h\rx", 1)),
    ("lf-in-value", lambda s: s.replace(b"Host: h", b"Host: h\nContent-Length: 3", 1)),
    ("nontoken-name", lambda s: s.replace(b"Host:", b"Ho st:", 1)),
    ("nontoken-name-paren", lambda s: s.replace(b"Host:", b"Ho(st):", 1)),
    ("empty-name", lambda s: s.replace(b"Host:", b":", 1)),
    ("bare-lf-header-end", lambda s: s.replace(b"\r\n\r\n", b"\n\n", 1)),
    ("vt-chunked", lambda s: s.replace(b"Transfer-Encoding: chunked", b"Transfer-Encoding: \x0bchunked", 1)),
    ("nbsp-chunked", lambda s: s.replace(b"Transfer-Encoding: chunked", b"Transfer-Encoding: chunked\xa0", 1)),
    ("lf-in-target", lambda s: s.replace(b"POST /a ", b"POST /a\nb ", 1)),
    ("tab-in-target", lambda s: s.replace(b"POST /a ", b"POST /a\tb ", 1)),
    ("lf-in-chunk-ext", lambda s: s.replace(b"5\r\nhello", b"5;a\nb\r\nhello", 1)),
    ("conn-close-list", lambda s: s.replace(b"Host: h\r\n", b"Host: h\r\nConnection: foo, close\r\n", 1)),
    ("te-identity-cl", lambda s: s.replace(b"Content-Length: 5\r\n", b"Transfer-Encoding: identity\r\nContent-Length: 5\r\n", 1)),
]


def impl_requests(spec, stream, chunks=None, prog=None):
    """Run the real parser, reading every body to EOF (or, with `prog`, the way an application that leaves the body - or most
    of it - unread does: the parser then discards the rest itself).  Returns the structured trace."""
    st = []
    chunks = chunks or [stream[i:i + 8192] for i in range(0, len(stream), 8192)]
    lp.run_impl(spec, chunks, [[("read", None)] if prog is None else list(prog)] * 12, structured=st)
    return st


def judge(stream, st, partial=False):
    """Returns None or (what, detail).  st = structured trace of the implementation.  partial: the application read only a
    prefix of each body (possibly nothing): what it read is a prefix of the strict body, and the request ends where it ends."""
    strict = rfc9112.strict_stream(stream)
    k = 0
    for item in st:
        if "method" not in item:
            continue
        # a request whose head was accepted; was the body read to EOF?
        calls = item["calls"]
        if (not calls and not partial) or (calls and isinstance(calls[-1][1], tuple) and calls[-1][1][0] == "exc"):
            break                       # the body read raised: not handed over, nothing follows
        if item.get("not_drained"):
            return ("request %d: the parser went on to the next request without having read this request's body to its end - "
                    "the rest of the body is taken for the next request" % k,
                    {"impl_body": (bytes(calls[-1][1][2:]) if calls else b"").decode("latin-1")[:300]})
        if "drained_left" not in item:
            break                       # the stream was rejected / ended while draining
        body = bytes(calls[-1][1][2:]) if calls else b""  # [1, len, bytes...]
        end = len(stream) - item["drained_left"]
        s = strict[k] if k < len(strict) else ("end",)
        if s[0] == "req":
            if (not s[1]["body"].startswith(body) if partial else body != s[1]["body"]) or end != s[1]["end"]:
                return ("framing differs from the strict reading for request %d" % k,
                        {"impl_body": body.decode("latin-1"), "impl_end": end,
                         "strict_body": s[1]["body"].decode("latin-1"), "strict_end": s[1]["end"]})
        elif s[0] == "reject":
            return ("request %d is handed to the application although the strict reading rejects it: %s" % (k, s[1]),
                    {"impl_body": body.decode("latin-1"), "impl_end": end})
        elif s[0] == "incomplete":
            partial = s[2] if len(s) > 2 else b""
            if not partial.startswith(body) and s[1] != "trailer section":
                return ("truncated stream: request %d handed with a body that is not a prefix of what was received" % k,
                        {"impl_body": body.decode("latin-1"), "available": partial.decode("latin-1")})
        elif s[0] == "end":
            return ("request %d is parsed although the strict reading ends the connection before it" % k,
                    {"impl_body": body.decode("latin-1"), "impl_end": end})
        k += 1
    return None


def gen_streams(ctx, n):
    rng = ctx.rng
    spec = lp.make_spec()
    for _ in range(n):
        s, infos, mutated = lp.gen_stream(rng, spec, nmax=3, mutate_p=0.5)
        yield ("random", mutated), s


def run(ctx):
    ok = ctx.build()
    quick = ctx.quick()
    specs = [lp.make_spec(), lp.make_spec(header_map="refuse"), lp.make_spec(limit_request_field_size=200, limit_request_fields=20)]
    fails = []
    model_cases = []
    nstreams = 0

    def one(tag, stream, spec=None, chunks=None, prog=None):
        nonlocal nstreams
        spec = spec or specs[0]
        st = impl_requests(spec, stream, chunks, prog)
        nstreams += 1
        handed = sum(1 for i in st if "method" in i)
        ctx.count_case(stream, nontrivial=True)
        ctx.hist("family", tag[0] if isinstance(tag, tuple) else tag)
        ctx.hist("requests_handed", handed)
        f = judge(stream, st, partial=prog is not None)
        if f:
            fails.append((tag, stream, f, chunks) if prog is None else
                         (tag, stream, (f[0] + " (the application read the bodies with %r and left the rest to the server)" % (prog,), f[1]), chunks, prog))
        return st

    # fixture corpus of the repository: sanity of the strict reader as well
    import glob, os
    for path in sorted(glob.glob(os.path.join(str(vlib.REPO), "tests", "requests", "valid", "*.http"))):
        raw = open(path, "rb").read()
        if b"PROXY " in raw[:6]:
            continue
        one(("fixture",), raw)
    # one rule per malformation class named by the property
    for name, fn in CLASS_MUTATIONS:
        for t in TEMPLATES:
            s = fn(t)
            if s != t:
                one(("class", name), s)
                ctx.hist("class", name)
    # the obfuscation alphabet sweep
    for tag, s in sweep(all_positions=not quick):
        st = one(("sweep", tag[0]), s)
        if len(model_cases) < (600 if quick else 6000) and (tag[3] in (0, 9, 10, 11, 13, 32, 44, 58, 59, 133, 160, 255) and ctx.rng.random() < 0.15):
            chunks = [s[i:i + 8192] for i in range(0, len(s), 8192)]
            obs, rec = lp.run_impl(specs[0], chunks, [[("read", None)]] * 4)
            model_cases.append((lp.model_expr(specs[0], chunks, [[("read", None)]] * 4, rec), obs, {"stream": s}))
    # grammar-based pipelines with random mutations, several safe configurations
    for tag, s in gen_streams(ctx, 6000 if quick else 300000):
        # a byte stream reaches the parser in whatever pieces TCP delivers: a third of the pipelines arrive segmented (cut in two,
        # at random points, in small pieces) - the strict reading of the BYTES is the same
        chunks = None
        if len(s) > 1 and ctx.rng.random() < 0.34:
            name, chunks = next(lp.segmentations(ctx.rng, s, [ctx.rng.choice(["cut", "random", "random", "small", "lines"])]))
            ctx.hist("segmentation", name.split("@")[0])
        # ... and the application may leave a body unread, or read its first bytes only: the request still ends where it ends
        prog = ctx.rng.choice([[], [("read", 3)], [("readline", None)]]) if ctx.rng.random() < 0.15 else None
        if prog is not None:
            ctx.hist("body_left_unread", repr(prog))
        one(tag, s, spec=ctx.rng.choice(specs), chunks=chunks, prog=prog)
    # bodies far larger than any buffer, with request-like text inside, left unread: the next request starts behind them
    trap = b"\r\n\r\nGET /from-the-body HTTP/1.1\r\nHost: x\r\n\r\n"
    for n in ((65537, 200000) if quick else (65536, 65537, 70000, 131073, 200000, 600000, 1100000)):
        body = (trap + b"x" * 959) * (n // 1000 + 1)
        body = body[:n]
        for chunked in (False, True):
            if chunked:
                enc = b"".join(b"%x\r\n" % len(body[i:i + 30000]) + body[i:i + 30000] + b"\r\n" for i in range(0, n, 30000)) + b"0\r\n\r\n"
                head = b"POST /upload HTTP/1.1\r\nHost: x\r\nTransfer-Encoding: chunked\r\n\r\n"
            else:
                enc = body
                head = b"POST /upload HTTP/1.1\r\nHost: x\r\nContent-Length: %d\r\n\r\n" % n
            for prog in ([], [("read", 10)]):
                one(("unread-big", "chunked" if chunked else "content-length"), head + enc + b"GET /next HTTP/1.1\r\nHost: n\r\n\r\n", prog=prog)
                ctx.hist("body_left_unread", "%d bytes" % n)
    if not quick:
        # pairs of sweep mutations
        base = list(sweep(all_positions=False))
        for _ in range(200000):
            (_, s1), (t2, _) = ctx.rng.choice(base), ctx.rng.choice(base)
            p, b = t2[2], t2[3]
            one(("sweep2", "pair"), s1[:p] + bytes([b]) + s1[p:])
    ctx.cov["rule"] = ("streams = repository fixtures + one mutation per malformation class of the property x 4 templates + obfuscation sweep "
                       "(every byte 0-255 inserted and substituted at the framing-relevant positions of 4 templates; all positions in thorough) + "
                       "grammar-based pipelines with random mutations; every request body read to EOF; judged against harness/rfc9112.py; "
                       "distinct by stream bytes, all non-trivial")
    ctx.sample({"template": TEMPLATES[0].decode("latin-1"), "classes": [n for n, _ in CLASS_MUTATIONS][:10]})
    ctx.log("%d streams judged against the strict reader: %d failures" % (nstreams, len(fails)))
    # what the workers put between two calls of the parser (the connection object, its parser, the socket) belongs to the framing
    # too: real masters of every class, requests sent one by one, bodies with request-like text left unread, call counts
    import lib_battery
    lib_battery.report(ctx, "bodies", "battery")
    seen_kinds = set()
    for tup in fails:
        tag, stream, (what, detail), chunks = tup[:4]
        kind = what.split(":")[0][:60]
        if kind in seen_kinds and len(ctx.violations) >= 1:
            continue
        seen_kinds.add(kind)
        rep = {"kind": "c01", "stream": stream.decode("latin-1"), "detail": detail, "tag": repr(tag)}
        if len(stream) > 20000:
            rep["detail"] = {k2: (v[:300] if isinstance(v, str) else v) for k2, v in detail.items()}
        if len(tup) > 4:
            rep["prog"] = [list(c) for c in tup[4]]
        if chunks is not None:
            rep["chunks"] = [c.decode("latin-1") for c in chunks]
            what += " (the stream arrived in pieces of %r bytes)" % ([len(c) for c in chunks][:12],)
        ctx.violation(what, rep)
        if len(ctx.violations) >= 3:
            break
    bad = ctx.correspond("c01", lp.HEADER, model_cases, shard=80)
    if bad:
        i, m, im = bad[0]
        ctx.broken.append("correspondence Model/Parser.v vs RequestParser on sweep streams: %d of %d differ; first: %r" % (len(bad), len(model_cases), model_cases[i][2]))
    # the Coq framing function against the strict reader's framing decision
    fcases = framing_cases(ctx)
    bad2 = ctx.correspond("framing", FRAMING_HEADER, fcases, shard=200)
    if bad2:
        i, m, im = bad2[0]
        ctx.broken.append("Spec rfc_framing (Coq) vs harness/rfc9112.framing: %d of %d differ; first: %r coq=%r twin=%r" % (len(bad2), len(fcases), fcases[i][2], m, im))


FRAMING_HEADER = """From Coq Require Import List NArith ZArith Bool.
From GV Require Import Base.Bytes Base.PyStr Model.Parser Spec.Rfc9112.
Import ListNotations.
Open Scope Z_scope.
"""


def framing_cases(ctx):
    """Header lists (upper-case names, stripped values, as the parser produces them) -> framing."""
    rng = ctx.rng
    vals_te = [b"chunked", b"Chunked", b"gzip, chunked", b"chunked, gzip", b"chunked,chunked", b"identity", b"br", b"", b" chunked", b"\x0bchunked",
               b"gzip", b"identity, chunked", b"chunked\xa0", b"x-gzip", b"deflate,compress,chunked", b"chunked;q=1", b",chunked", b"chunked,"]
    vals_cl = [b"0", b"5", b"05", b"5, 5", b"+5", b"-1", b"", b"5 ", b"\xb2", b"1_0", b"0x10", b"99999999999999999999", b"5\t"]
    out = []
    for _ in range(1500 if ctx.quick() else 20000):
        hs = []
        for _ in range(rng.randint(0, 4)):
            k = rng.random()
            if k < 0.4:
                hs.append((b"TRANSFER-ENCODING", rng.choice(vals_te)))
            elif k < 0.75:
                hs.append((b"CONTENT-LENGTH", rng.choice(vals_cl)))
            else:
                hs.append((b"HOST", b"h"))
        ver = rng.choice([(1, 1), (1, 1), (1, 0), (0, 9), (1, 2)])
        # the parser strips SP/HTAB around values before set_body_reader sees them
        hs = [(n, v.strip(b" \t")) for n, v in hs]
        f = rfc9112.framing([(rfc9112.ascii_lower(n), v) for n, v in hs], ver)
        if f[0] == "reject":
            enc = [0]
        elif f[0] == "chunked":
            enc = [1]
        elif f[0] == "length":
            enc = [2, f[1]]
        else:
            enc = [2, 0]
        expr = "enc_framing (rfc_framing [%s]%%N (%d%%N, %d%%N))" % (
            "; ".join("(%s, %s)" % (vlib.coq_bytes(n), vlib.coq_bytes(v)) for n, v in hs), ver[0], ver[1])
        out.append((expr, enc, {"headers": hs, "version": ver}))
    return out


def replay(rep):
    if rep.get("kind") == "battery":
        import lib_battery
        return lib_battery.replay(rep)
    stream = rep["stream"].encode("latin-1")
    chunks = [c.encode("latin-1") for c in rep["chunks"]] if rep.get("chunks") else None
    prog = [tuple(c) for c in rep["prog"]] if rep.get("prog") is not None else None
    st = impl_requests(lp.make_spec(), stream, chunks, prog)
    f = judge(stream, st, partial=prog is not None)
    print("strict:", repr(rfc9112.strict_stream(stream))[:2000])
    print("impl  :", repr([{k: v for k, v in i.items() if k != "headers"} for i in st])[:2000])
    print("verdict:", f)
    return 1 if f else 0
