"""C15 - the WSGI environ faithfully reflects the request that was received.

Requests are served by the real handle() of the three worker classes over a socketpair; the environ
captured inside the application is compared (step 3) with Model/Environ.v evaluated by the Coq kernel
and (step 4) with the reference mapping: the Python twin of Spec/EnvSpec.v in harness/lib_env.py,
which is itself tied to the Coq definitions by a second vm_compute correspondence (spec vs twin)."""
import vlib
import lib_env as L

P_OUT = ("8.8.8.8", 5002)
P_LOOP = ("127.0.0.1", 5000)
KINDS = ["sync", "gthread", "async"]
LISTED = ("REQUEST_METHOD", "RAW_URI", "SERVER_PROTOCOL", "QUERY_STRING", "CONTENT_LENGTH", "CONTENT_TYPE")


def request(target, headers=(), version=b"1.1", method=b"GET"):
    out = method + b" " + target + b" HTTP/" + version + b"\r\n"
    for n, v in headers:
        n = n if isinstance(n, bytes) else n.encode("latin-1")
        v = v if isinstance(v, bytes) else v.encode("latin-1")
        out += n + b":" + v + b"\r\n"
    return out + b"\r\n"


def fixed_targets():
    """(family, target bytes): every byte value raw and escaped, in path and query, in the four forms."""
    ts = []
    for x in range(256):
        raw = bytes([x])
        ts.append(("origin-path-raw", b"/p" + raw + b"q/r"))
        ts.append(("origin-query-raw", b"/p?k" + raw + b"v"))
        ts.append(("absolute-path-raw", b"http://h.example:8080/p" + raw + b"q"))
        ts.append(("absolute-query-raw", b"http://h.example/p?k" + raw + b"v"))
        ts.append(("dslash-path-raw", b"//p" + raw + b"q//r"))
        ts.append(("authority-raw", b"http://h" + raw + b"x/p"))
        up = b"%%%02X" % x
        lo = b"%%%02x" % x
        mixed = b"%" + (b"%X" % (x >> 4)).lower() + (b"%X" % (x & 15))
        for fam, esc in (("upper", up), ("lower", lo), ("mixed", mixed)):
            ts.append(("origin-path-esc-" + fam, b"/p" + esc + b"q"))
        ts.append(("origin-query-esc", b"/p?k=" + up + b"&" + lo))
        ts.append(("absolute-path-esc", b"http://h/p" + up + lo))
        ts.append(("dslash-path-esc", b"//" + up + b"/" + lo))
        ts.append(("esc-then-raw", b"/" + up + raw))
        # '%' followed by something that is not two hex digits
        ts.append(("pct-nonhex-1", b"/a%" + raw + b"1z"))
        ts.append(("pct-nonhex-2", b"/a%4" + raw + b"z"))
    special = [b"*", b"/", b"//", b"///x", b"/a//b", b"//a:b/c?d", b"//host/path?q#f", b"/a#b?c", b"/a?b#c#d", b"/a?b?c",
               b"/?", b"/#", b"/?#", b"/a?", b"/a#", b"?q", b"#f", b"a/b:c", b"a:b", b"a+b-c.d:e/f", b"1a:b", b"a_b:c", b"http:/p",
               b"http:p", b"http:///p", b"http://", b"http://h", b"http://h?q", b"http://h#f", b"HTTP://H/P", b"hTtP://h/%2f",
               b"http://[::1]:80/p", b"http://[::1/p", b"http://::1]/p", b"http://[v1.x]/p", b"http://[1.2.3.4]/p", b"http://u:p@h:1/p",
               b"http://h/a//b", b"http://h//a", b"https://h/p;x=1?y", b"/%", b"/%4", b"/%%41", b"/%25%34%31", b"/%2541", b"/%41%",
               b"/%zz%41", b"/a%2Fb%2fc", b"/%E2%82%AC", b"/\xe2\x82\xac", b"/%C3%A9\xc3\xa9", b"/a;b=c", b"/a%00b", b"/a%0d%0ab",
               b"/.%2e/x", b"/a+b?c+d", b"host.example:443", b"h:1", b"/" + b"a" * 300 + b"?" + b"b" * 300]
    for t in special:
        ts.append(("special", t))
    return ts


HEADER_SETS = [
    [],
    [("Foo", " 1"), ("Foo", " 2")],
    [("A", "1"), ("B", "2"), ("a", "3"), ("b", "4"), ("A", "5")],
    [("X-Long-Name-With-Hyphens", " v")],
    [("Foo", "  spaced \t value \t ")],
    [("Foo", ""), ("Foo", " x"), ("Foo", "")],
    [("Foo", " caf\xe9 \xff\x80")],
    [("Foo", " a,b"), ("Foo", " c")],
    [("Foo", "\x0bv\x0c"), ("Bar", "\xa0v\x85"), ("Baz", " \x1cv\x1f ")],     # str.strip() whitespace that is not OWS
    [("Content-Type", " text/plain")],
    [("content-type", " a/b; charset=x")],
    [("Content-Type", " Text/HTML; Charset=UTF-8"), ("X-Mixed", " AbC \xc9")],
    [("Content-Type", " a"), ("Content-Type", " b")],
    [("Content-Length", " 0")],
    [("Content-Length", " 007")],
    [("Content-Length", " 0"), ("Content-Length", " 0")],
    [("Content-Length", " +1")],
    [("Content-Length", " \xb2")],
    [("Host", " example.org"), ("Host", " evil.example")],
    [("Expect", " nothing")],
    [("Cookie", " a=1"), ("Cookie", " b=2")],
    [("X!#$%&'*+.^`|~", " tchar")],
    [("X_Underscore", " dropped")],
    [("Transfer-Encoding", " identity")],
    [("Transfer-Encoding", " gzip"), ("Connection", " keep-alive")],
    [("1", " numeric name"), ("-", " dash")],
]


def fixed_cases():
    cases = []
    n = 0
    for fam, t in fixed_targets():
        cases.append({"kind": KINDS[n % 3], "cfg": {}, "peer": P_OUT, "data": request(t, [("Host", " h")]), "tag": (fam,)})
        n += 1
    for hs in HEADER_SETS:
        for method, version in ((b"GET", b"1.1"), (b"POST", b"1.0"), (b"M-SEARCH", b"1.1")):
            cases.append({"kind": KINDS[n % 3], "cfg": {}, "peer": P_OUT, "data": request(b"/x?y", hs, version, method),
                          "tag": ("headers",)})
            n += 1
    # versions, methods
    for v in (b"1.1", b"1.0", b"1.9", b"0.9", b"2.0", b"1.10", b"1.", b"\xb2.1"):
        cases.append({"kind": KINDS[n % 3], "cfg": {}, "peer": P_OUT, "data": request(b"/", [], v), "tag": ("version",)})
        cases.append({"kind": KINDS[n % 3], "cfg": {"permit_unconventional_http_version": True}, "peer": P_OUT,
                      "data": request(b"/", [], v), "tag": ("version",)})
        n += 1
    for m in (b"GET", b"get", b"Get", b"PROPFIND", b"X", b"A" * 21, b"G#T", b"G$T", b"G:T", b"G\xe9T", b"CONNECT"):
        for over in ({}, {"permit_unconventional_http_method": True}, {"casefold_http_method": True, "permit_unconventional_http_method": True}):
            cases.append({"kind": KINDS[n % 3], "cfg": over, "peer": P_OUT, "data": request(b"/m", [], b"1.1", m), "tag": ("method",)})
            n += 1
    # SCRIPT_NAME from os.environ and from a trusted front end
    for sn in ("/app", "/a%20b", "/app/", "/"):
        for t in (b"/app/x", b"/app", b"/application/x", b"/%61pp/x", b"/app/%41?q", b"/a%20b/c%20d", b"/other", b"//app/x", b"http://h/app/x%2f"):
            cases.append({"kind": KINDS[n % 3], "cfg": {"os_script_name": sn}, "peer": P_OUT, "data": request(t), "tag": ("script-os",)})
            cases.append({"kind": KINDS[n % 3], "cfg": {}, "peer": P_LOOP, "data": request(t, [("SCRIPT_NAME", " " + sn)]), "tag": ("script-header",)})
            n += 1
    # the documented-unsafe switches (model only follows them; the theorem excludes them)
    for over, hs in (({"strip_header_spaces": True}, [("Foo \t", " 1")]), ({"strip_header_spaces": False}, [("Foo ", " 1")]),
                     ({"permit_obsolete_folding": True}, [("Foo", " 1\r\n  folded\r\n\tmore")]),
                     ({"permit_obsolete_folding": False}, [("Foo", " 1\r\n  folded")]),
                     ({"header_map": "dangerous"}, [("X-A", " 1"), ("X_A", " 2")]),
                     ({"header_map": "refuse"}, [("X_A", " 2")]),
                     # names that differ from a specially treated one by '-' / '_' only are different fields
                     ({"header_map": "dangerous"}, [("Content-Type", " text/plain"), ("Content_Type", " application/json")]),
                     ({"header_map": "dangerous"}, [("Content_Length", " 7")]),
                     ({"header_map": "dangerous"}, [("Content_Type", " x/y"), ("Host_", " h2"), ("Expect_", " 100-continue")]),
                     ({"header_map": "drop"}, [("Content_Type", " x/y"), ("Content-Type", " a/b")]),
                     ({}, [("Script-Name", " /unsafe")]),
                     ({"header_map": "dangerous"}, [("Script-Name", " /unsafe"), ("X-Y", " 1")]),
                     ({"limit_request_fields": 2}, [("A", "1"), ("B", "2"), ("C", "3")]),
                     ({"limit_request_field_size": 10}, [("A", " 123456789012")]),
                     ({"limit_request_line": 10}, [])):
        cases.append({"kind": KINDS[n % 3], "cfg": over, "peer": P_OUT, "data": request(b"/unsafe/x", hs), "tag": ("switches",)})
        if hs and hs[0][0] == "Script-Name":
            cases.append({"kind": KINDS[(n + 1) % 3], "cfg": over, "peer": P_LOOP, "data": request(b"/unsafe/x", hs), "tag": ("switches",)})
        n += 1
    return cases


ALPHABET = [b"/", b"/", b"a", b"b", b"%41", b"%2F", b"%2f", b"%", b"%4", b"%zz", b"?", b"#", b":", b"//", b"@", b"[", b"]", b";",
            b"=", b"&", b"+", b"\xe9", b"\xff", b"%E9", b"%00", b"%25", b".", b"..", b"*", b"~", b"http:", b"1"]
HNAMES = ["Foo", "foo", "FOO", "X-Bar", "x-bar", "Content-Type", "Content-Length", "Accept", "X_Us", "Host", "A", "a",
          "Content_Type", "Content_Length", "Script-Name", "X-Us", "content_type", "X.Bar", "X~Bar", "X.Us", "Content.Type"]
HVALS = [" 1", " 2", "3", "", " a,b", " \xe9", " x y ", "\t t\t", " 0", " 12", " AbC", " \xc9\xe9", "\x0bq\xa0"]


def gen_random(rng):
    t = b"".join(rng.choice(ALPHABET) for _ in range(rng.randint(1, 9)))
    r = rng.random()
    if r < 0.6:
        t = b"/" + t
    elif r < 0.75:
        t = b"http://h" + rng.choice([b"", b":80", b".x"]) + b"/" + t
    elif r < 0.8:
        t = b"//" + t
    hs = []
    for _ in range(rng.choice([0, 1, 2, 3, 5])):
        n = rng.choice(HNAMES)
        v = rng.choice(HVALS)
        if n.lower() == "content-length" and any(h[0].lower() == "content-length" for h in hs):
            continue
        hs.append((n, v))
    cfg = {}
    if rng.random() < 0.2:
        cfg["os_script_name"] = rng.choice(["/a", "/", "/ab"])
    if rng.random() < 0.2:
        cfg["header_map"] = rng.choice(["drop", "refuse", "dangerous"])
    peer = rng.choice([P_OUT, P_LOOP, ""])
    data = request(t, hs, rng.choice([b"1.1", b"1.1", b"1.0"]), rng.choice([b"GET", b"POST", b"DELETE"]))
    if rng.random() < 0.1 and len(data) > 4:
        i = rng.randrange(len(data))
        data = data[:i] + bytes([rng.randrange(256)]) + data[i + 1:]
    return {"kind": rng.choice(KINDS), "cfg": cfg, "peer": peer, "data": data, "tag": ("random",)}


# ---- the property, judged on the real environ --------------------------------------------------------------

def judge(case):
    fails = []
    if not case["envs"]:
        return fails
    full = L.full_cfg(case["cfg"])
    if full["strip_header_spaces"] or full["permit_obsolete_folding"] or full["casefold_http_method"]:
        return fails                    # documented-unsafe parser switches: outside the property (DESIGN.md section 5)
    env = case["envs"][0]
    proxy_line, reqs = L.split_requests(case["data"])
    if not reqs:
        return fails
    pr = L.ref_parse_request(reqs[0])
    if pr is None:
        return fails
    if pr[0] == b"CONNECT":
        return fails                    # authority-form: outside the property's quantifier
    exp, refuse = L.ref_env(case["cfg"], case["peer"], reqs[0], None)
    names = [L.ascii_upper(n) for n, _ in pr[3]]
    for var in LISTED:
        if env.get(var) != exp.get(var):
            key = "content-type-last-wins" if (var == "CONTENT_TYPE" and names.count(b"CONTENT-TYPE") > 1) else None
            fails.append((key, "%s = %r, reference %r (target %r)" % (var, env.get(var), exp.get(var), pr[1])))
    bad_path = L.ref_path_check(env, exp)
    if bad_path:
        fails.append((None, "%s (target %r)" % (bad_path, pr[1])))
    got = {k: v for k, v in env.items() if k.startswith("HTTP_")}
    want = {k: v for k, v in exp.items() if k.startswith("HTTP_")}
    if got != want:
        diff = sorted(set(got.items()) ^ set(want.items()))
        fails.append((None, "HTTP_* variables differ from the reference mapping: %r" % (diff[:4],)))
    return fails


def judge_fresh(case):
    c = dict(case)
    c["envs"], c["errs"], c["codes"] = L.run_conn(c["kind"], c["cfg"], c["peer"], c["data"])
    return judge(c)


def report(ctx, case, fails):
    done = set()
    for key, what in fails:
        if key in done:
            continue
        done.add(key)
        if key is not None and ctx.known.has(ctx.prop, key):
            ctx.violation(what, {}, key=key)
            continue
        small = L.shrink_case(case, lambda cc: [f for f in judge_fresh(cc) if f[0] == key])
        f2 = [f for f in judge_fresh(small) if f[0] == key] or [(key, what)]
        rep = L.case_json(small)
        rep["failures"] = [w for _, w in f2]
        rep["environs"] = L.run_conn(small["kind"], small["cfg"], small["peer"], small["data"])[0]
        ctx.violation(f2[0][1], rep, key=key)


# ---- the twin against the Coq reference ----------------------------------------------------------------------

def twin_target_obs(t):
    scheme, authority, path, query, fragment = L.ref_split_target(t)
    return (vlib.enc_opt(vlib.enc_bytes, authority) + vlib.enc_bytes(path) + vlib.enc_bytes(query) + vlib.enc_bytes(fragment)
            + vlib.enc_bytes(L.ref_pct_decode(path)))


def twin_fields_obs(data):
    pr = L.ref_parse_request(data)
    if pr is None:
        return [0]
    out = [1] + vlib.enc_bytes(pr[0]) + vlib.enc_bytes(pr[1]) + vlib.enc_bytes(pr[2])
    fl = []
    for n, v in pr[3]:
        un = L.ascii_upper(n)
        if un == b"CONTENT-TYPE":
            k = b"CONTENT_TYPE"
        elif un == b"CONTENT-LENGTH":
            k = b"CONTENT_LENGTH"
        else:
            k = b"HTTP_" + un.replace(b"-", b"_")
        fl.append((k, v))
    return out + vlib.enc_list(lambda kv: vlib.enc_bytes(kv[0]) + vlib.enc_bytes(kv[1]), fl)


def spec_correspondence(ctx, cases):
    """Spec/EnvSpec.v (Coq) vs its Python twin, on every target and every well-formed head of the run."""
    items = []
    seen = set()
    for c in cases:
        proxy_line, reqs = L.split_requests(c["data"])
        for raw in reqs[:1]:
            pr = L.ref_parse_request(raw)
            if pr is None:
                # the Coq reference and the twin must agree on what is not a head, too
                if raw not in seen and b" " in raw.split(b"\r\n")[0]:
                    seen.add(raw)
                    items.append(("spec_fields_obs %s%%N" % L.B(raw), twin_fields_obs(raw), ("head", raw)))
                continue
            if pr[1] not in seen:
                seen.add(pr[1])
                items.append(("spec_target_obs %s%%N" % L.B(pr[1]), twin_target_obs(pr[1]), ("target", pr[1])))
            if raw not in seen:
                seen.add(raw)
                items.append(("spec_fields_obs %s%%N" % L.B(raw), twin_fields_obs(raw), ("head", raw)))
    before = ctx.cov["traces_validated_against_impl"]
    bad = ctx.correspond("spec", L.HEADER, items, shard=400)
    ctx.cov["traces_validated_against_impl"] = before      # these are reference-vs-twin items, not implementation traces
    ctx.extra["spec_vs_twin_items"] = len(items)
    ctx.extra["spec_vs_twin_agree"] = len(items) - len(bad or [])
    if bad:
        i, m, im = bad[0]
        ctx.broken.append("correspondence Spec/EnvSpec.v vs its Python twin: %d of %d items differ; first: %r coq=%r twin=%r"
                          % (len(bad), len(items), items[i][2], m, im))
        ctx.log("SPEC TWIN: %d items differ, e.g. %r" % (len(bad), items[i][2]))
    return bad


def run(ctx):
    ok = ctx.build()
    cases = fixed_cases()
    n_fixed = len(cases)
    n_random = 1500 if ctx.quick() else 300000 // 8
    for _ in range(n_random):
        cases.append(gen_random(ctx.rng))
    ctx.log("%d fixed requests + %d random" % (n_fixed, n_random))
    bad = L.run_cases(ctx, "req", cases, shard=300)
    served = 0
    for c in cases:
        ctx.hist("family", c["tag"][0])
        ctx.hist("outcome", "served" if c["envs"] else (str(c["errs"][0]) if c["errs"] else "closed"))
        served += 1 if c["envs"] else 0
        ctx.count_case((c["kind"], repr(sorted(c["cfg"].items())), c["peer"], c["data"]), bool(c["envs"]))
    for c in cases[7:n_fixed:1500] + cases[n_fixed:n_fixed + 2]:
        ctx.sample({"worker": c["kind"], "cfg": c["cfg"], "peer": c["peer"], "data": c["data"].decode("latin-1"),
                    "environs": c["envs"], "error_statuses": c["errs"]})
    ctx.cov["rule"] = ("fixed corpus: for each of the 256 byte values, raw and %%-escaped (upper / lower / mixed-case hex) in path and query of "
                       "origin-form, absolute-form and '//'-prefixed targets and in the authority, '%%' followed by non-hex at both positions; "
                       "special targets (asterisk, authority-form, fragments, empty components, bracketed hosts, double escapes); %d header "
                       "sets (repeats, case variants, OWS, non-ASCII values, Content-Type / Content-Length forms) x 3 method/version pairs; "
                       "methods, versions, SCRIPT_NAME from os.environ and from a trusted peer's header, the parser switches; worker class "
                       "rotating; then %d seeded random requests (targets over an alphabet of delimiters / escapes / raw bytes, random header "
                       "lists, 10%% with one byte mutated). non-trivial = the request was served (an environ exists to be judged); distinct by "
                       "(worker, settings, peer, bytes)" % (len(HEADER_SETS), n_random))
    ctx.extra["served"] = served
    # step 4
    nfail = 0
    for c in cases:
        fails = judge(c)
        if fails:
            nfail += 1
            if len(ctx.violations) < 3:
                report(ctx, c, fails)
            else:
                for key, what in fails:
                    if key is not None and ctx.known.has(ctx.prop, key):
                        ctx.violation(what, {}, key=key)
    ctx.log("oracle: %d of %d requests fail the reference (%d served)" % (nfail, len(cases), served))
    sbad = spec_correspondence(ctx, cases)
    if bad:
        i = bad[0]
        c = cases[i]
        ctx.broken.append("correspondence Model/Environ.v vs the workers' handle(): %d of %d requests differ; first: %r model=%r impl=%r"
                          % (len(bad), len(cases), L.case_json(c), c.get("model"), c["obs"]))
        ctx.log("CORRESPONDENCE: %d requests differ, e.g. %r" % (len(bad), L.case_json(c)))
    if (bad or bad is None or not ok or sbad or sbad is None) and not ctx.violations:
        search(ctx, [cases[i] for i in (bad or [])[:40]])


def search(ctx, seeds):
    ctx.log("failing-input search (oracle only) ...")
    tried = 0
    for s in seeds:
        for kind in KINDS:
            c = dict(s, kind=kind)
            tried += 1
            fails = [f for f in judge_fresh(c) if not (f[0] and ctx.known.has(ctx.prop, f[0]))]
            if fails:
                report(ctx, c, fails)
                return
    for _ in range(40000 if ctx.quick() else 300000):
        c = gen_random(ctx.rng)
        tried += 1
        fails = [f for f in judge_fresh(c) if not (f[0] and ctx.known.has(ctx.prop, f[0]))]
        if fails:
            report(ctx, c, fails)
            break
    ctx.extra["search_requests"] = tried


def replay(rep):
    case = L.case_from_json(rep)
    envs, errs, codes = L.run_conn(case["kind"], case["cfg"], case["peer"], case["data"])
    case.update(envs=envs, errs=errs, codes=codes)
    print("worker:", case["kind"], "peer:", case["peer"], "settings:", case["cfg"])
    print("bytes:", case["data"])
    for e in envs:
        print("environ:", e)
    print("statuses on the wire:", codes)
    fails = judge(case)
    for key, what in fails:
        print("FAILS:", what, "(known key %s)" % key if key else "")
    return 1 if fails else 0
