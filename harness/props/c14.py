"""C14 - binary upgrade (USR2) hands the listening sockets over without a gap.

Layers:
 1. decision points of the REAL Arbiter on the simulated kernel, against Model/Upgrade.v (two master slots, pid files, unix
    socket file).  One slot is played by the real gunicorn.arbiter.Arbiter (as the original master, or as a re-executed
    child started with GUNICORN_PID / GUNICORN_FD), the other by a stub that is always in one of two trivial situations
    (child of the real master / parent of the real master).  A history is a list of model events; each event of the real
    slot is a signal followed by master steps until it idles again; the state at every quiescent point (reexec_pid,
    master_pid, pid-file name, exit status, pid files on disk, socket file, fork+exec count) is compared with the model.
 2. the exec hand-over: environment built by the child branch of reexec() (fork returns 0, execvpe captured) is given to a
    second real Arbiter.start(): same listeners adopted, master_pid set, '.2' pid file.
 3. REAL processes: two real masters on a unix / TCP bind with clients connecting throughout, every ordering the property
    names.
"""
import os
import signal as _signal
import threading
import time

import lib_arbiter as L
import lib_arb2 as A
import vlib

SIG = A.SIG
PARENT = 40
SELF = A.SELF_PID
SOCK = "/run/gv/u.sock"

KEY_HUPCHILD = "hup-child-master-pidfile"
KEY_BOTHSTOP = "simultaneous-stop-leaves-socket"


# ---------------------------------------------------------------------------------------------------------------------
# the driver: macro events on the real master, trivial stub for the other slot
# ---------------------------------------------------------------------------------------------------------------------

class Up:
    """One history.  real_slot 'A': the real Arbiter is the original master; 'B': it is the re-executed child of a stub."""

    def __init__(self, cfg, real_slot, events):
        self.cfg = cfg
        self.real = real_slot
        self.events = list(events)
        self.obs = []
        self.model_events = []
        self.stub = None          # dict(pid, alive, role 'child'|'parent', workers, pname)
        self.stub_history = []
        self.notes = []

    # ---- low-level label generation --------------------------------------------------------------------------------
    def run(self):
        cfg = self.cfg
        binds = ["unix:" + SOCK] if cfg["unix"] else ["127.0.0.1:8000"]
        kw = dict(workers=1, timeout=30, graceful=1, pidfile=("g.pid" if cfg["pidconf"] else None), binds=binds,
                  daemon=cfg["daemon"], reuse_port=False)
        if self.real == "B":
            kw["master_pid"] = PARENT
            kw["inherited"] = {10: SOCK if cfg["unix"] else ("127.0.0.1", 8000)}
            kw["live"] = (PARENT,)
        w = A.World2(**kw)
        self.w = w
        if self.real == "B":
            self.stub = {"pid": PARENT, "alive": True, "role": "parent", "workers": 1, "pname": 1}
            if cfg["pidconf"]:
                with open(w.pidpath("g.pid"), "w") as fh:
                    fh.write("%d\n" % PARENT)
        self.queue = []
        self.pending = list(self.events)
        self.phase = "boot"
        self.seen_dispatch = False
        self.seen_ppid = False
        self.cur_event = None
        self.nforks_master = 0
        try:
            w.run([], policy=self.policy)
            self.final()
        finally:
            w.cleanup()
        return self

    def master_kids(self):
        return [k for k in self.w.kids if k["master"]]

    def idle(self):
        w = self.w
        return w.cur[0] == L.Y_SELECT and list.__len__(w.arbiter.SIG_QUEUE) == 0

    def policy(self, w):
        """called at every yield point once the (empty) script is exhausted: decide the next label"""
        if self.queue:
            return self.queue.pop(0)
        # a child master forked by the real master starts at once (stub)
        self.adopt_new_child()
        code = w.cur[0]
        # told workers exit while the master waits in stop(); SIGCHLD is delivered
        if w.stopping_at is not None and code in (L.Y_SLEEP, L.Y_WLEN):
            dying = [k for k in w.kids if k["st"] == "R" and not k["master"] and any(s in L.FATAL for s in k["sigs"])]
            if dying:
                self.queue = [("X", k["pid"], 0) for k in dying] + [("C",), ("M",)]
                return self.queue.pop(0)
        if self.phase == "boot":
            if self.idle():
                self.phase = "ready"
                self.snap(None)
            else:
                return ("M",)
        if self.phase == "busy":
            ev = self.cur_event
            if ev[0] == "loop":
                if code == L.Y_QLEN:
                    self.seen_dispatch = True          # passed the top of the loop (after maybe_promote_master)
                if self.seen_dispatch and self.idle():
                    self.phase = "ready"
                    self.snap(ev)
                else:
                    return ("M",)
            else:
                if code == L.Y_QLEN and list.__len__(w.arbiter.SIG_QUEUE) > 0:
                    self.seen_dispatch = True
                if self.seen_dispatch and self.idle():
                    self.phase = "ready"
                    self.snap(ev)
                else:
                    return ("M",)
        # ready: next macro event
        while self.pending:
            ev = self.pending.pop(0)
            out = self.begin(ev)
            if out is None:
                continue              # the event was carried out entirely by the stub / environment
            return out
        return None

    def begin(self, ev):
        """start a macro event; returns the first label, or None when nothing is left to do for the real master"""
        w = self.w
        kind, slot = ev
        real = slot == self.real
        if kind in ("USR2", "Stop", "HUP", "WINCH") and real:
            signo = {"USR2": SIG["USR2"], "Stop": self.cfg.get("stop_sig", SIG["TERM"]), "HUP": SIG["HUP"], "WINCH": SIG["WINCH"]}[kind]
            self.phase = "busy"
            self.cur_event = ("sig", ev)
            self.seen_dispatch = False
            self.queue = [("M",)]
            return ("S", signo)
        if kind == "NoticeParent" and real:
            self.phase = "busy"
            self.cur_event = ("loop", ev)
            self.seen_dispatch = False
            return ("M",)
        if kind == "NoticeChild" and real:
            self.queue = []
            self.after_direct = ev
            # the handler runs at once; observe afterwards
            self.phase = "busy"
            self.cur_event = ("loop", ev)
            self.seen_dispatch = False
            self.queue = [("M",)]
            return ("C",)
        # ---- events of the stub ----
        self.stub_event(kind)
        self.snap(("stub", ev))
        return None

    def adopt_new_child(self):
        """the real master forked a master kid: the stub child 'starts' (writes its '.2' pid file)"""
        w = self.w
        mk = [k for k in w.kids if k["master"] and k["st"] == "R"]
        known = self.stub["pid"] if self.stub and self.stub["role"] == "child" else None
        for k in mk:
            if k["pid"] != known and k["pid"] not in [h["pid"] for h in self.stub_history]:
                self.stub = {"pid": k["pid"], "alive": True, "role": "child", "workers": 1, "pname": 2 if self.cfg["pidconf"] else 1}
                self.stub_history.append(self.stub)
                if self.cfg["pidconf"]:
                    p2 = w.pidpath("g.pid.2")
                    holder = self.read_pid(p2)
                    if holder is not None and self.pid_alive(holder) and holder != k["pid"]:
                        # Pidfile.create would raise in the child's start(): it exits with status 1
                        self.stub["alive"] = False
                        self.stub["status"] = 1
                        k["st"] = "Z"
                        k["status"] = 256
                    else:
                        with open(p2, "w") as fh:
                            fh.write("%d\n" % k["pid"])

    def read_pid(self, path):
        try:
            with open(path) as fh:
                return int(fh.read().strip())
        except (OSError, ValueError):
            return None

    def pid_alive(self, pid):
        w = self.w
        if pid == SELF:
            return w.outcome is None
        if pid in w.live:
            return True
        return any(k["pid"] == pid and k["st"] == "R" for k in w.kids)

    def stub_event(self, kind):
        """what the stub master does, in the two situations it can be in while the real master lives"""
        w = self.w
        st = self.stub
        if st is None or not st["alive"]:
            return
        pid = st["pid"]
        pidconf = self.cfg["pidconf"]
        myfile = w.pidpath("g.pid" if st["pname"] == 1 else "g.pid.2") if pidconf else None

        def die(status):
            st["alive"] = False
            st["status"] = status
            if st["role"] == "child":
                w.apply_env(("X", pid, status << 8))
            else:
                w.apply_env(("L", pid, False))
                w.apply_env(("P",))

        if kind == "Stop":
            # a child (master_pid != 0) or a parent with a live child (reexec_pid != 0): the socket file stays
            if pidconf and self.read_pid(myfile) == pid:
                os.unlink(myfile)
            die(0)
        elif kind == "HUP":
            st["workers"] = 1
            if pidconf:
                if self.read_pid(myfile) == pid:
                    os.unlink(myfile)
                main = w.pidpath("g.pid")
                holder = self.read_pid(main)
                if holder is not None and holder != pid and self.pid_alive(holder):
                    st["pname"] = 1
                    die(255)               # RuntimeError in reload(): stop(False); sys.exit(-1)
                else:
                    with open(main, "w") as fh:
                        fh.write("%d\n" % pid)
                    st["pname"] = 1
        elif kind == "WINCH":
            if self.cfg["daemon"]:
                st["workers"] = 0
        # USR2 (ignored: it has a live child / parent), NoticeChild, NoticeParent: nothing happens

    # ---- observation ----------------------------------------------------------------------------------------------------
    def real_obs(self):
        w = self.w
        a = w.arbiter
        if w.outcome is not None and w.outcome[0] == "exit":
            alive, status = 0, w.outcome[1] & 0xFF
        elif w.outcome is not None and w.outcome[0] != "done":
            alive, status = 0, 999
        else:
            alive, status = 1, 0
        pname = 1
        if a.pidfile is not None and os.path.basename(a.pidfile.fname).endswith(".2"):
            pname = 2
        if not alive:
            return [0, status, 0, 0, 0, 0]
        return [alive, status, 1 if a.reexec_pid else 0, 1 if a.master_pid else 0, pname, int(a.num_workers)]

    def stub_obs(self):
        st = self.stub
        if st is None:
            return [0, 0, 0, 0, 0, 0]
        if not st["alive"]:
            return [0, st.get("status", 0), 0, 0, 0, 0]
        if st["role"] == "child":
            rx, mp = 0, 1
        else:
            rx, mp = 1, 0
        return [1 if st["alive"] else 0, st.get("status", 0), rx, mp, st["pname"], st["workers"]]

    def owner(self, pid):
        if pid is None:
            return 0
        slots = {"A": 1, "B": 2}
        if pid == SELF:
            return slots[self.real]
        if self.stub is not None and pid == self.stub["pid"]:
            return 3 - slots[self.real]
        return 3

    def snap(self, ev):
        w = self.w
        ro, so = self.real_obs(), self.stub_obs()
        a, b = (ro, so) if self.real == "A" else (so, ro)
        pidconf = self.cfg["pidconf"]
        fs = [self.owner(self.read_pid(w.pidpath("g.pid"))) if pidconf else 0,
              self.owner(self.read_pid(w.pidpath("g.pid.2"))) if pidconf else 0,
              1 if (self.cfg["unix"] and SOCK not in w.fs_unlinked) else 0,
              sum(1 for _, m, _ in w.forks if m) + (1 if self.real == "B" else 0)]
        self.obs.append((ev, a + b + fs))

    def final(self):
        # the real master exited (or the history ended): one last observation if an event was in progress
        if self.phase == "busy":
            self.adopt_new_child()
            self.snap(self.cur_event)
            self.phase = "ready"


# ---------------------------------------------------------------------------------------------------------------------
# the model side
# ---------------------------------------------------------------------------------------------------------------------

HEADER = """From Coq Require Import List ZArith Bool.
From GV Require Import Model.Upgrade.
Import ListNotations.
Open Scope Z_scope.
"""


def coq_cfg(cfg):
    return "(mkCfg %s %s %s false 1)" % tuple(vlib.coq_bool(cfg[k]) for k in ("pidconf", "unix", "daemon"))


def coq_event(ev, real):
    kind, slot = ev
    e = "%s %s" % (kind, slot)
    # every signal handled by the real master is preceded by the top of its main loop (maybe_promote_master)
    if slot == real and kind in ("USR2", "Stop", "HUP", "WINCH"):
        return ["NoticeParent %s" % slot, e]
    if slot == real and kind == "NoticeChild":
        return [e, "NoticeParent %s" % slot]          # the handler, then one turn of the main loop
    return [e]


def model_expr(cfg, real, executed):
    """executed: the macro events that were actually carried out, in order.  The observation after each of them."""
    pre = "(run %s (init %s) [USR2 A])" % (coq_cfg(cfg), coq_cfg(cfg)) if real == "B" else "(init %s)" % coq_cfg(cfg)
    parts = ["obs %s" % pre]
    acc = []
    for ev in executed:
        acc += coq_event(ev, real)
        parts.append("obs (run %s %s [%s])" % (coq_cfg(cfg), pre, "; ".join(acc)))
    return " ++ ".join("(%s)" % p for p in parts)


# ---------------------------------------------------------------------------------------------------------------------
# oracle on a simulated history (independent of the model): the statements of the property
# ---------------------------------------------------------------------------------------------------------------------

def judge(cfg, real, u):
    fails = []
    w = u.w
    if w.outcome is not None and w.outcome[0] in ("error", "crash"):
        fails.append(("unexpected exception in the master: %r" % (w.outcome,), None))
    slots = {"A": 0, "B": 6}
    r0 = slots[real]
    s0 = 6 - r0
    prev = None
    for ev, o in u.obs:
        real_alive, stub_alive = o[r0], o[s0]
        # whichever master exits first leaves the socket file to the other
        if cfg["unix"] and (real_alive or stub_alive) and o[14] == 0:
            fails.append(("the unix socket file was unlinked while a master is still alive (after %r)" % (ev,), None))
        # a second USR2 while an upgrade is pending is ignored / at most one fork+exec per accepted USR2
        if prev is not None and ev is not None and ev[0] == "sig" and ev[1][0] == "USR2":
            pending = prev[s0]            # the other master is alive
            if pending and o[15] != prev[15]:
                fails.append(("USR2 while an upgrade is pending forked another master", None))
            if not pending and prev[r0] and not prev[r0 + 2] and o[15] != prev[15] + 1:
                fails.append(("USR2 on a single master did not start a new master", None))
        # pid files: a live master that was started as a child of a live master holds '<pidfile>.2', the other the configured name
        if cfg["pidconf"]:
            me = 1 if real == "A" else 2
            if real_alive and o[r0 + 3] and stub_alive and o[13] != me:
                fails.append(("the re-executed master does not hold '<pidfile>.2' while its parent lives (after %r): holder %d" % (ev, o[13]), None))
            if real_alive and not o[r0 + 3] and o[12] != me:
                fails.append(("the single / old master does not hold the configured pid file (after %r): holder %d" % (ev, o[12]),
                              None))
            if stub_alive and (o[12] if o[s0 + 4] == 1 else o[13]) != 3 - me:
                fails.append(("the pid file of the other (live) master was removed or overwritten (after %r)" % (ev,), None))
        # HUP must not end a master
        if prev is not None and ev is not None and ev[0] == "sig" and ev[1][0] == "HUP" and prev[r0] and not real_alive:
            key = KEY_HUPCHILD if (cfg["pidconf"] and prev[r0 + 3] and prev[s0]) else None
            fails.append(("HUP ended the master (exit status %d): reload() found the other master's pid file under the configured name"
                          % o[r0 + 1], key))
        prev = o
    # last exit unlinks the socket file - when the last master knew it was alone
    if cfg["unix"] and u.obs:
        ev, o = u.obs[-1]
        if not o[r0] and not o[s0] and o[14] == 1:
            last_real = any(e is not None and e[0] == "sig" and e[1][0] == "Stop" for e, _ in u.obs[-1:])
            if last_real:
                before = u.obs[-2][1]
                knew = not before[r0 + 2] and not before[r0 + 3]
                if knew:
                    fails.append(("the last master to exit knew it was alone but left the unix socket file", None))
    return fails


# ---------------------------------------------------------------------------------------------------------------------
# generators
# ---------------------------------------------------------------------------------------------------------------------

def base_cfg(pidconf=True, unix=True, daemon=False):
    return {"pidconf": pidconf, "unix": unix, "daemon": daemon}


def fixed_cases():
    cs = []
    for pidconf in (True, False):
        for unix in (True, False):
            c = base_cfg(pidconf, unix)
            cd = base_cfg(pidconf, unix, daemon=True)
            # real = old master
            cs.append((c, "A", [("USR2", "A"), ("USR2", "A"), ("Stop", "A")]))                        # second USR2, old exits first
            cs.append((c, "A", [("USR2", "A"), ("Stop", "B"), ("USR2", "A"), ("NoticeChild", "A"), ("USR2", "A"), ("Stop", "A")]))
            cs.append((c, "A", [("USR2", "A"), ("Stop", "B"), ("NoticeChild", "A"), ("Stop", "A")]))  # rollback, then last exit
            cs.append((c, "A", [("USR2", "A"), ("Stop", "B"), ("Stop", "A")]))                        # child death not yet noticed
            cs.append((cd, "A", [("USR2", "A"), ("WINCH", "A"), ("Stop", "B"), ("NoticeChild", "A"), ("HUP", "A"), ("USR2", "A")]))
            cs.append((c, "A", [("USR2", "A"), ("HUP", "A"), ("HUP", "B"), ("NoticeChild", "A"), ("USR2", "A")]))
            cs.append((c, "A", [("HUP", "A"), ("USR2", "A"), ("HUP", "A"), ("Stop", "A")]))
            # real = new master
            cs.append((c, "B", [("USR2", "B"), ("Stop", "A"), ("NoticeParent", "B"), ("USR2", "B"), ("USR2", "B"), ("Stop", "B")]))
            cs.append((c, "B", [("Stop", "A"), ("Stop", "B")]))
            cs.append((c, "B", [("Stop", "A"), ("USR2", "B"), ("Stop", "A"), ("NoticeChild", "B"), ("Stop", "B")]))
            cs.append((c, "B", [("Stop", "B")]))                                                     # rollback seen from the child
            cs.append((c, "B", [("HUP", "B")]))                                                      # HUP to the child while the parent lives
            cs.append((c, "B", [("Stop", "A"), ("HUP", "B"), ("Stop", "B")]))
            cs.append((cd, "B", [("WINCH", "A"), ("HUP", "A"), ("WINCH", "B"), ("Stop", "A"), ("NoticeParent", "B"), ("HUP", "B"), ("Stop", "B")]))
    return cs


def gen_random(rng):
    cfg = base_cfg(rng.random() < 0.7, rng.random() < 0.7, rng.random() < 0.3)
    cfg["stop_sig"] = rng.choice([SIG["TERM"], SIG["TERM"], SIG["QUIT"], SIG["INT"]])
    real = rng.choice(["A", "B"])
    n = rng.randint(1, 9)
    evs = []
    kinds = ["USR2", "USR2", "Stop", "NoticeChild", "NoticeParent", "HUP", "WINCH"]
    for _ in range(n):
        k = rng.choice(kinds)
        slot = rng.choice(["A", "B", real])
        evs.append((k, slot))
    if rng.random() < 0.5:
        evs.append(("Stop", real))
    return cfg, real, evs


def run_history(cfg, real, evs):
    u = Up(cfg, real, evs)
    u.run()
    return u


def executed_events(u):
    """macro events in the order in which they were observed"""
    out = []
    for ev, _ in u.obs[1:]:
        if ev is None:
            continue
        out.append(ev[1])
    return out


def run_sim(ctx):
    cases = fixed_cases()
    n = 700 if ctx.quick() else 8000
    for _ in range(n):
        cases.append(gen_random(ctx.rng))
    corr = []
    nfail = 0
    for cfg, real, evs in cases:
        u = run_history(cfg, real, evs)
        ex = executed_events(u)
        ctx.count_case((tuple(sorted(cfg.items())), real, tuple(evs)), nontrivial=any(k == "USR2" for k, _ in ex) or real == "B")
        ctx.hist("real_slot", real)
        ctx.hist("events", len(ex))
        for k, sl in ex:
            ctx.hist("event", k + ("(real)" if sl == real else "(stub)"))
        flat = []
        for _, o in u.obs:
            flat += o
        corr.append((model_expr(cfg, real, ex), flat, {"cfg": cfg, "real": real, "events": [list(e) for e in evs]}))
        fs = judge(cfg, real, u)
        for text, key in fs:
            nfail += 1
            ctx.violation(text, {"kind": "history", "cfg": cfg, "real": real, "events": [list(e) for e in evs],
                                 "observations": [[repr(e), o] for e, o in u.obs]}, key=key)
        if len(ex) >= 4:
            ctx.sample({"cfg": cfg, "real": real, "events": [list(e) for e in evs]})
    ctx.log("ran %d upgrade histories on the real Arbiter; %d oracle failures" % (len(cases), nfail))
    bad = ctx.correspond("upgrade", HEADER, corr, shard=120)
    if bad:
        i, m, im = bad[0]
        k = next((j for j in range(min(len(m), len(im))) if m[j] != im[j]), min(len(m), len(im)))
        ctx.broken.append("correspondence Model/Upgrade.v vs gunicorn/arbiter.py: %d of %d histories differ; first: %r (observation %d, field %d: model %r impl %r)"
                          % (len(bad), len(corr), corr[i][2], k // 16, k % 16, m[16 * (k // 16):16 * (k // 16) + 16], im[16 * (k // 16):16 * (k // 16) + 16]))
        ctx.log("CORRESPONDENCE: %d histories differ" % len(bad))
    return bad


def run(ctx):
    ok = ctx.build()
    run_sim(ctx)
    ctx.cov["rule"] = ("upgrade histories: sequences of <= 10 events {USR2, TERM, child exit noticed (SIGCHLD), parent death noticed (main loop), "
                       "HUP, WINCH} addressed to either master, the real Arbiter playing the old master or the re-executed one; configurations "
                       "vary pid file, unix / TCP bind, daemon; non-trivial = a fork+exec happened; distinct by (configuration, role, history)")


def replay(rep):
    cfg, real = rep["cfg"], rep["real"]
    evs = [tuple(e) for e in rep["events"]]
    u = run_history(cfg, real, evs)
    for e, o in u.obs:
        print(e, o)
    fs = judge(cfg, real, u)
    print("oracle failures:", fs)
    return 1 if fs else 0
