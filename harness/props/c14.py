"""C14 - binary upgrade (USR2) hands the listening sockets over without a gap.

Layers:
 1. decision points of the REAL Arbiter on the simulated kernel, against Model/Upgrade.v (two master slots, pid files, unix
    socket file).  One slot is played by the real gunicorn.arbiter.Arbiter (as the original master, or as a re-executed
    child started with GUNICORN_PID / GUNICORN_FD), the other by a stub that is always in one of two trivial situations
    (child of the real master / parent of the real master).  A history is a list of model events; each event of the real
    slot is a signal followed by master steps until it idles again; the state at every quiescent point (reexec_pid,
    master_pid, pid-file name, exit status, pid files on disk, socket file, fork+exec count) is compared with the model.
 2. the exec hand-over: environment built by the child branch of reexec() (fork returns 0, execvpe captured) is given to a
    second real Arbiter.start(): same listeners adopted, master_pid set, '.2' pid file.
 3. REAL processes: two real masters on a unix / TCP bind with clients connecting throughout, every ordering the property
    names.
"""
import os
import signal as _signal
import threading
import time

import lib_arbiter as L
import lib_arb2 as A
import vlib

SIG = A.SIG
PARENT = 40
SELF = A.SELF_PID
SOCK = "/run/gv/u.sock"

def _reload_dot2():
    """does reload() of the tree under test keep '.2' while master_pid != 0?  (same reading as gen_upgrade.py)"""
    import inspect
    import gunicorn.arbiter as ga
    src = inspect.getsource(ga.Arbiter.reload)
    return "Pidfile(self.cfg.pidfile)" not in src


RELOAD_DOT2 = _reload_dot2()
KEY_HUPCHILD = "hup-child-master-pidfile"
KEY_BOTHSTOP = "simultaneous-stop-leaves-socket"
KEY_ACCEPTED = "accepted-not-started-dropped"
KEY_RX = "reexec-fork-reap-race"
KEY_DASHM = "python-m-reexec-syspath"


# ---------------------------------------------------------------------------------------------------------------------
# the driver: macro events on the real master, trivial stub for the other slot
# ---------------------------------------------------------------------------------------------------------------------

class Up:
    """One history.  real_slot 'A': the real Arbiter is the original master; 'B': it is the re-executed child of a stub."""

    def __init__(self, cfg, real_slot, events):
        self.cfg = cfg
        self.real = real_slot
        self.events = list(events)
        self.obs = []
        self.model_events = []
        self.stub = None          # dict(pid, alive, role 'child'|'parent', workers, pname)
        self.stub_history = []
        self.notes = []

    # ---- low-level label generation --------------------------------------------------------------------------------
    def run(self):
        cfg = self.cfg
        binds = ["unix:" + SOCK] if cfg["unix"] else ["127.0.0.1:8000"]
        kw = dict(workers=1, timeout=30, graceful=1, pidfile=("g.pid" if cfg["pidconf"] else None), binds=binds,
                  daemon=cfg["daemon"], reuse_port=False)
        if self.real == "B":
            kw["master_pid"] = PARENT
            kw["inherited"] = {10: SOCK if cfg["unix"] else ("127.0.0.1", 8000)}
            kw["live"] = (PARENT,)
        w = A.World2(**kw)
        self.w = w
        if self.real == "B":
            self.stub = {"pid": PARENT, "alive": True, "role": "parent", "workers": 1, "pname": 1}
            if cfg["pidconf"]:
                with open(w.pidpath("g.pid"), "w") as fh:
                    fh.write("%d\n" % PARENT)
        self.queue = []
        self.pending = list(self.events)
        self.phase = "boot"
        self.seen_dispatch = False
        self.seen_ppid = False
        self.cur_event = None
        self.nforks_master = 0
        try:
            w.run([], policy=self.policy)
            self.final()
        finally:
            w.cleanup()
        return self

    def master_kids(self):
        return [k for k in self.w.kids if k["master"]]

    def idle(self):
        w = self.w
        return w.cur[0] == L.Y_SELECT and list.__len__(w.arbiter.SIG_QUEUE) == 0

    def policy(self, w):
        """called at every yield point once the (empty) script is exhausted: decide the next label"""
        if self.queue:
            return self.queue.pop(0)
        # a child master forked by the real master starts at once (stub)
        self.adopt_new_child()
        code = w.cur[0]
        # told workers exit while the master waits in stop(); SIGCHLD is delivered
        if w.stopping_at is not None and code in (L.Y_SLEEP, L.Y_WLEN):
            dying = [k for k in w.kids if k["st"] == "R" and not k["master"] and any(s in L.FATAL for s in k["sigs"])]
            if dying:
                self.queue = [("X", k["pid"], 0) for k in dying] + [("C",), ("M",)]
                return self.queue.pop(0)
        if self.phase == "boot":
            if self.idle():
                self.phase = "ready"
                self.snap(None)
            else:
                return ("M",)
        if self.phase == "busy":
            ev = self.cur_event
            if ev[0] == "loop":
                if code == L.Y_QLEN:
                    self.seen_dispatch = True          # passed the top of the loop (after maybe_promote_master)
                if self.seen_dispatch and self.idle():
                    self.phase = "ready"
                    self.snap(ev)
                else:
                    return ("M",)
            else:
                if code == L.Y_QLEN and list.__len__(w.arbiter.SIG_QUEUE) > 0:
                    self.seen_dispatch = True
                if self.seen_dispatch and self.idle():
                    self.phase = "ready"
                    self.snap(ev)
                else:
                    return ("M",)
        # ready: next macro event
        while self.pending:
            ev = self.pending.pop(0)
            out = self.begin(ev)
            if out is None:
                continue              # the event was carried out entirely by the stub / environment
            return out
        return None

    def begin(self, ev):
        """start a macro event; returns the first label, or None when nothing is left to do for the real master"""
        w = self.w
        kind, slot = ev
        real = slot == self.real
        if kind == "HUPB":
            # a HUP after the bind setting was edited (oracle-only histories: Model/Upgrade.v has no re-binding): the master moves
            # to another address; what it leaves behind still belongs to the other master of a pending upgrade
            if real:
                w.apply_env(("B", ["unix:/run/gv/moved.sock"] if self.cfg["unix"] else ["127.0.0.1:8099"]))
            kind = "HUP"
            ev = ("HUP", slot)
        if kind in ("USR2", "Stop", "HUP", "WINCH") and real:
            signo = {"USR2": SIG["USR2"], "Stop": self.cfg.get("stop_sig", SIG["TERM"]), "HUP": SIG["HUP"], "WINCH": SIG["WINCH"]}[kind]
            self.phase = "busy"
            self.cur_event = ("sig", ev)
            self.seen_dispatch = False
            self.queue = [("M",)]
            return ("S", signo)
        if kind.startswith("Halt") and real:
            # the real master stops by itself: its worker cannot boot (exit code 3 / 4), SIGCHLD, HaltServer
            wk = [k for k in w.kids if not k["master"] and k["st"] == "R"]
            if not wk:
                return None                      # no worker to fail (WINCH): the event cannot happen, it is not recorded
            self.phase = "busy"
            self.cur_event = ("sig", ev)
            self.seen_dispatch = True            # (if the master does NOT halt, the next idle point is observed)
            self.queue = [("C",), ("M",)]
            return ("X", wk[0]["pid"], int(kind[4:]) << 8)
        if kind == "NoticeParent" and real:
            self.phase = "busy"
            self.cur_event = ("loop", ev)
            self.seen_dispatch = False
            return ("M",)
        if kind == "NoticeChild" and real:
            self.queue = []
            self.after_direct = ev
            # the handler runs at once; observe afterwards
            self.phase = "busy"
            self.cur_event = ("loop", ev)
            self.seen_dispatch = False
            self.queue = [("M",)]
            return ("C",)
        # ---- events of the stub ----
        self.stub_event(kind)
        self.snap(("stub", ev))
        return None

    def adopt_new_child(self):
        """the real master forked a master kid: the stub child 'starts' (writes its '.2' pid file)"""
        w = self.w
        mk = [k for k in w.kids if k["master"] and k["st"] == "R"]
        known = self.stub["pid"] if self.stub and self.stub["role"] == "child" else None
        for k in mk:
            if k["pid"] != known and k["pid"] not in [h["pid"] for h in self.stub_history]:
                self.stub = {"pid": k["pid"], "alive": True, "role": "child", "workers": 1, "pname": 2 if self.cfg["pidconf"] else 1}
                self.stub_history.append(self.stub)
                if self.cfg["pidconf"]:
                    p2 = w.pidpath("g.pid.2")
                    holder = self.read_pid(p2)
                    if holder is not None and self.pid_alive(holder) and holder != k["pid"]:
                        # Pidfile.create would raise in the child's start(): it exits with status 1
                        self.stub["alive"] = False
                        self.stub["status"] = 1
                        k["st"] = "Z"
                        k["status"] = 256
                    else:
                        with open(p2, "w") as fh:
                            fh.write("%d\n" % k["pid"])

    def read_pid(self, path):
        try:
            with open(path) as fh:
                return int(fh.read().strip())
        except (OSError, ValueError):
            return None

    def pid_alive(self, pid):
        w = self.w
        if pid == SELF:
            return w.outcome is None
        if pid in w.live:
            return True
        return any(k["pid"] == pid and k["st"] == "R" for k in w.kids)

    def stub_event(self, kind):
        """what the stub master does, in the two situations it can be in while the real master lives"""
        w = self.w
        st = self.stub
        if st is None or not st["alive"]:
            return
        pid = st["pid"]
        pidconf = self.cfg["pidconf"]
        myfile = w.pidpath("g.pid" if st["pname"] == 1 else "g.pid.2") if pidconf else None

        def die(status):
            st["alive"] = False
            st["status"] = status
            if st["role"] == "child":
                w.apply_env(("X", pid, status << 8))
            else:
                w.apply_env(("L", pid, False))
                w.apply_env(("P",))

        if kind == "Stop" or kind.startswith("Halt"):
            # a child (master_pid != 0) or a parent with a live child (reexec_pid != 0): the socket file stays
            # (Halt: it stops by itself - its workers cannot boot - with the same clean-up and exit status 3 / 4)
            if pidconf and self.read_pid(myfile) == pid:
                os.unlink(myfile)
            die(0 if kind == "Stop" else int(kind[4:]))
        elif kind == "HUP":
            st["workers"] = 1
            if pidconf:
                if self.read_pid(myfile) == pid:
                    os.unlink(myfile)
                dot2 = RELOAD_DOT2 and st["role"] == "child"
                main = w.pidpath("g.pid.2" if dot2 else "g.pid")
                holder = self.read_pid(main)
                st["pname"] = 2 if dot2 else 1
                if holder is not None and holder != pid and self.pid_alive(holder):
                    die(255)               # RuntimeError in reload(): stop(False); sys.exit(-1)
                else:
                    with open(main, "w") as fh:
                        fh.write("%d\n" % pid)
        elif kind == "WINCH":
            if self.cfg["daemon"]:
                st["workers"] = 0
        # USR2 (ignored: it has a live child / parent), NoticeChild, NoticeParent: nothing happens

    # ---- observation ----------------------------------------------------------------------------------------------------
    def real_obs(self):
        w = self.w
        a = w.arbiter
        if w.outcome is not None and w.outcome[0] == "exit":
            alive, status = 0, w.outcome[1] & 0xFF
        elif w.outcome is not None and w.outcome[0] != "done":
            alive, status = 0, 999
        else:
            alive, status = 1, 0
        pname = 1
        if a.pidfile is not None and os.path.basename(a.pidfile.fname).endswith(".2"):
            pname = 2
        if not alive:
            return [0, status, 0, 0, 0, 0]
        return [alive, status, 1 if a.reexec_pid else 0, 1 if a.master_pid else 0, pname, int(a.num_workers)]

    def stub_obs(self):
        st = self.stub
        if st is None:
            return [0, 0, 0, 0, 0, 0]
        if not st["alive"]:
            return [0, st.get("status", 0), 0, 0, 0, 0]
        if st["role"] == "child":
            rx, mp = 0, 1
        else:
            rx, mp = 1, 0
        return [1 if st["alive"] else 0, st.get("status", 0), rx, mp, st["pname"], st["workers"]]

    def owner(self, pid):
        if pid is None:
            return 0
        slots = {"A": 1, "B": 2}
        if pid == SELF:
            return slots[self.real]
        if self.stub is not None and pid == self.stub["pid"]:
            return 3 - slots[self.real]
        return 3

    def snap(self, ev):
        w = self.w
        ro, so = self.real_obs(), self.stub_obs()
        a, b = (ro, so) if self.real == "A" else (so, ro)
        pidconf = self.cfg["pidconf"]
        fs = [self.owner(self.read_pid(w.pidpath("g.pid"))) if pidconf else 0,
              self.owner(self.read_pid(w.pidpath("g.pid.2"))) if pidconf else 0,
              1 if (self.cfg["unix"] and SOCK not in w.fs_unlinked) else 0,
              sum(1 for _, m, _ in w.forks if m) + (1 if self.real == "B" else 0)]
        self.obs.append((ev, a + b + fs))

    def final(self):
        # the real master exited (or the history ended): one last observation if an event was in progress
        if self.phase == "busy":
            self.adopt_new_child()
            self.snap(self.cur_event)
            self.phase = "ready"


# ---------------------------------------------------------------------------------------------------------------------
# the model side
# ---------------------------------------------------------------------------------------------------------------------

HEADER = """From Coq Require Import List ZArith Bool.
From GV Require Import Model.Upgrade.
Import ListNotations.
Open Scope Z_scope.
"""


def coq_cfg(cfg):
    return "(mkCfg %s %s %s false 1)" % tuple(vlib.coq_bool(cfg[k]) for k in ("pidconf", "unix", "daemon"))


def coq_event(ev, real):
    kind, slot = ev
    if kind.startswith("Halt"):
        return ["Halt %s %s" % (slot, kind[4:])]
    e = "%s %s" % (kind, slot)
    # every signal handled by the real master is preceded by the top of its main loop (maybe_promote_master)
    if slot == real and kind in ("USR2", "Stop", "HUP", "WINCH"):
        return ["NoticeParent %s" % slot, e]
    if slot == real and kind == "NoticeChild":
        return [e, "NoticeParent %s" % slot]          # the handler, then one turn of the main loop
    return [e]


def model_expr(cfg, real, executed):
    """executed: the macro events that were actually carried out, in order.  The observation after each of them."""
    pre = "(run %s (init %s) [USR2 A])" % (coq_cfg(cfg), coq_cfg(cfg)) if real == "B" else "(init %s)" % coq_cfg(cfg)
    parts = ["obs %s" % pre]
    acc = []
    for ev in executed:
        acc += coq_event(ev, real)
        parts.append("obs (run %s %s [%s])" % (coq_cfg(cfg), pre, "; ".join(acc)))
    return " ++ ".join("(%s)" % p for p in parts)


# ---------------------------------------------------------------------------------------------------------------------
# oracle on a simulated history (independent of the model): the statements of the property
# ---------------------------------------------------------------------------------------------------------------------

def judge(cfg, real, u):
    fails = []
    w = u.w
    if w.outcome is not None and w.outcome[0] in ("error", "crash"):
        fails.append(("unexpected exception in the master: %r" % (w.outcome,), None))
    if L.SHUTDOWNS:
        fails.append(("the master called shutdown() on listening socket(s) %r: the open file description is shared with the other master "
                      "of the upgrade and with the workers, so nobody can accept on it any more" % (L.SHUTDOWNS[:3],), None))
        del L.SHUTDOWNS[:]
    slots = {"A": 0, "B": 6}
    r0 = slots[real]
    s0 = 6 - r0
    prev = None
    for ev, o in u.obs:
        real_alive, stub_alive = o[r0], o[s0]
        # whichever master exits first leaves the socket file to the other
        if cfg["unix"] and (real_alive or stub_alive) and o[14] == 0:
            fails.append(("the unix socket file was unlinked while a master is still alive (after %r)" % (ev,), None))
        # a second USR2 while an upgrade is pending is ignored / at most one fork+exec per accepted USR2
        if prev is not None and ev is not None and ev[0] == "sig" and ev[1][0] == "USR2":
            pending = prev[s0]            # the other master is alive
            if pending and o[15] != prev[15]:
                fails.append(("USR2 while an upgrade is pending forked another master", None))
            if not pending and prev[r0] and not prev[r0 + 2] and o[15] != prev[15] + 1:
                fails.append(("USR2 on a single master did not start a new master", None))
        # pid files: a live master that was started as a child of a live master holds '<pidfile>.2', the other the configured name
        if cfg["pidconf"]:
            me = 1 if real == "A" else 2
            if real_alive and o[r0 + 3] and stub_alive and o[13] != me:
                fails.append(("the re-executed master does not hold '<pidfile>.2' while its parent lives (after %r): holder %d" % (ev, o[13]), None))
            if real_alive and not o[r0 + 3] and o[12] != me:
                fails.append(("the single / old master does not hold the configured pid file (after %r): holder %d" % (ev, o[12]),
                              None))
            if stub_alive and (o[12] if o[s0 + 4] == 1 else o[13]) != 3 - me:
                fails.append(("the pid file of the other (live) master was removed or overwritten (after %r)" % (ev,), None))
        # the end of the OTHER master - however it ends, with whatever exit status - never ends this one
        if prev is not None and ev is not None and prev[r0] and not real_alive:
            mine = ev[0] == "sig" and ev[1][1] == real and (ev[1][0] in ("Stop", "HUP") or ev[1][0].startswith("Halt"))
            promote = ev[0] == "loop" and ev[1][0] == "NoticeParent"       # (a failing pid-file rename ends it: judged elsewhere)
            if not mine and not promote:
                fails.append(("the master exited (status %d) although nobody stopped it: the last event was %r - the exit of the other "
                              "master (status %r) must not take this one down" % (o[r0 + 1], ev, o[s0 + 1]), None))
        # HUP must not end a master
        if prev is not None and ev is not None and ev[0] == "sig" and ev[1][0] == "HUP" and prev[r0] and not real_alive:
            key = KEY_HUPCHILD if (cfg["pidconf"] and prev[r0 + 3] and prev[s0]) else None
            fails.append(("HUP ended the master (exit status %d): reload() found the other master's pid file under the configured name"
                          % o[r0 + 1], key))
        prev = o
    # last exit unlinks the socket file - when the last master knew it was alone
    if cfg["unix"] and u.obs:
        ev, o = u.obs[-1]
        if not o[r0] and not o[s0] and o[14] == 1:
            last_real = any(e is not None and e[0] == "sig" and e[1][0] == "Stop" for e, _ in u.obs[-1:])
            if last_real:
                before = u.obs[-2][1]
                knew = not before[r0 + 2] and not before[r0 + 3]
                if knew:
                    fails.append(("the last master to exit knew it was alone but left the unix socket file", None))
    return fails


# ---------------------------------------------------------------------------------------------------------------------
# generators
# ---------------------------------------------------------------------------------------------------------------------

def base_cfg(pidconf=True, unix=True, daemon=False):
    return {"pidconf": pidconf, "unix": unix, "daemon": daemon}


def fixed_cases():
    cs = []
    for pidconf in (True, False):
        for unix in (True, False):
            c = base_cfg(pidconf, unix)
            cd = base_cfg(pidconf, unix, daemon=True)
            # real = old master
            cs.append((c, "A", [("USR2", "A"), ("USR2", "A"), ("Stop", "A")]))                        # second USR2, old exits first
            cs.append((c, "A", [("USR2", "A"), ("Stop", "B"), ("USR2", "A"), ("NoticeChild", "A"), ("USR2", "A"), ("Stop", "A")]))
            cs.append((c, "A", [("USR2", "A"), ("Stop", "B"), ("NoticeChild", "A"), ("Stop", "A")]))  # rollback, then last exit
            cs.append((c, "A", [("USR2", "A"), ("Stop", "B"), ("Stop", "A")]))                        # child death not yet noticed
            cs.append((cd, "A", [("USR2", "A"), ("WINCH", "A"), ("Stop", "B"), ("NoticeChild", "A"), ("HUP", "A"), ("USR2", "A")]))
            cs.append((c, "A", [("USR2", "A"), ("HUP", "A"), ("HUP", "B"), ("NoticeChild", "A"), ("USR2", "A")]))
            cs.append((c, "A", [("HUP", "A"), ("USR2", "A"), ("HUP", "A"), ("Stop", "A")]))
            # the new master stops by itself (its workers cannot boot: exit status 3 / 4): the old one goes on, upgrades again
            for hk in ("Halt3", "Halt4"):
                cs.append((c, "A", [("USR2", "A"), (hk, "B"), ("NoticeChild", "A"), ("USR2", "A"), ("Stop", "B"), ("NoticeChild", "A"), ("Stop", "A")]))
                cs.append((c, "A", [("USR2", "A"), (hk, "B"), ("Stop", "A")]))
                cs.append((c, "B", [(hk, "B")]))                                                     # seen from the failing child
                cs.append((c, "B", [("Stop", "A"), ("NoticeParent", "B"), ("USR2", "B"), (hk, "A"), ("NoticeChild", "B"), ("USR2", "B")]))
                cs.append((c, "A", [(hk, "A")]))                                                     # a single master halting
            # real = new master
            cs.append((c, "B", [("USR2", "B"), ("Stop", "A"), ("NoticeParent", "B"), ("USR2", "B"), ("USR2", "B"), ("Stop", "B")]))
            cs.append((c, "B", [("Stop", "A"), ("Stop", "B")]))
            cs.append((c, "B", [("Stop", "A"), ("USR2", "B"), ("Stop", "A"), ("NoticeChild", "B"), ("Stop", "B")]))
            cs.append((c, "B", [("Stop", "B")]))                                                     # rollback seen from the child
            cs.append((c, "B", [("HUP", "B")]))                                                      # HUP to the child while the parent lives
            cs.append((c, "B", [("Stop", "A"), ("HUP", "B"), ("Stop", "B")]))
            cs.append((cd, "B", [("WINCH", "A"), ("HUP", "A"), ("WINCH", "B"), ("Stop", "A"), ("NoticeParent", "B"), ("HUP", "B"), ("Stop", "B")]))
    return cs


def gen_random(rng):
    cfg = base_cfg(rng.random() < 0.7, rng.random() < 0.7, rng.random() < 0.3)
    cfg["stop_sig"] = rng.choice([SIG["TERM"], SIG["TERM"], SIG["QUIT"], SIG["INT"]])
    real = rng.choice(["A", "B"])
    n = rng.randint(1, 9)
    evs = []
    kinds = ["USR2", "USR2", "Stop", "NoticeChild", "NoticeParent", "HUP", "WINCH", "Halt3", "Halt4"]
    for _ in range(n):
        k = rng.choice(kinds)
        slot = rng.choice(["A", "B", real])
        evs.append((k, slot))
    if rng.random() < 0.5:
        evs.append(("Stop", real))
    return cfg, real, evs


def run_history(cfg, real, evs):
    u = Up(cfg, real, evs)
    u.run()
    return u


def executed_events(u):
    """macro events in the order in which they were observed"""
    out = []
    for ev, _ in u.obs[1:]:
        if ev is None:
            continue
        out.append(ev[1])
    return out


def run_sim(ctx):
    cases = fixed_cases()
    n = 700 if ctx.quick() else 8000
    for _ in range(n):
        cases.append(gen_random(ctx.rng))
    corr = []
    nfail = 0
    for cfg, real, evs in cases:
        u = run_history(cfg, real, evs)
        ex = executed_events(u)
        ctx.count_case((tuple(sorted(cfg.items())), real, tuple(evs)), nontrivial=any(k == "USR2" for k, _ in ex) or real == "B")
        ctx.hist("real_slot", real)
        ctx.hist("events", len(ex))
        for k, sl in ex:
            ctx.hist("event", k + ("(real)" if sl == real else "(stub)"))
        flat = []
        for _, o in u.obs:
            flat += o
        corr.append((model_expr(cfg, real, ex), flat, {"cfg": cfg, "real": real, "events": [list(e) for e in evs]}))
        fs = judge(cfg, real, u)
        for text, key in fs:
            nfail += 1
            ctx.violation(text, {"kind": "history", "cfg": cfg, "real": real, "events": [list(e) for e in evs],
                                 "observations": [[repr(e), o] for e, o in u.obs]}, key=key)
        if len(ex) >= 4:
            ctx.sample({"cfg": cfg, "real": real, "events": [list(e) for e in evs]})
    # re-binding reloads inside an upgrade (oracle only)
    for unix in (True, False):
        cfg = base_cfg(True, unix)
        for real, evs in (("A", [("USR2", "A"), ("HUPB", "A"), ("Stop", "A")]),
                          ("A", [("USR2", "A"), ("HUPB", "A"), ("Stop", "B"), ("NoticeChild", "A")]),
                          ("B", [("HUPB", "B"), ("Stop", "A"), ("NoticeParent", "B")]),
                          ("A", [("HUPB", "A"), ("USR2", "A"), ("Stop", "A")])):
            u = run_history(cfg, real, evs)
            ctx.count_case(("rebind", unix, real, tuple(evs)), True)
            ctx.hist("event", "HUP with a changed bind setting (real)")
            for text, key in judge(cfg, real, u):
                if "socket file" not in text and "died" not in text:
                    continue                     # (the other sentences of the judge are stated for an unchanged address)
                nfail += 1
                ctx.violation("reload to another address inside an upgrade: " + text,
                              {"kind": "history", "cfg": cfg, "real": real, "events": [list(e) for e in evs],
                               "observations": [[repr(e), o] for e, o in u.obs]}, key=key)
    ctx.log("ran %d upgrade histories on the real Arbiter; %d oracle failures" % (len(cases), nfail))
    bad = ctx.correspond("upgrade", HEADER, corr, shard=120)
    if bad:
        i, m, im = bad[0]
        k = next((j for j in range(min(len(m), len(im))) if m[j] != im[j]), min(len(m), len(im)))
        ctx.broken.append("correspondence Model/Upgrade.v vs gunicorn/arbiter.py: %d of %d histories differ; first: %r (observation %d, field %d: model %r impl %r)"
                          % (len(bad), len(corr), corr[i][2], k // 16, k % 16, m[16 * (k // 16):16 * (k // 16) + 16], im[16 * (k // 16):16 * (k // 16) + 16]))
        ctx.log("CORRESPONDENCE: %d histories differ" % len(bad))
    return bad


def race_cases():
    """the fork / SIGCHLD race on reexec_pid (below the granularity of Model/Upgrade.v): the USR2 child dies and SIGCHLD is
    handled at every yield point after the fork; afterwards the exit is certainly noticed, a second USR2 and a TERM follow"""
    M = ("M",)
    for unix in (True, False):
        for i in range(0, 12):
            yield unix, [M] * 12 + [("S", SIG["USR2"])] + [M] * i + [("X", 101, 0), ("C",)] + [M] * 6 + [("C",)] + \
                [("S", SIG["USR2"])] + [M] * 10 + [("X", 102, 0), ("C",)] + [M] * 4 + [("S", SIG["TERM"])] + [M] * 20


def run_race(ctx):
    hits = 0
    for unix, script in race_cases():
        w = A.World2(workers=1, timeout=30, graceful=0, binds=(["unix:" + SOCK] if unix else ["127.0.0.1:8000"]), pidfile="g.pid")
        try:
            w.run(script, policy=A.fair_stop_policy())
        finally:
            w.cleanup()
        ctx.count_case(("race", unix, len(script)), nontrivial=True)
        masters = [p for p, m, _ in w.forks if m]
        # signature: a master child was reaped while reexec_pid did not (yet) name it
        raced = [p for (p, _), rx in zip(w.reaps, w.reaps_ctx) if p in masters and rx != p]
        fails = []
        reaped = [p for p, _ in w.reaps]
        if 101 not in reaped or any(k["master"] for k in w.kids):
            continue                # the child was not there yet when it was told to die, or a master child is still alive
        if len(masters) < 2:
            fails.append("the first re-executed master (pid 101) died and was reaped, yet a later USR2 was ignored: reexec_pid still names it")
        if unix and w.outcome[0] == "exit" and SOCK not in w.fs_unlinked:
            fails.append("the master exited alone (its re-executed child had died and been reaped) but did not unlink its unix socket file")
        for f in fails:
            hits += 1
            ctx.violation(f, {"kind": "race", "unix": unix, "schedule": [list(x) for x in script], "master_forks": masters,
                              "reaps": w.reaps, "reexec_pid_at_reaps": w.reaps_ctx}, key=KEY_RX if raced else None)
    ctx.log("fork/SIGCHLD race on reexec_pid: %d delivery points, %d failures" % (24, hits))


def run(ctx):
    ok = ctx.build()
    run_sim(ctx)
    run_race(ctx)
    run_handover(ctx)
    run_real(ctx)
    ctx.cov["rule"] = ("upgrade histories: sequences of <= 10 events {USR2, TERM, child exit noticed (SIGCHLD), parent death noticed (main loop), "
                       "HUP, WINCH} addressed to either master, the real Arbiter playing the old master or the re-executed one; configurations "
                       "vary pid file, unix / TCP bind, daemon; non-trivial = a fork+exec happened; distinct by (configuration, role, history)")


def replay(rep):
    if rep.get("kind") == "real":
        fails, tr = upgrade_scenario(*rep["scenario"])
        for t in tr:
            print(t)
        print("failures:", fails)
        return 1 if fails else 0
    if rep.get("kind") == "real-dash-m":
        fails, tr = dash_m_scenario()
        for t in tr:
            print(t)
        print("failures:", fails)
        return 1 if fails else 0
    if rep.get("kind") == "race":
        w = A.World2(workers=1, timeout=30, graceful=0, binds=(["unix:" + SOCK] if rep["unix"] else ["127.0.0.1:8000"]), pidfile="g.pid")
        try:
            w.run([tuple(x) for x in rep["schedule"]], policy=A.fair_stop_policy())
        finally:
            w.cleanup()
        masters = [p for p, m, _ in w.forks if m]
        print("master forks:", masters, "reaps:", w.reaps, "reexec_pid at each reap:", w.reaps_ctx, "unlinked:", w.fs_unlinked)
        bad = len(masters) < 2 or (rep["unix"] and SOCK not in w.fs_unlinked)
        return 1 if bad else 0
    if rep.get("kind") == "listener-fd":
        fs = listener_fd_cases()
        for f in fs:
            print(f[0])
        return 1 if fs else 0
    if rep.get("kind") == "handover":
        ls = [((a if isinstance(a, str) else tuple(a)), b) for a, b in rep["listeners_raw"]]
        fs = handover_case(ls, rep["systemd"], rep["pidconf"], rep.get("orphan", False))
        print("failures:", fs)
        return 1 if fs else 0
    cfg, real = rep["cfg"], rep["real"]
    evs = [tuple(e) for e in rep["events"]]
    u = run_history(cfg, real, evs)
    for e, o in u.obs:
        print(e, o)
    fs = judge(cfg, real, u)
    print("oracle failures:", fs)
    return 1 if fs else 0


# =====================================================================================================================
# exec hand-over: the environment built by reexec()'s child branch, given to a second Arbiter.start()
# =====================================================================================================================

class Captured(BaseException):
    def __init__(self, path, args, env):
        self.path, self.args_, self.env = path, args, env


def reexec_child_env(listeners, systemd, pidfile=None):
    """run the child branch of the REAL Arbiter.reexec(): os.fork() returns 0, os.execvpe is captured"""
    import gunicorn.arbiter as ga
    import gunicorn.app.base as gbase
    import gunicorn.util as gutil

    class App(gbase.BaseApplication):
        def init(self, parser, opts, args):
            pass

        def load(self):
            return None

        def load_config(self):
            self.cfg.set("logger_class", "lib_arbiter.NullLog")
            self.cfg.set("workers", 1)

    state = {"forked": False}

    class Os(L.Passthrough):
        environ = {"PATH": "/usr/bin", "KEEP_ME": "1"}

        def fork(self):
            state["forked"] = True
            return 0

        def getpid(self):
            return 61 if state["forked"] else SELF

        def chdir(self, d):
            return None

        def execvpe(self, path, args, env):
            raise Captured(path, list(args), dict(env))

    saved = (ga.os, gutil._setproctitle)
    ga.os = Os(os)
    gutil._setproctitle = lambda t: None
    try:
        arb = ga.Arbiter(App())
        arb.pid = SELF
        arb.systemd = systemd
        arb.LISTENERS = [L.FakeListener(name, fd) for name, fd in listeners]
        try:
            arb.reexec()
        except Captured as c:
            return {"path": c.path, "args": c.args_, "env": c.env, "start_ctx": dict(arb.START_CTX)}
        return None
    finally:
        ga.os, gutil._setproctitle = saved


def handover_case(listeners, systemd, pidconf, orphan=False):
    """-> list of failures.  orphan: the old master has ALREADY exited when the re-executed one reaches Arbiter.start() (TERM
    to the old master right after USR2, a slow boot): getppid() is no longer GUNICORN_PID - the inherited listeners are adopted
    all the same, and the first turn of the main loop promotes the master"""
    fails = []
    got = reexec_child_env(listeners, systemd)
    if got is None:
        return ["reexec() did not exec in the child"]
    env = got["env"]
    if env.get("GUNICORN_PID") != str(SELF):
        fails.append("GUNICORN_PID=%r, the old master is %d" % (env.get("GUNICORN_PID"), SELF))
    # the child: a second real Arbiter started with that environment (its pid is SELF in the simulated kernel, so the
    # parent is given another pid)
    parent = 77
    cenv = {k: v for k, v in env.items() if k in ("GUNICORN_FD", "LISTEN_FDS", "LISTEN_PID")}
    if systemd:
        if cenv.get("LISTEN_PID") != "61":
            fails.append("LISTEN_PID=%r is not the pid of the process that execs (61)" % cenv.get("LISTEN_PID"))
        cenv["LISTEN_PID"] = str(SELF)
    w = A.World2(workers=1, pidfile=("g.pid" if pidconf else None), binds=["127.0.0.1:9"], master_pid=parent,
                 env=cenv, live=(() if orphan else (parent,)))
    if orphan:
        w.live.discard(parent)
        w.ppid = 1
    w._fdn = {fd: name for name, fd in listeners}
    if pidconf:
        with open(w.pidpath("g.pid"), "w") as fh:
            fh.write("%d\n" % parent)
    try:
        w.run([("M",)] * 6)
        a = w.arbiter
        adopted = sorted((l.fd, l.name) for l in a.LISTENERS)
        want = sorted((fd, name) for name, fd in listeners)
        if adopted != want:
            fails.append("the new master adopted %r, the old master listens on %r" % (adopted, want))
        if w.created_sockets and w.created_sockets[0] is None:
            fails.append("the new master bound new sockets instead of adopting the inherited descriptors")
        if not orphan and int(a.master_pid) != parent:
            fails.append("master_pid=%r in the new master" % (a.master_pid,))
        if bool(a.systemd) != bool(systemd):
            fails.append("systemd flag %r in the new master (old: %r)" % (a.systemd, systemd))
        files = w.pid_files()
        if not orphan:                 # (the promotion of an orphaned master is an event of the histories above: NoticeParent)
            if pidconf and files.get("g.pid.2") != SELF:
                fails.append("the new master's pid is not in '<pidfile>.2': %r" % (files,))
            if pidconf and files.get("g.pid") != parent:
                fails.append("the old master's pid file was touched: %r" % (files,))
        if w.outcome[0] not in ("done",):
            fails.append("the new master did not come up: %r" % (w.outcome,))
    finally:
        w.cleanup()
    return fails


def listener_fd_cases():
    """REAL gunicorn.sock.create_sockets with real sockets: every listener the master holds - bound by itself or adopted from
    descriptors given by GUNICORN_FD / systemd / fd:// - must survive exec (inheritable), listen on the same address, and the
    adopted descriptor must be the very socket the previous master listened on.  -> list of (failure text, replay)"""
    import socket
    import tempfile
    import gunicorn.config as gconfig
    import gunicorn.sock as gsock
    fails = []
    d = tempfile.mkdtemp(prefix="gvsock.", dir=A.scratch_root())
    try:
        for kind in ("unix", "tcp", "both"):
            conf = gconfig.Config()
            binds = []
            if kind in ("unix", "both"):
                binds.append("unix:" + os.path.join(d, "l-%s.sock" % kind))
            if kind in ("tcp", "both"):
                binds.append("127.0.0.1:0")
            conf.set("bind", binds)
            first = gsock.create_sockets(conf, L.NullLog(conf))
            gen = first
            try:
                for generation in range(3):
                    for l in gen:
                        if not os.get_inheritable(l.sock.fileno()):
                            fails.append(("listener %s of master generation %d (%s) is close-on-exec: the next USR2 cannot hand it over"
                                          % (l.getsockname(), generation, "bound by itself" if generation == 0 else "adopted from inherited descriptors"),
                                          {"kind": "listener-fd", "bind": kind, "generation": generation}))
                        if not l.sock.getsockopt(socket.SOL_SOCKET, socket.SO_ACCEPTCONN):
                            fails.append(("listener %s of generation %d does not listen" % (l.getsockname(), generation),
                                          {"kind": "listener-fd", "bind": kind, "generation": generation}))
                    # what exec leaves in the next master: the same open file descriptions under (new) descriptor numbers
                    names = [l.getsockname() for l in gen]
                    inos = [os.fstat(l.sock.fileno()).st_ino for l in gen]
                    fds = [os.dup(l.sock.fileno()) for l in gen]
                    nxt = gsock.create_sockets(conf, L.NullLog(conf), fds=fds)
                    if [l.getsockname() for l in nxt] != names or [os.fstat(l.sock.fileno()).st_ino for l in nxt] != inos:
                        fails.append(("generation %d adopted %r, the previous master listens on %r (same sockets expected)"
                                      % (generation + 1, [l.getsockname() for l in nxt], names),
                                      {"kind": "listener-fd", "bind": kind, "generation": generation + 1}))
                    if gen is not first:
                        for l in gen:
                            l.close()
                    gen = nxt
            finally:
                for l in list(gen) + list(first):
                    try:
                        l.close()
                    except Exception:
                        pass
    finally:
        import shutil
        shutil.rmtree(d, ignore_errors=True)
    return fails


def run_handover(ctx):
    n = 0
    lf = listener_fd_cases()
    ctx.count_case(("listener-fd",), nontrivial=True)
    ctx.hist("handover", "real-sockets-3-generations")
    for text, rep in lf[:3]:
        ctx.violation("exec hand-over (real gunicorn.sock): " + text, rep)
    for trial in range(40 if ctx.quick() else 400):
        k = ctx.rng.randint(1, 3)
        systemd = ctx.rng.random() < 0.3
        fds = list(range(3, 3 + k)) if systemd else ctx.rng.sample(range(5, 40), k)
        names = [ctx.rng.choice(["/run/gv/%d.sock" % i, ("127.0.0.1", 8000 + i)]) for i in range(k)]
        listeners = list(zip(names, fds))
        pidconf = ctx.rng.random() < 0.6
        orphan = trial % 3 == 2
        fs = handover_case(listeners, systemd, pidconf, orphan)
        n += 1
        ctx.count_case(("handover", tuple(fds), systemd, pidconf, orphan), nontrivial=True)
        ctx.hist("handover", ("systemd" if systemd else "gunicorn_fd") + (" / old master already gone" if orphan else ""))
        for f in fs:
            ctx.violation("exec hand-over%s: %s" % (" (the old master exited before the new one started)" if orphan else "", f),
                          {"kind": "handover", "listeners": [[repr(a), b] for a, b in listeners],
                           "listeners_raw": [[a if isinstance(a, str) else list(a), b] for a, b in listeners],
                           "systemd": systemd, "pidconf": pidconf, "orphan": orphan})
    ctx.log("checked %d exec hand-overs (reexec child branch -> second Arbiter.start)" % n)


# =====================================================================================================================
# REAL processes: two masters
# =====================================================================================================================
import lib_arb2_real as R


wait_for = R.wait_for
Load = R.Load


def masters_of(srv):
    """live master processes of the family: those that have children or are named in a pid file"""
    fam = srv.family()
    parents = set(R.proc_ppid(p) for p in fam)
    return sorted(p for p in fam if p in parents or p in (srv.read_pid(), srv.read_pid(".2")))


def upgrade_scenario(name, bind="unix", stop_sig="TERM", worker_class="sync"):
    """-> (failures, trace)"""
    fails = []
    tr = []
    daemon = name == "winch-hup"
    twice = name == "twice"
    if twice:
        name = "old-first"
    srv = R.Server(worker_class=worker_class, workers=1, graceful=3, bind=bind, daemon=daemon)
    sig = getattr(_signal, "SIG" + stop_sig)
    load = None
    quick_at = []

    def stop(pid, signo=None):
        signo = sig if signo is None else signo
        if signo != _signal.SIGTERM:
            quick_at.append(time.time())
        srv.signal(signo, pid)
    try:
        srv.start()
        old = srv.master
        load = Load(srv)
        load.start()
        time.sleep(0.3)
        srv.signal(_signal.SIGUSR2, old)
        new = wait_for(lambda: srv.read_pid(".2"), 15)
        tr.append(("usr2", old, new))
        if not new:
            fails.append("no '<pidfile>.2' appeared after USR2")
            return fails, tr
        if srv.read_pid() != old:
            fails.append("the old master's pid file changed after USR2: %r" % srv.read_pid())
        wait_for(lambda: len(srv.children(new)) >= 1, 15)
        if R.proc_ppid(new) != old:
            fails.append("the new master %r is not a child of the old one" % new)

        def gone(pid):
            return not R.pid_alive(pid)

        if name == "second-usr2":
            srv.signal(_signal.SIGUSR2, old)
            srv.signal(_signal.SIGUSR2, new)
            time.sleep(2.0)
            fam = srv.family()
            tr.append(("family", fam))
            if len(fam) != 4:
                fails.append("after a second USR2 (to both masters) the family has %d processes, expected 2 masters + 2 workers: %r" % (len(fam), fam))
            if srv.read_pid(".2") != new or srv.read_pid() != old:
                fails.append("pid files changed by the second USR2")
            name = "old-first"
        if name == "old-first":
            stop(old)
            if not wait_for(lambda: gone(old), 15):
                fails.append("the old master did not exit")
            if bind == "unix" and not os.path.exists(srv.sock_path):
                fails.append("the unix socket file vanished when the old master exited first")
            ok = wait_for(lambda: srv.read_pid() == new and srv.read_pid(".2") is None, 10)
            tr.append(("promoted", srv.read_pid(), srv.read_pid(".2")))
            if not ok:
                fails.append("after the old master exited the pid files are %r / %r, expected %r / none" % (srv.read_pid(), srv.read_pid(".2"), new))
            time.sleep(0.5)
            last = new
            if twice:
                # the promoted master (whose listeners came from inherited descriptors) is upgraded in turn
                srv.signal(_signal.SIGUSR2, new)
                new2 = wait_for(lambda: srv.read_pid(".2"), 15)
                tr.append(("usr2-on-promoted", new, new2))
                up = bool(new2) and bool(wait_for(lambda: len(srv.children(new2)) >= 1, 15))
                time.sleep(0.5)
                if not (up and R.pid_alive(new2) and len(srv.children(new2)) >= 1):
                    fails.append("USR2 to the promoted master %r did not bring up a live new master with workers (pid file .2: %r)" % (new, new2))
                else:
                    stop(new)
                    if not wait_for(lambda: gone(new), 15):
                        fails.append("the promoted master did not exit")
                    if bind == "unix" and not os.path.exists(srv.sock_path):
                        fails.append("the unix socket file vanished when the promoted master exited after the second upgrade")
                    if not wait_for(lambda: srv.read_pid() == new2 and srv.read_pid(".2") is None, 10):
                        fails.append("after the second upgrade the pid files are %r / %r, expected %r / none" % (srv.read_pid(), srv.read_pid(".2"), new2))
                    time.sleep(0.5)
                    last = new2
        elif name == "new-first" or name == "winch-hup":
            if name == "winch-hup":
                srv.signal(_signal.SIGWINCH, old)
                wait_for(lambda: len(srv.children(old)) == 1, 10)      # only the new master is left as a child
                tr.append(("winch", srv.children(old)))
                time.sleep(0.3)
            stop(new)
            if not wait_for(lambda: gone(new), 15):
                fails.append("the new master did not exit")
            if bind == "unix" and not os.path.exists(srv.sock_path):
                fails.append("the unix socket file vanished when the new master exited first")
            time.sleep(0.3)
            if srv.read_pid(".2") is not None or srv.read_pid() != old:
                fails.append("after the rollback the pid files are %r / %r, expected %r / none" % (srv.read_pid(), srv.read_pid(".2"), old))
            if name == "winch-hup":
                srv.signal(_signal.SIGHUP, old)
                if not wait_for(lambda: len(srv.children(old)) >= 1, 10):
                    fails.append("HUP after WINCH did not bring the old master's workers back")
                time.sleep(2.5)
                # ... to stay: the configured number of workers (1), still there after a few turns of the main loop
                if len(srv.children(old)) != 1:
                    fails.append("after WINCH and HUP the old master has %d workers, configured: 1 (back-out does not restore the single-master state)"
                                 % len(srv.children(old)))
            # the old master is a single master again: a new upgrade works
            srv.signal(_signal.SIGUSR2, old)
            new2 = wait_for(lambda: srv.read_pid(".2"), 15)
            tr.append(("usr2-again", new2))
            if not new2 or new2 == new:
                fails.append("after the rollback a new USR2 did not start a new master")
            else:
                wait_for(lambda: len(srv.children(new2)) >= 1, 15)
                stop(new2)
                wait_for(lambda: gone(new2), 15)
            last = old
        elif name == "both":
            load.finish()                      # nobody is left to answer afterwards
            srv.signal(sig, old)
            srv.signal(sig, new)
            wait_for(lambda: gone(old) and gone(new), 15)
            last = None
        time.sleep(0.3)
        load.finish()
        # a quick stop (INT / QUIT) does not wait for requests: failures right around it are its documented effect
        errs = [e for e in load.errors if not any(q - 0.5 <= e[0] <= q + 1.5 for q in quick_at)]
        tr.append(("client-errors", len(load.errors), "outside quick-stop windows", len(errs)))
        # gthread / gevent / eventlet: a connection that was accepted but whose request was not started is dropped (reset)
        soft = [e for e in errs if worker_class != "sync" and ("ECONNRESET" in e[1] or "status None, 0 bytes" in e[1])]
        hard = [e for e in errs if e not in soft]
        if soft:
            fails.append("KNOWN:%s %d connection(s) accepted by a %s worker that was told to stop were reset before the request was read; first: %r"
                         % (KEY_ACCEPTED, len(soft), worker_class, soft[0]))
        if hard:
            fails.append("%d of %d client connections failed during the upgrade; first: %r" % (len(hard), len(load.results) + len(load.errors), hard[0]))
        served_by = sorted(set(r[4] for r in load.results if r[4]))
        tr.append(("requests", len(load.results), "served by workers of masters", served_by))
        if last is not None:
            srv.signal(_signal.SIGTERM, last)
            if not wait_for(lambda: gone(last), 15):
                fails.append("the last master did not exit")
            time.sleep(0.3)
            left = wait_for(lambda: not srv.family(), 3) or srv.family()
            if srv.family():
                fails.append("processes %r left after the last master exited" % (srv.family(),))
            if bind == "unix" and os.path.exists(srv.sock_path):
                fails.append("the last master exited but the unix socket file is still there")
            if srv.read_pid() is not None or srv.read_pid(".2") is not None:
                fails.append("pid files left: %r / %r" % (srv.read_pid(), srv.read_pid(".2")))
        else:
            time.sleep(0.5)
            left_sock = os.path.exists(srv.sock_path) if bind == "unix" else None
            tr.append(("both-stopped: socket file left", left_sock))
            if left_sock:
                fails.append("KNOWN:%s both masters were stopped at the same moment: neither unlinked the unix socket file" % KEY_BOTHSTOP)
            if srv.family():
                fails.append("processes %r left after both masters were stopped" % (srv.family(),))
    except Exception as e:
        fails.append("harness: %s: %s\n%s" % (type(e).__name__, e, srv.read_log()[-1200:]))
    finally:
        if load is not None and load.is_alive():
            load.finish()
        tr.append(("log-tail", srv.read_log()[-600:]))
        srv.cleanup()
    return fails, tr


def dash_m_scenario():
    """started as `python -m gunicorn`, application imports the standard library's http package: does USR2 bring up a new master?"""
    fails, tr = [], []
    srv = R.Server(worker_class="sync", workers=1, graceful=3, bind="unix", dash_m=True, app_prelude="import http.client\n")
    try:
        srv.start()
        old = srv.master
        srv.signal(_signal.SIGUSR2, old)
        new = wait_for(lambda: srv.read_pid(".2"), 10)
        up = bool(new) and bool(wait_for(lambda: len(srv.children(new)) >= 1 and R.pid_alive(new), 6))
        time.sleep(1.0)
        up = up and R.pid_alive(new) and len(srv.children(new)) >= 1
        with open("/proc/%d/cmdline" % old, "rb") as fh:
            tr.append(("old master cmdline", fh.read().replace(b"\0", b" ").decode()[:120]))
        log = srv.read_log()
        tr.append(("new master up", up, "ModuleNotFoundError in log", "No module named 'http.client'" in log))
        if not up:
            key = KEY_DASHM if "No module named 'http.client'" in log else None
            fails.append(("KNOWN:%s " % key if key else "") + "started as `python -m gunicorn`: after USR2 the new master did not come up (its workers fail to "
                         "boot: the re-exec runs <pkgdir>/gunicorn/__main__.py, which puts gunicorn/ first on sys.path and shadows the standard library's http)")
    except Exception as e:
        fails.append("harness: %s: %s" % (type(e).__name__, e))
    finally:
        tr.append(("log-tail", srv.read_log()[-400:]))
        srv.cleanup()
    return fails, tr


def run_real(ctx):
    fails, tr = dash_m_scenario()
    ctx.count_case(("real", "dash-m"), nontrivial=True)
    for f in fails:
        rep = {"kind": "real-dash-m", "trace": [list(map(repr, t)) for t in tr]}
        if f.startswith("harness:"):
            ctx.broken.append("real-process run dash-m could not be carried out: %s" % f[:400])
        elif f.startswith("KNOWN:"):
            key, text = f[6:].split(" ", 1)
            ctx.violation("two real masters (python -m gunicorn): " + text, rep, key=key)
        else:
            ctx.violation("two real masters (python -m gunicorn): " + f, rep)
    if ctx.quick():
        scns = [("old-first", "unix", "TERM", "sync"), ("new-first", "unix", "QUIT", "sync"), ("second-usr2", "tcp", "TERM", "gthread"),
                ("twice", "tcp", "TERM", "sync"), ("winch-hup", "unix", "TERM", "sync")]
    else:
        scns = []
        for name in ("old-first", "new-first", "second-usr2", "winch-hup", "both", "twice"):
            for bind in ("unix", "tcp"):
                for sg in ("TERM", "QUIT"):
                    scns.append((name, bind, sg, "sync" if len(scns) % 2 == 0 else "gthread"))
    results = [None] * len(scns)

    def work(i):
        results[i] = upgrade_scenario(*scns[i])
    for k in range(0, len(scns), 4):
        ths = [threading.Thread(target=work, args=(i,)) for i in range(k, min(k + 4, len(scns)))]
        for t in ths:
            t.start()
        for t in ths:
            t.join()
    for i, r in enumerate(results):
        if r is None or any(f.startswith("harness:") for f in r[0]):
            results[i] = upgrade_scenario(*scns[i])
    nf = 0
    for scn, (fails, tr) in zip(scns, results):
        ctx.count_case(("real",) + scn, nontrivial=True)
        ctx.hist("real", "/".join(scn))
        for f in fails:
            nf += 1
            if f.startswith("harness:"):
                ctx.broken.append("real-process run %r could not be carried out: %s" % (scn, f[:600]))
            elif f.startswith("KNOWN:"):
                key, text = f[6:].split(" ", 1)
                ctx.violation("two real masters (%s): %s" % ("/".join(scn), text), {"kind": "real", "scenario": list(scn), "trace": [list(map(repr, t)) for t in tr]}, key=key)
            else:
                ctx.violation("two real masters (%s): %s" % ("/".join(scn), f), {"kind": "real", "scenario": list(scn), "trace": [list(map(repr, t)) for t in tr]})
    ctx.extra["real_runs"] = [{"scenario": "/".join(s), "failures": r[0], "trace": [repr(t)[:200] for t in r[1][:-1]]} for s, r in zip(scns, results)]
    ctx.log("ran %d real two-master upgrades; %d failures" % (len(scns), nf))
