"""C20 - workers always run with exactly the configured user and group.

Real processes, observed on /proc/<pid>/status, compared with Model/Creds.v (evaluated by the Coq
kernel) and judged directly against the property:

  level 1  (identity)  a forked root child takes the identity of a "master", builds a real Config from the
                       user/group spellings and calls the real util.set_owner_process
  level 2  (worker)    a real worker object (sync / gthread / gevent / eventlet) is built in a root child and
                       run through the real Worker.init_process with a recording application loader:
                       identity at load_wsgi and at run(), heartbeat file ownership and touch
  level 3  (socket)    real sock.create_sockets on a unix path, then the drop, then connect/accept
  level 4  (server)    a real gunicorn server started as root from $VERIF_REPO on a unix socket, driven
                       through {worker killed, HUP, USR2, TTIN, TTOU, TERM}; every generation of workers and
                       every master read from /proc, plus what the application reports about itself
"""
import json
import os
import signal
import time

import lib_c20 as L
import vlib

HEADER_TMPL = """From Coq Require Import List NArith ZArith Bool.
From GV Require Import Base.Enc Model.Creds.
Import ListNotations.
Open Scope Z_scope.
Definition DB0 : dbtab := %s.
Definition DB1 : dbtab := %s.
"""

ROOT = {"uids": [0, 0, 0], "gids": [0, 0, 0]}
KEY_SKIPPED = "initgroups-skipped"
KEY_NOUSER = "initgroups-without-user"
KEY_GID0 = "gid-zero-ignored"


def master(groups, uids=(0, 0, 0), gids=(0, 0, 0)):
    return {"uids": list(uids), "gids": list(gids), "groups": sorted(set(groups))}


# ---------------------------------------------------------------------------------------------
# encoders
# ---------------------------------------------------------------------------------------------

def enc_creds(c):
    return list(c["uids"]) + list(c["gids"]) + [len(c["groups"])] + list(c["groups"])


def coq_creds(m):
    return "(mk %s %s %s)" % (" ".join(vlib.coq_Z(x) for x in m["uids"]), " ".join(vlib.coq_Z(x) for x in m["gids"]),
                              vlib.coq_listZ(m["groups"]))


def coq_spelling(db, sp, is_user):
    if sp is None:
        return "SpNone"
    if sp[0] == "int":
        return "(SpInt %s)" % vlib.coq_Z(sp[1])
    s = sp[1]
    if s.isdigit():
        return "(SpDigits %s)" % vlib.coq_Z(int(s))
    return "(SpName %d%%N)" % (db.uname_id(s) if is_user else db.gname_id(s))


def resolve(db, sp, is_user, default):
    """The id a spelling denotes, by the harness' own reading of the databases (None = no such name)."""
    if sp is None:
        return default
    if sp[0] == "int":
        return int(sp[1])
    if sp[1].isdigit():
        return int(sp[1])
    return db.uid_of_name(sp[1]) if is_user else db.gid_of_name(sp[1])


def code_of(res):
    return 0 if res == "ok" else L.EXC_CODES.get(res, 9)


# ---------------------------------------------------------------------------------------------
# the property, judged on one real observation (independent of the model)
# ---------------------------------------------------------------------------------------------

def root_master(m):
    return m["uids"][0] == 0 and m["uids"][1] == 0 and m["gids"][0] == m["gids"][1] == m["gids"][2]


def expected_identity(db, m, user, group, ig):
    """(uid, gid, groups or None when the property says nothing about them); None = ConfigError expected"""
    uid = resolve(db, user, True, m["uids"][1])
    gid = resolve(db, group, False, m["gids"][1])
    if uid is None or gid is None:
        return None
    groups = None
    if ig and user is not None:
        name = db.name_of_uid(uid)
        groups = sorted(set((db.memberships(name) if name is not None else []) + [gid]))
    return uid, gid, groups


def judge_creds(db, m, user, group, ig, creds, where):
    """-> list of (what, key)"""
    exp = expected_identity(db, m, user, group, ig)
    if exp is None:
        return []
    uid, gid, groups = exp
    out = []
    # an id that is not configured (or names what the master already is) means "stay as the master is"
    want_u = list(m["uids"]) if (user is None or uid == m["uids"][1]) else [uid] * 3
    want_g = list(m["gids"]) if (group is None or gid == m["gids"][1]) else [gid] * 3
    if creds["uids"] != want_u:
        out.append(("%s: real/effective/saved uid %r, configured uid %d" % (where, creds["uids"], uid), None))
    if creds["gids"] != want_g:
        key = KEY_GID0 if (gid == 0 and creds["gids"] == list(m["gids"])) else None
        out.append(("%s: real/effective/saved gid %r, configured gid %d" % (where, creds["gids"], gid), key))
    if groups is not None and sorted(set(creds["groups"] + [gid])) != groups:
        key = None
        if (gid == 0 or db.name_of_uid(uid) is None) and creds["groups"] == m["groups"]:
            key = KEY_SKIPPED
        out.append(("%s: initgroups on, supplementary groups %r, the user's groups (+gid) are %r" % (where, creds["groups"], groups), key))
    return out


def judge_raise(db, m, user, group, ig, res, where):
    exp = expected_identity(db, m, user, group, ig)
    if exp is None:
        return [] if res == "ConfigError" else [("%s: unknown name accepted (%s)" % (where, res), None)]
    uid, gid, _ = exp
    key = KEY_NOUSER if (res == "UnboundLocalError" and uid == 0 and gid != 0 and ig) else None
    return [("%s: the worker cannot take the configured identity uid=%d gid=%d initgroups=%s: %s raised" % (where, uid, gid, ig, res), key)]


# ---------------------------------------------------------------------------------------------
# level 1
# ---------------------------------------------------------------------------------------------

def job_identity(env, cell):
    return L.child_identity(cell, env["fake_text"]), 40


def post_identity(env, cell, res, st):
    creds = L.creds_of_status(st)
    if not creds["fs_follow"] or {k: creds[k] for k in ("uids", "gids", "groups")} != res["self"]:
        raise L.ChildFailure("/proc and the child's own view disagree: %r vs %r" % (creds, res["self"]))
    return {"res": res["res"], "creds": creds}


def obs_identity(cell, r):
    if r["res"] != "ok":
        return [code_of(r["res"])]       # the process dies with the exception: only its class is compared
    return [0] + enc_creds(r["creds"])


def model_identity(env, cell):
    db = env["db"][cell["fake"]]
    D = "DB1" if cell["fake"] else "DB0"
    if cell["level"] == "config":
        return "obs_cell %s %s %s %s %s" % (D, coq_creds(cell["master"]), coq_spelling(db, cell["user"], True),
                                          coq_spelling(db, cell["group"], False), vlib.coq_bool(cell["ig"]))
    return "obs_outcome (set_owner_process (db_of_tab %s) %s %s %s %s)" % (
        D, vlib.coq_Z(cell["uid"]), vlib.coq_Z(cell["gid"]), vlib.coq_bool(cell["ig"]), coq_creds(cell["master"]))


def cell_spellings(cell):
    if cell["level"] == "config":
        return cell["user"], cell["group"]
    # direct call: the ids as given; 0 = "not configured" for a root master
    return (["int", cell["uid"]] if cell["uid"] != cell["master"]["uids"][1] else None,
            ["int", cell["gid"]] if cell["gid"] != cell["master"]["gids"][1] else None)


def judge_identity(env, cell, r):
    if not root_master(cell["master"]):
        return []        # outside the property's premise; such cells only validate the kernel model
    db = env["db"][cell["fake"]]
    user, group = cell_spellings(cell)
    if r["res"] != "ok":
        return judge_raise(db, cell["master"], user, group, cell["ig"], r["res"], "set_owner_process")
    if expected_identity(db, cell["master"], user, group, cell["ig"]) is None:
        return [("a user/group name that does not exist was accepted", None)]
    return judge_creds(db, cell["master"], user, group, cell["ig"], r["creds"], "after set_owner_process")


USERS = [None, ["str", "nobody"], ["str", "65534"], ["int", 65534], ["str", "www-data"], ["str", "12345"]]
GROUPS = [None, ["str", "nogroup"], ["str", "65534"], ["int", 65534], ["str", "www-data"], ["str", "0"], ["str", "54321"]]
MGROUPS = [[], [0, 4, 27]]


def identity_cells(env, rng, n_random):
    cells = []
    fakes = [False, True] if env["fake_text"] else [False]
    for fake in fakes:
        for mg in MGROUPS:
            for u in USERS:
                for g in GROUPS:
                    for ig in (False, True):
                        cells.append({"kind": "identity", "level": "config", "fake": fake, "master": master(mg),
                                      "user": u, "group": g, "ig": ig})
    for u, g in [(["str", "nosuchuser"], ["str", "nogroup"]), (["str", "nobody"], ["str", "nosuchgroup"]),
                 (["str", "nogroup"], None), (None, ["str", "nobody"]),
                 (["str", "root"], ["str", "nogroup"]), (["str", "0"], ["str", "nogroup"]), (["int", 0], ["int", 65534]),
                 (["str", "root"], ["str", "root"]), (["str", "daemon"], ["str", "audio"])]:
        for ig in (False, True):
            cells.append({"kind": "identity", "level": "config", "fake": fakes[-1], "master": master([0]),
                          "user": u, "group": g, "ig": ig})
    # masters that are not plain root: the kernel rules of the model (unprivileged, saved ids, launchers)
    odd = [master([], (1000, 1000, 1000), (1000, 1000, 1000)), master([1000, 4], (1000, 1000, 1000), (1000, 1000, 1000)),
           master([], (1000, 0, 0), (0, 0, 0)), master([], (1000, 1000, 0), (1000, 1000, 0)),
           master([], (0, 0, 1000), (5, 5, 5)), master([5], (0, 0, 0), (5, 0, 0)), master([], (0, 0, 0), (5, 5, 5)),
           master([], (65534, 1000, 33), (65534, 1000, 33)), master([7], (33, 33, 33), (33, 33, 65534))]
    for m in odd:
        for uid in (0, 1000, 65534, 33):
            for gid in (0, 1000, 65534, 5):
                for ig in (False, True):
                    if ig and uid in (0,) and gid != 0 and False:
                        continue
                    cells.append({"kind": "identity", "level": "direct", "fake": False, "master": m,
                                  "uid": uid, "gid": gid, "ig": ig})
    # seeded random cells over everything in the databases
    db = env["db"][False]
    unames = [n for _, n in db.pw]
    gnames = [n for n, _, _ in db.gr]
    for _ in range(n_random):
        fake = rng.choice(fakes)
        mg = sorted(set(rng.sample([0, 1, 4, 6, 24, 27, 100, 65534], rng.randint(0, 4))))
        if rng.random() < 0.8:
            un = rng.choice(unames)
            u = rng.choice([["str", un], ["str", str(db.uid_of_name(un))], ["int", db.uid_of_name(un)]])
            if rng.random() < 0.1:
                u = None
            gn = rng.choice(gnames)
            g = rng.choice([["str", gn], ["str", str(db.gid_of_name(gn))], ["int", db.gid_of_name(gn)]])
            if rng.random() < 0.12:
                g = None
            gg = rng.choice([0, 0, 5, 1000])
            cells.append({"kind": "identity", "level": "config", "fake": fake,
                          "master": master(mg, (0, 0, rng.choice([0, 0, 1000])), (gg, gg, gg)),
                          "user": u, "group": g, "ig": rng.random() < 0.5})
        else:
            ids = [0, 1, 33, 1000, 65534, 4242]
            m = master(mg, [rng.choice(ids) for _ in range(3)], [rng.choice(ids) for _ in range(3)])
            cells.append({"kind": "identity", "level": "direct", "fake": fake, "master": m,
                          "uid": rng.choice(ids), "gid": rng.choice(ids), "ig": rng.random() < 0.5})
    return cells


# ---------------------------------------------------------------------------------------------
# level 2
# ---------------------------------------------------------------------------------------------

def job_worker(env, cell):
    return L.child_worker(cell, env["fake_text"]), 60


def post_worker(env, cell, res, st):
    res["creds"] = L.creds_of_status(st)
    return res


def obs_worker(cell, r):
    out = [1] + list(r["tmp"])
    out.append(len(r["events"]))
    for e in r["events"]:
        if e[0] == 3:
            out += [3] + enc_creds(e[1])
        else:
            out += list(e)
    dead = any(e[0] == 2 or e == [4, 0] for e in r["events"])
    return out + ([] if dead else enc_creds(r["creds"]))


def model_worker(env, cell):
    db = env["db"][cell["fake"]]
    m = cell["master"]
    uid = resolve(db, cell["user"], True, m["uids"][1])
    gid = resolve(db, cell["group"], False, m["gids"][1])
    return "obs_worker %s %s %s %s %s %s %s" % ("DB1" if cell["fake"] else "DB0", coq_creds(m), vlib.coq_Z(uid), vlib.coq_Z(gid),
                                               vlib.coq_bool(cell["ig"]), vlib.coq_bool(cell["reload"]), vlib.coq_Z(cell["umask"]))


def judge_worker(env, cell, r):
    db = env["db"][cell["fake"]]
    m = cell["master"]
    out = []
    kinds = [e[0] for e in r["events"]]
    if cell.get("oracle_only"):
        # an unprivileged master: that the switch fails (loudly, the worker does not boot) is the expected outcome; what must not
        # happen is application code running under anything but the configured identity
        for e in r["events"]:
            if e[0] == 3:
                out += judge_creds(db, m, cell["user"], cell["group"], cell["ig"], e[1],
                                   "%s worker of a master that is not root (uid %d, groups %r), application code"
                                   % (cell["worker_class"], m["uids"][1], m["groups"]))
        if 2 in kinds and 3 in kinds:
            out.append(("application code ran although set_owner_process raised", None))
        return out[:3]
    if 2 in kinds:
        e = [x for x in r["events"] if x[0] == 2][0]
        name = {v: k for k, v in L.EXC_CODES.items()}.get(e[1], "an exception")
        out += judge_raise(db, m, cell["user"], cell["group"], cell["ig"], name, "Worker.init_process")
        if 3 in kinds:
            out.append(("application code ran although set_owner_process raised", None))
        return out
    if 3 in kinds and (1 not in kinds or kinds.index(1) > kinds.index(3)):
        out.append(("Worker.init_process (%s): application code (load_wsgi) ran before set_owner_process" % cell["worker_class"], None))
    for e in r["events"]:
        if e[0] == 3:
            out += judge_creds(db, m, cell["user"], cell["group"], cell["ig"], e[1],
                               "%s worker, application code" % cell["worker_class"])
    if [4, 0] in r["events"]:
        out.append(("%s worker cannot touch its heartbeat file (owner %d:%d, worker uid %d): PermissionError in notify()"
                    % (cell["worker_class"], r["tmp"][0], r["tmp"][1], r["creds"]["uids"][1]), None))
    elif [4, 1] not in r["events"]:
        out.append(("%s worker never reached run(): %r" % (cell["worker_class"], r.get("err")), None))
    return out[:3]


WORKER_CONFIGS = [
    (["str", "nobody"], ["str", "nogroup"], False), (["str", "nobody"], ["str", "nogroup"], True),
    (["str", "www-data"], None, False), (None, ["str", "nogroup"], False), (None, None, False),
    (["int", 65534], ["str", "www-data"], True), (None, ["str", "nogroup"], True), (["str", "33"], None, True),
]


def worker_cells(env, classes, rng, extra):
    cells = []
    fake = bool(env["fake_text"])
    for wc in classes:
        for i, (u, g, ig) in enumerate(WORKER_CONFIGS):
            cells.append({"kind": "worker", "worker_class": wc, "fake": fake, "master": master([0, 4, 27] if i % 2 else []),
                          "user": u, "group": g, "ig": ig, "umask": [0, 0o22, 0o77][i % 3], "reload": i == 1, "tmpdir": None})
    # masters that are NOT root and ask for a group they merely belong to (the heartbeat file can be handed to it, so nothing
    # else stops the worker): set_owner_process must be attempted - and fail loudly - before any application code runs.
    # Oracle only (the model's worker path is stated for the kernel rules of a privileged master's chown).
    for wc in ("sync",):           # (the other worker classes' modules cannot be imported by an unprivileged child on this machine)
        for groups, grp in (([4242], ["int", 4242]), ([1000, 33], ["int", 33])):
            cells.append({"kind": "worker", "worker_class": wc, "fake": False, "oracle_only": True,
                          "master": master(groups, uids=(1000, 1000, 1000), gids=(1000, 1000, 1000)),
                          "user": None, "group": grp, "ig": False, "umask": 0o22, "reload": False, "tmpdir": None})
    db = env["db"][False]
    unames = [n for _, n in db.pw]
    gnames = [n for n, _, _ in db.gr]
    for _ in range(extra):
        cells.append({"kind": "worker", "worker_class": rng.choice(classes), "fake": fake and rng.random() < 0.7,
                      "master": master(rng.choice([[], [0], [0, 4, 27]])),
                      "user": rng.choice([None, ["str", rng.choice(unames)], ["str", str(db.uid_of_name(rng.choice(unames)))]]),
                      "group": rng.choice([None, ["str", rng.choice(gnames)], ["int", db.gid_of_name(rng.choice(gnames))]]),
                      "ig": rng.random() < 0.4, "umask": rng.choice([0, 0o22, 0o77, 0o27]), "reload": rng.random() < 0.2,
                      "tmpdir": None})
    return cells


# ---------------------------------------------------------------------------------------------
# level 3
# ---------------------------------------------------------------------------------------------

def job_socket(env, cell):
    c = dict(cell)
    c["dir"] = env["sockdir"]
    return L.child_socket(c, env["fake_text"]), 40


def post_socket(env, cell, res, st):
    res["creds"] = L.creds_of_status(st)
    return res


def obs_socket(cell, r):
    if "bind" in r:
        return [0]
    out = [1] + list(r["file"])
    if "drop" in r:
        return out + [2, L.EXC_CODES.get(r["drop"], 9)]
    return out + [1, r["connect"]]


def model_socket(env, cell):
    db = env["db"][cell["fake"]]
    m = cell["master"]
    uid = resolve(db, cell["user"], True, m["uids"][1])
    gid = resolve(db, cell["group"], False, m["gids"][1])
    return "obs_socket %s %s %s %s %s %s" % ("DB1" if cell["fake"] else "DB0", coq_creds(m), vlib.coq_Z(uid), vlib.coq_Z(gid),
                                            vlib.coq_bool(cell["ig"]), vlib.coq_Z(cell["umask"]))


def judge_socket(env, cell, r):
    db = env["db"][cell["fake"]]
    m = cell["master"]
    exp = expected_identity(db, m, cell["user"], cell["group"], cell["ig"])
    if exp is None:
        return []
    uid, gid, _ = exp
    if "bind" in r:
        return [("the unix socket cannot be created: %s" % r["bind"], None)]
    out = []
    if r["file"][0] != uid or r["file"][1] != gid:
        out.append(("unix socket owned by %d:%d, configured %d:%d" % (r["file"][0], r["file"][1], uid, gid), None))
    if "drop" in r:
        return out       # judged by the identity cells
    if not (cell["umask"] & 0o200) and r["connect"] != 1:
        out.append(("a process with the worker's identity (uid %d gid %d) cannot connect to the unix socket (owner %d:%d mode %o)"
                    % (uid, gid, r["file"][0], r["file"][1], r["file"][2]), None))
    return out


def socket_cells(env, rng, extra):
    cells = []
    for (u, g) in [(["str", "nobody"], ["str", "nogroup"]), (["str", "www-data"], None), (None, ["str", "nogroup"]), (None, None),
                   (["int", 33], ["str", "65534"])]:
        for um in (0, 0o22, 0o77, 0o07, 0o277, 0o707):
            cells.append({"kind": "socket", "fake": False, "master": master([]), "user": u, "group": g, "ig": False, "umask": um})
    for _ in range(extra):
        cells.append({"kind": "socket", "fake": False, "master": master(rng.choice([[], [0, 4]])),
                      "user": rng.choice(USERS[:5]), "group": rng.choice(GROUPS[:5]), "ig": rng.random() < 0.3,
                      "umask": rng.choice([0, 0o2, 0o22, 0o27, 0o77, 0o177, 0o222, 0o777, 0o70])})
    return cells


RUNNERS = {"identity": (job_identity, post_identity, obs_identity, model_identity, judge_identity),
           "worker": (job_worker, post_worker, obs_worker, model_worker, judge_worker),
           "socket": (job_socket, post_socket, obs_socket, model_socket, judge_socket)}


def run_one(env, cell):
    job, post = RUNNERS[cell["kind"]][:2]
    fn, timeout = job(env, cell)
    res, st = L.run_child(fn, timeout)
    return post(env, cell, res, st)


# ---------------------------------------------------------------------------------------------
# level 4: real server
# ---------------------------------------------------------------------------------------------

def conf_spelling(x):
    return None if x is None else x[1]


def coq_cfg(env, conf, fake):
    db = env["db"][fake]
    uid = resolve(db, conf.get("user"), True, 0)
    gid = resolve(db, conf.get("group"), False, 0)
    return "{| c_uid := %s; c_gid := %s; c_ig := %s; c_umask := %s; c_reload := false; c_workers := %d%%nat |}" % (
        vlib.coq_Z(uid), vlib.coq_Z(gid), vlib.coq_bool(conf.get("ig")), vlib.coq_Z(conf.get("umask", 0)), conf.get("workers", 2))


def server_conf(conf):
    c = dict(conf)
    c["user"] = conf_spelling(conf.get("user"))
    c["group"] = conf_spelling(conf.get("group"))
    return c


def run_server(env, scen, log=None):
    """scen: {"conf", "fake", "mgroups", "events": [...]}; events address processes relative to what is alive:
       ["kill", k]  the k-th (mod n) live worker        ["hup", mi, conf changes or None]  mi-th live master
       ["usr2", mi] ["ttin", mi] ["ttou", mi] ["term", mi]
    Returns (steps, failures): steps = [(model event list (Coq), impl observation, description)], failures = oracle."""
    fake = bool(scen["fake"] and env["fake_text"])
    mg = sorted(set(scen["mgroups"]))
    srv = L.Server(server_conf(scen["conf"]), master_groups=mg, fake_text=env["fake_text"] if fake else None)
    db = env["db"][fake]
    m0 = master(mg)
    steps, fails = [], []
    mevents = []
    fileconf = dict(scen["conf"])      # what the configuration file says now
    mconf = {}                         # live master pid -> configuration in force
    wconf = {}                         # worker pid -> configuration it was spawned under
    state = {"ok": True}

    def want_counts():
        return [mconf[m]["workers"] for m in srv.masters if srv.alive(m) and m in mconf]

    def observe(desc):
        snap, ok = srv.settle(want_counts())
        for m, mc, ws in snap:
            mconf.setdefault(m, dict(fileconf))
            for p, wc, load in ws:
                wconf.setdefault(p, dict(mconf[m]))
        obs = [len(snap)]
        for m, mc, ws in snap:
            obs += enc_creds(mc) + [len(ws)]
            for p, wc, load in ws:
                obs += enc_creds(wc) + ([1] + enc_creds(load) if load is not None else [0])
        lost = state.get("config_lost")
        if not lost:
            steps.append((list(mevents), obs, desc))
        nf = len(fails)
        # ---- the property on this snapshot ----
        if not ok:
            state["ok"] = False
            if not snap:
                fails.append(("after %s: no master is running any more; log: %s" % (desc, " | ".join(srv.log_tail(8))), None))
            else:
                fails.append(("after %s: the server does not reach %r live workers per master (have %r); log: %s"
                              % (desc, want_counts(), [len(ws) for _, _, ws in snap], " | ".join(srv.log_tail(8))), None))
        for m, mc, ws in snap:
            if mc["uids"] != m0["uids"] or mc["gids"] != m0["gids"] or mc["groups"] != m0["groups"]:
                fails.append(("after %s: master %d changed identity: %r" % (desc, m, mc), None))
            for p, wc, load in ws:
                c = wconf[p]
                fails.extend(judge_creds(db, m0, c.get("user"), c.get("group"), c.get("ig"), wc, "after %s: worker (/proc)" % desc))
                if load is not None:
                    fails.extend(judge_creds(db, m0, c.get("user"), c.get("group"), c.get("ig"), load,
                                             "after %s: application code at load time" % desc))
        if lost:
            # KNOWN_FINDINGS implicit-config-lost-on-upgrade (D31): the re-executed master was started in the `chdir`
            # directory and never saw ./gunicorn.conf.py - what it and its workers do is attributed to that finding
            fails[nf:] = [(w, "implicit-config-lost-on-upgrade") for (w, _) in fails[nf:]]
            state["ok"] = True
        return snap

    try:
        srv.start()
        mconf[srv.proc.pid] = dict(fileconf)
        observe("boot")
        sock_stat = srv.sock_stat()
        exp = expected_identity(db, m0, fileconf.get("user"), fileconf.get("group"), fileconf.get("ig"))
        if sock_stat is None:
            fails.append(("no unix socket after boot; log: %s" % " | ".join(srv.log_tail(6)), None))
        elif exp is not None and (sock_stat[0] != exp[0] or sock_stat[1] != exp[1]):
            fails.append(("unix socket owned by %d:%d, configured %d:%d" % (sock_stat[0], sock_stat[1], exp[0], exp[1]), None))
        for ev in scen["events"]:
            if not state["ok"]:
                break                   # the server is already broken: one concrete failure is enough
            snap = srv.snapshot()
            live_masters = [m for m, _, _ in snap]
            live_workers = [p for _, _, ws in snap for p, _, _ in ws]
            kind = ev[0]
            if kind == "kill":
                if not live_workers:
                    continue
                p = live_workers[ev[1] % len(live_workers)]
                mevents.append("SKillWorker %d%%nat" % srv.table.index(p))
                os.kill(p, signal.SIGKILL)
                desc = "worker killed"
            else:
                if not live_masters:
                    break
                m = live_masters[ev[1] % len(live_masters)]
                mi = srv.table.index(m)
                if kind == "hup":
                    newc = dict(fileconf)
                    if ev[2]:
                        newc.update(ev[2])
                    fileconf = newc
                    srv.conf = server_conf(newc)
                    srv.write_conf()
                    mconf[m] = dict(newc)
                    mevents.append("SHup %d%%nat %s" % (mi, coq_cfg(env, newc, fake)))
                    os.kill(m, signal.SIGHUP)
                    desc = "HUP"
                elif kind == "usr2":
                    n_before = len(srv.masters)
                    blocked = any(srv.alive(x) and x != m for x in srv.masters)     # a parent or a child master is alive
                    mevents.append("SUsr2 %d%%nat %s" % (mi, coq_cfg(env, fileconf, fake)))
                    os.kill(m, signal.SIGUSR2)
                    desc = "USR2"
                    if not blocked:
                        t_end = time.time() + 10
                        while time.time() < t_end and len(srv.masters) == n_before:
                            srv.refresh()
                            time.sleep(0.1)
                        if len(srv.masters) > n_before:
                            mconf[srv.masters[-1]] = dict(fileconf)
                        if scen["conf"].get("via") == "cwdfile":
                            state["config_lost"] = True
                    else:
                        time.sleep(0.5)
                elif kind == "ttin":
                    mconf[m]["workers"] += 1
                    mevents.append("STtin %d%%nat" % mi)
                    os.kill(m, signal.SIGTTIN)
                    desc = "TTIN"
                elif kind == "ttou":
                    if mconf[m]["workers"] > 1:
                        mconf[m]["workers"] -= 1
                    mevents.append("STtou %d%%nat" % mi)
                    os.kill(m, signal.SIGTTOU)
                    desc = "TTOU"
                elif kind == "term":
                    mevents.append("STerm %d%%nat" % mi)
                    os.kill(m, signal.SIGTERM)
                    desc = "TERM of a master"
                    t_end = time.time() + 10
                    while time.time() < t_end and srv.alive(m):
                        time.sleep(0.1)
                else:
                    raise ValueError(kind)
            observe(desc)
        # ---- what the worker needs after the drop ----
        snap = srv.snapshot() if state["ok"] and not state.get("config_lost") else []
        if snap:
            before = sorted(p for _, _, ws in snap for p, _, _ in ws)
            docs = srv.request(10)
            good = [d for d in docs if "error" not in d]
            if not good:
                fails.append(("the server does not answer on its unix socket: %r; log: %s" % (docs[:2], " | ".join(srv.log_tail(6))), None))
            for d in good:
                c = wconf.get(d["pid"])
                if c is not None:
                    fails.extend(judge_creds(db, m0, c.get("user"), c.get("group"), c.get("ig"), d, "inside a request"))
            if exp is not None and not (scen["conf"].get("umask", 0) & 0o200):
                okc = srv.request_as(exp[0], exp[1])
                if okc != 1:
                    fails.append(("a client with the configured identity %d:%d cannot connect to the unix socket (stat %r): %r"
                                  % (exp[0], exp[1], srv.sock_stat(), okc), None))
            # idle for longer than `timeout`: a worker that cannot touch its heartbeat file is killed (or dies)
            time.sleep(scen["conf"].get("timeout", 2) * 1.6 + 0.5)
            snap2, ok = srv.settle(want_counts(), timeout=6)
            after = sorted(p for _, _, ws in snap2 for p, _, _ in ws)
            if after != before:
                fails.append(("workers did not survive an idle period longer than `timeout` (heartbeat): %r -> %r; log: %s"
                              % (before, after, " | ".join(srv.log_tail(6))), None))
        if log and fails:
            log("server log tail: " + " | ".join(srv.log_tail(12)))
    finally:
        srv.stop()
    return steps, fails


def model_server(env, scen, mevents):
    fake = bool(scen["fake"] and env["fake_text"])
    return "obs_history %s %s %s [%s]" % ("DB1" if fake else "DB0", coq_creds(master(scen["mgroups"])),
                                         coq_cfg(env, scen["conf"], fake), "; ".join(mevents))


QUICK_SCENARIO = {
    "conf": {"user": ["str", "nobody"], "group": ["str", "nogroup"], "ig": True, "umask": 0o77, "workers": 2,
             "worker_class": "sync", "timeout": 2},
    "fake": True, "mgroups": [0, 4, 27],
    "events": [["kill", 0], ["hup", 0, {"user": ["str", "www-data"], "group": ["int", 33], "workers": 2}], ["usr2", 0],
               ["kill", 3], ["ttin", 1], ["term", 0]],
}


QUICK_SCENARIO2 = {
    "conf": {"user": ["str", "65534"], "group": ["int", 65534], "ig": False, "umask": 0o22, "workers": 1,
             "worker_class": "gthread", "timeout": 2},
    "fake": False, "mgroups": [],
    "events": [["usr2", 0], ["kill", 1], ["hup", 0, None], ["ttin", 1], ["ttou", 0]],
}


# the identity configured on the command line / through GUNICORN_CMD_ARGS instead of the configuration file: every generation -
# also the one of a re-executed master, which is started from sys.argv and the ORIGINAL environment - must see it
QUICK_SCENARIO3 = {
    "conf": {"user": ["str", "nobody"], "group": ["str", "nogroup"], "ig": True, "umask": 0o22, "workers": 2,
             "worker_class": "sync", "timeout": 2, "via": "env"},
    "fake": False, "mgroups": [0, 4],
    "events": [["kill", 0], ["usr2", 0], ["kill", 3], ["hup", 1, None], ["ttin", 1]],
}


QUICK_SCENARIO4 = {
    "conf": {"user": ["str", "daemon"], "group": ["int", 65534], "ig": False, "umask": 0, "workers": 1,
             "worker_class": "gthread", "timeout": 2, "via": "cli"},
    "fake": False, "mgroups": [],
    "events": [["hup", 0, None], ["usr2", 0], ["kill", 2], ["term", 0], ["kill", 0]],
}


# the configuration is the implicit ./gunicorn.conf.py of the start directory, with `chdir` naming another directory: a reload
# re-reads it from where the master was started
QUICK_SCENARIO5 = {
    "conf": {"user": ["str", "nobody"], "group": ["str", "nogroup"], "ig": True, "umask": 0o22, "workers": 1,
             "worker_class": "sync", "timeout": 2, "via": "cwdfile"},
    "fake": False, "mgroups": [0],
    "events": [["hup", 0, None], ["kill", 0], ["hup", 0, {"user": ["str", "daemon"], "group": ["int", 65534], "workers": 2}], ["ttin", 0]],
}


# the same implicit ./gunicorn.conf.py + `chdir`, then USR2: Arbiter.__init__ takes START_CTX['cwd'] AFTER the application has
# changed directory, reexec() starts the new master there, and that one finds no gunicorn.conf.py: its workers run with the
# default identity (the master's) and the default count.  KNOWN_FINDINGS implicit-config-lost-on-upgrade (D31); random
# scenarios therefore do not combine cwdfile with USR2
KNOWN_SCENARIO_D31 = {
    "conf": {"user": ["str", "nobody"], "group": ["str", "nogroup"], "ig": False, "umask": 0o22, "workers": 2,
             "worker_class": "sync", "timeout": 2, "via": "cwdfile"},
    "fake": False, "mgroups": [],
    "events": [["kill", 0], ["usr2", 0]],
}


def thorough_scenarios(rng, env, rounds=1):
    out = []
    for _ in range(rounds):
        out += thorough_scenarios1(rng, env)
    return out


def thorough_scenarios1(rng, env):
    scens = []
    confs = [
        {"user": ["str", "nobody"], "group": ["str", "nogroup"], "ig": False},
        {"user": ["str", "65534"], "group": ["int", 65534], "ig": True},
        {"user": ["str", "www-data"], "group": ["str", "www-data"], "ig": True},
        {"user": ["str", "daemon"], "group": ["str", "nogroup"], "ig": False},
        {"user": ["str", "nobody"], "group": None, "ig": False},
        {"user": None, "group": ["str", "nogroup"], "ig": False},
    ]
    classes = ["sync", "gthread", "gevent", "eventlet", "sync", "gthread"]
    for i, c in enumerate(confs):
        conf = dict(c)
        conf.update({"umask": rng.choice([0, 0o22, 0o77]), "workers": rng.choice([1, 2, 3]), "worker_class": classes[i], "timeout": 2})
        via = rng.choice(["file", "file", "cli", "env", "cwdfile"])
        if via != "file":
            conf["via"] = via
        evs = []
        usr2_done = False
        for _ in range(rng.randint(4, 7)):
            x = rng.random()
            if x < 0.3:
                evs.append(["kill", rng.randrange(8)])
            elif x < 0.5:
                alt = rng.choice(confs[:4])
                # always the oldest live master: a HUP to a re-executed master whose parent is still alive makes it
                # exit (reload() -> Pidfile.create finds the parent's pid file: RuntimeError) - not a C20 matter
                # (an identity given on the command line / in the environment is not changed by editing the file)
                evs.append(["hup", 0, rng.choice([None, {"user": alt["user"], "group": alt["group"], "ig": alt["ig"]}]) if via in ("file", "cwdfile") else None])
            elif x < 0.65 and not usr2_done and via != "cwdfile":
                evs.append(["usr2", 0])
                usr2_done = True
            elif x < 0.8:
                evs.append(["ttin", rng.randrange(2)])
            elif x < 0.9:
                evs.append(["ttou", rng.randrange(2)])
            elif usr2_done:
                evs.append(["term", 0])
                usr2_done = False
            else:
                evs.append(["kill", rng.randrange(8)])
        scens.append({"conf": conf, "fake": i % 2 == 1, "mgroups": rng.choice([[], [0], [0, 4, 27]]), "events": evs})
    return scens


# ---------------------------------------------------------------------------------------------
# the run
# ---------------------------------------------------------------------------------------------

def make_env():
    env = {"fake_text": None, "db": {False: L.UserDB(False)}}
    text = L.fake_group_text()

    def probe(finish):
        L.enter_fake_group_db(text)
        finish({"gl": sorted(os.getgrouplist("nobody", 65534))})
    try:
        res, _ = L.run_child(probe, timeout=20)
        if 4 in res["gl"] and 24 in res["gl"]:
            env["fake_text"] = text
            env["db"][True] = L.UserDB(True)
    except L.ChildFailure:
        pass
    if True not in env["db"]:
        env["db"][True] = env["db"][False]
    env["sockdir"] = L.scratch_dir("c20-sock-")
    return env


def header(env):
    return HEADER_TMPL % (env["db"][False].coq(), env["db"][True].coq())


def describe(cell):
    c = {k: v for k, v in cell.items() if k not in ("dir", "tmpdir")}
    return c


def corpus_cells():
    """corpus/C20/*.json: recorded cells (the known findings and regression cases), always run first."""
    out = []
    d = vlib.VERIF / "corpus" / "C20"
    for f in sorted(d.glob("*.json")) if d.exists() else []:
        rep = json.loads(f.read_text())
        if rep.get("kind") in RUNNERS and "cell" in rep:
            out.append(dict(rep["cell"]))
    return out


def run_cells(ctx, env, cells, report=True):
    """Run real cells; returns (cases for the correspondence, failures [(cell, result, what, key)])."""
    cases, fails = [], []
    results = L.run_children([RUNNERS[c["kind"]][0](env, c) for c in cells])
    L.cleanup_sockets(env["sockdir"])
    for cell, rr in zip(cells, results):
        _, post, obs, model, judge = RUNNERS[cell["kind"]]
        try:
            if isinstance(rr, L.ChildFailure):
                raise rr
            r = post(env, cell, rr[0], rr[1])
        except L.ChildFailure as e:
            ctx.broken.append("harness: a %s cell could not be run: %s (%r)" % (cell["kind"], str(e)[-600:], describe(cell)))
            ctx.log("CELL FAILED TO RUN:", describe(cell), str(e)[-600:])
            continue
        if not cell.get("oracle_only"):
            cases.append((model(env, cell), obs(cell, r), describe(cell)))
        verdicts = judge(env, cell, r)
        ctx.hist(cell["kind"], r.get("res", "ok") if cell["kind"] == "identity" else cell.get("worker_class", "unix"))
        ig = bool(cell.get("ig"))
        nontrivial = cell["kind"] != "identity" or cell.get("user") is not None or cell.get("group") is not None or cell.get("level") == "direct"
        ctx.count_case(json.dumps(describe(cell), sort_keys=True), nontrivial)
        if ig:
            ctx.hist("initgroups", cell["kind"])
        for (what, key) in verdicts:
            fails.append((cell, r, what, key))
    return cases, fails


def report_fails(ctx, fails, limit=4):
    seen = set()
    n = 0
    for (cell, r, what, key) in fails:
        sig = (cell["kind"], key, what.split(":")[0][:40])
        if key is None:
            if sig in seen:
                continue
            seen.add(sig)
            if n >= limit:
                continue
            n += 1
        ctx.violation(what, {"kind": cell["kind"], "cell": describe(cell), "observed": r, "failure": what}, key=key)


def run(ctx):
    if os.geteuid() != 0:
        ctx.build()
        ctx.broken.append("the C20 check needs root (it observes real credential changes); running as uid %d" % os.geteuid())
        return
    ok = ctx.build()
    env = make_env()
    try:
        ctx.extra["fake_group_db_in_private_mount_namespace"] = bool(env["fake_text"])
        ctx.extra["system_users_with_supplementary_groups"] = sorted(n for n in env["db"][False].unames if env["db"][False].memberships(n))
        quick = ctx.quick()
        cells = corpus_cells()
        ctx.extra["corpus_cells"] = len(cells)
        cells += identity_cells(env, ctx.rng, 150 if quick else 6000)
        cells += worker_cells(env, L.WORKER_CLASSES, ctx.rng, 8 if quick else 400)
        cells += socket_cells(env, ctx.rng, 10 if quick else 300)
        t = time.time()
        cases, fails = run_cells(ctx, env, cells)
        ctx.log("%d real cells (identity/worker/socket) in %.1fs; oracle failures: %d" % (len(cells), time.time() - t, len(fails)))
        for c in cells[:3] + [c for c in cells if c["kind"] == "worker"][:2] + [c for c in cells if c["kind"] == "socket"][:1]:
            ctx.sample(describe(c))
        report_fails(ctx, fails)
        # level 4
        base = [QUICK_SCENARIO, QUICK_SCENARIO2, QUICK_SCENARIO3, QUICK_SCENARIO4, QUICK_SCENARIO5, KNOWN_SCENARIO_D31]
        scens = base if quick else base + thorough_scenarios(ctx.rng, env, 4)
        hist_cases = []
        for scen in scens:
            t = time.time()
            try:
                steps, sfails = run_server(env, scen, ctx.log)
            except Exception as e:
                import traceback
                ctx.broken.append("harness: the real-server scenario could not be run: %s" % traceback.format_exc()[-800:])
                ctx.log("SERVER SCENARIO FAILED TO RUN:", repr(e))
                continue
            ctx.log("real server %s/%s %r: %d snapshots in %.1fs; oracle failures: %d" % (
                scen["conf"]["worker_class"], [e[0] for e in scen["events"]], {k: scen["conf"].get(k) for k in ("user", "group", "ig")},
                len(steps), time.time() - t, len(sfails)))
            for (mevents, obs, desc) in steps:
                hist_cases.append((model_server(env, scen, mevents), obs, {"scenario": scen, "after": desc, "model_events": mevents}))
                ctx.count_case(json.dumps([scen, mevents], sort_keys=True, default=repr), True)
                ctx.hist("server_event", desc)
            seen = set()
            for (what, key) in sfails:
                if key is None and len(seen) >= 3:
                    continue
                seen.add(what)
                ctx.violation(what, {"kind": "server", "scenario": scen, "failure": what}, key=key)
        ctx.cov["rule"] = ("real processes observed on /proc/<pid>/status: (1) identity cells = master identity x user spelling x group "
                           "spelling x initgroups x master supplementary groups x group database (system / private-namespace copy "
                           "with extra memberships) through the real Config and util.set_owner_process [fixed matrix, masters that "
                           "are not plain root, seeded random]; (2) real worker objects of every installed worker class through "
                           "Worker.init_process with a recording application loader; (3) real UnixSocket bind + drop + connect per "
                           "umask; (4) a real server as root through worker kill / HUP (changed user) / USR2 / TTIN / TERM, one "
                           "snapshot per event, the identity configured in the file, on the command line or through GUNICORN_CMD_ARGS. non-trivial = anything but the all-defaults identity cell; distinct by cell description")
        # step 3: model vs implementation
        bad = ctx.correspond("cells", header(env), cases, shard=120)
        bad2 = ctx.correspond("server", header(env), hist_cases, shard=4) if hist_cases else []
        nbad = 0
        for lst, cs, what in ((bad, cases, "cells"), (bad2, hist_cases, "server snapshots")):
            if lst:
                nbad += len(lst)
                i, m, im = lst[0]
                ctx.broken.append("correspondence Model/Creds.v vs the real processes (%s): %d of %d differ; first: %r model=%r impl=%r"
                                  % (what, len(lst), len(cs), cs[i][2], m, im))
                ctx.log("CORRESPONDENCE (%s): %d differ, e.g. %r\n   model=%r\n   impl =%r" % (what, len(lst), cs[i][2], m, im))
        if (nbad or not ok or bad is None or bad2 is None) and not ctx.violations:
            search(ctx, env)
    finally:
        import shutil
        shutil.rmtree(env["sockdir"], ignore_errors=True)


def search(ctx, env):
    """Failing-input search (oracle only): every passwd user x a set of groups x initgroups, all worker classes
    with every configuration, more umasks, and two more server histories."""
    ctx.log("failing-input search (oracle only) ...")
    db = env["db"][False]
    cells = []
    fakes = [False, True] if env["fake_text"] else [False]
    for fake in fakes:
        for _, n in db.pw:
            for g in (None, ["str", "nogroup"], ["str", "adm"], ["str", n] if db.gid_of_name(n) is not None else ["int", 65534]):
                for ig in (False, True):
                    for mg in ([], [0, 6]):
                        cells.append({"kind": "identity", "level": "config", "fake": fake, "master": master(mg),
                                      "user": ["str", n], "group": g, "ig": ig})
    cells += worker_cells(env, L.WORKER_CLASSES, ctx.rng, 60)
    cells += socket_cells(env, ctx.rng, 60)
    _, fails = run_cells(ctx, env, cells)
    report_fails(ctx, fails)
    ctx.extra["search_cells"] = len(cells)
    if ctx.violations:
        return
    for scen in thorough_scenarios(ctx.rng, env)[:2]:
        try:
            _, sfails = run_server(env, scen, ctx.log)
        except Exception:
            continue
        for (what, key) in sfails[:3]:
            ctx.violation(what, {"kind": "server", "scenario": scen, "failure": what}, key=key)
        if ctx.violations:
            return


def replay(rep):
    env = make_env()
    try:
        if rep["kind"] == "server":
            steps, fails = run_server(env, rep["scenario"], print)
            for s in steps:
                print(s[2], "->", s[1])
            print("oracle failures:", fails)
            return 1 if fails else 0
        cell = rep["cell"]
        judge = RUNNERS[cell["kind"]][4]
        r = run_one(env, cell)
        verdicts = judge(env, cell, r)
        print("cell:", cell)
        print("observed:", r)
        print("oracle failures:", verdicts)
        return 1 if verdicts else 0
    finally:
        import shutil
        shutil.rmtree(env["sockdir"], ignore_errors=True)
