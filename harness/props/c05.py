"""C05 - hostile or broken input is contained: error reply, no app call, worker lives.

The real SyncWorker.handle, ThreadWorker (accept / on_client_socket_readable / handle / finish_request) and a
minimal AsyncWorker subclass serve one connection at a time on the SAME worker object:
  * scripted sockets (recv segments, recv faults, a fault per send-type operation) and real socketpairs /
    loopback TCP pairs whose client half-closes, closes or resets (SO_LINGER 0) before or while the
    application runs;
  * byte streams: the repository's own request fixtures, a hand corpus, every truncation offset of the hand
    corpus, mutated valid requests, random bytes; every exception class of the regenerated table raised
    by next(parser) and by the application at every phase;
Everything observable is recorded in order (lib_handle.World) and
  step 3: compared with Model/Handle.v `connection` evaluated by the Coq kernel on the recorded oracles;
  step 4: judged directly against the property (independent of the model), with a canary request on the same
          worker object afterwards.
"""
import os
import socket
from pathlib import Path

import vlib
import lib_handle as L

KINDS = ("sync", "gthread", "async")

VARIANTS = {
    "default": {},
    "noka": {"keepalive": 0},
    "nosendfile": {"sendfile": False},
    "proxy": {"extra": {"proxy_protocol": True, "proxy_allow_ips": "*"}},
    "proxydeny": {"extra": {"proxy_protocol": True}},
    "small": {"extra": {"limit_request_line": 64, "limit_request_fields": 3, "limit_request_field_size": 40}},
    "tight": {"worker_connections": 2, "threads": 2},
}

# ----------------------------------------------------------------------------------------------------
# byte streams
# ----------------------------------------------------------------------------------------------------
GET = b"GET /x?q=1 HTTP/1.1\r\nHost: a\r\n\r\n"
REQS = {
    "get11": GET,
    "get10": b"GET /y HTTP/1.0\r\n\r\n",
    "get10ka": b"GET /y HTTP/1.0\r\nConnection: keep-alive\r\n\r\n",
    "head": b"HEAD /h HTTP/1.1\r\nHost: a\r\n\r\n",
    "close": b"GET /c HTTP/1.1\r\nHost: a\r\nConnection: close\r\n\r\n",
    "postcl": b"POST /p HTTP/1.1\r\nHost: a\r\nContent-Length: 5\r\n\r\nhello",
    "postchunk": b"POST /p HTTP/1.1\r\nHost: a\r\nTransfer-Encoding: chunked\r\n\r\n3\r\nabc\r\n0\r\n\r\n",
    "expect": b"POST /e HTTP/1.1\r\nHost: a\r\nExpect: 100-continue\r\nContent-Length: 2\r\n\r\nhi",
    "auth": b"GET /a HTTP/1.1\r\nHost: a\r\nAuthorization: Basic dXNlcjpwdw==\r\nUser-Agent: t\r\nReferer: r\r\n\r\n",
}
BAD = {
    "badhdr": b"GET /x HTTP/1.1\r\nHost a\r\n\r\n",
    "badline": b"GET\r\n\r\n",
    "badmethod": b"G=T / HTTP/1.1\r\n\r\n",
    "badversion": b"GET / HTTP/9.9\r\n\r\n",
    "badcl": b"POST /p HTTP/1.1\r\nContent-Length: x\r\n\r\n",
    "dupcl": b"POST /p HTTP/1.1\r\nContent-Length: 1\r\nContent-Length: 2\r\n\r\nab",
    "clte": b"POST /p HTTP/1.1\r\nContent-Length: 1\r\nTransfer-Encoding: chunked\r\n\r\n0\r\n\r\n",
    "badte": b"POST /p HTTP/1.1\r\nTransfer-Encoding: gzip\r\n\r\n",
    "badchunk": b"POST /p HTTP/1.1\r\nHost: a\r\nTransfer-Encoding: chunked\r\n\r\nzz\r\nabc\r\n0\r\n\r\n",
    "shortbody": b"POST /p HTTP/1.1\r\nHost: a\r\nContent-Length: 50\r\n\r\nhello",
    "longline": b"GET /" + b"a" * 5000 + b" HTTP/1.1\r\n\r\n",
    "manyhdr": b"GET / HTTP/1.1\r\n" + b"".join(b"X-%d: v\r\n" % i for i in range(120)) + b"\r\n",
    "hibyte": b"GET / HTTP/1.1\r\nH\xe9\xff: x\r\n\r\n",
    "hibyteval": b"GET /\xe9 HTTP/1.1\r\nHost: \xe9\xfc\r\n\r\n",
    "nul": b"GET /\x00 HTTP/1.1\r\n\r\n",
    "obsfold": b"GET / HTTP/1.1\r\nA: b\r\n c\r\n\r\n",
    "underscore": b"GET / HTTP/1.1\r\nA_B: c\r\n\r\n",
    "proxyline": b"PROXY TCP4 1.2.3.4 5.6.7.8 1 2\r\nGET / HTTP/1.1\r\n\r\n",
    "badproxy": b"PROXY TCP9 x y 1 2\r\nGET / HTTP/1.1\r\n\r\n",
    "empty": b"",
    "crlfs": b"\r\n\r\n\r\n",
    "quote": b"GET /\"'<>& HTTP/1.1\r\nA\"'<&>: x\r\n\r\n",
    "scheme": b"GET / HTTP/1.1\r\nX-Forwarded-Proto: https\r\nX-Forwarded-Ssl: off\r\n\r\n",
}


def fixture_streams():
    out = []
    root = Path(vlib.REPO) / "tests" / "requests"
    for sub in ("valid", "invalid"):
        d = root / sub
        if not d.is_dir():
            continue
        for f in sorted(d.glob("*.http")):
            data = f.read_bytes()
            data = data.replace(b"\n", b"").replace(b"\\r\\n", b"\r\n")
            data = data.replace(b"\\0", b"\000").replace(b"\\n", b"\n").replace(b"\\t", b"\t")
            out.append((sub + "/" + f.name, data))
    return out


def mutate(rng, data):
    data = bytearray(data)
    for _ in range(rng.choice([1, 1, 1, 2, 3, 5])):
        op = rng.randrange(8)
        pos = rng.randrange(len(data) + 1)
        if op == 0 and data:
            data[min(pos, len(data) - 1)] = rng.randrange(256)
        elif op == 1:
            data[pos:pos] = bytes([rng.randrange(256)])
        elif op == 2 and data:
            del data[min(pos, len(data) - 1)]
        elif op == 3:
            data[pos:pos] = rng.choice([b"\r", b"\n", b"\r\n", b" ", b"\t", b":", b"\x00", b"\x7f", b"\x80", b"\xff", b",", b";", b"="])
        elif op == 4 and data:
            a = rng.randrange(len(data))
            b = min(len(data), a + rng.randrange(1, 12))
            data[pos:pos] = data[a:b]
        elif op == 5 and data:
            a = rng.randrange(len(data))
            del data[a:a + rng.randrange(1, 12)]
        elif op == 6:
            data = data[:pos]
        else:
            data[pos:pos] = rng.choice([b"Content-Length: 3\r\n", b"Transfer-Encoding: chunked\r\n", b"Connection: close\r\n",
                                        b"Expect: 100-continue\r\n", b"HTTP/1.1", b"0\r\n\r\n", b"PROXY TCP4 1.1.1.1 2.2.2.2 3 4\r\n"])
    return bytes(data)


def segment(rng, data):
    """random recv segmentation"""
    if not data:
        return []
    n = rng.choice([1, 1, 2, 3, 6])
    cuts = sorted(set(rng.randrange(1, len(data)) for _ in range(n - 1))) if len(data) > 1 else []
    out, prev = [], 0
    for c in cuts + [len(data)]:
        out.append(data[prev:c])
        prev = c
    return [s for s in out if s]


# ----------------------------------------------------------------------------------------------------
# application scripts
# ----------------------------------------------------------------------------------------------------
APP_RAISE_CLASSES = None


def raise_classes():
    global APP_RAISE_CLASSES
    if APP_RAISE_CLASSES is None:
        APP_RAISE_CLASSES = [c.__name__ for c in L.table_classes()]
    return APP_RAISE_CLASSES


def exc_spec_of(name, rng=None):
    text = "boom" if rng is None else rng.choice(["", "boom", "a<b>&\"'", "caf\xe9", "x" * 40, "€ uro", "l1\nl2"])
    has_req = (rng.random() < 0.3) if rng else False
    eof = (rng.random() < 0.5) if (rng and name == "SSLError") else False
    return (name, text, has_req, eof)


def gen_app(rng, allow_base=True):
    """a random application script (dict acts/file) and whether it is well behaved"""
    body = [bytes(rng.randrange(256) for _ in range(rng.choice([0, 1, 2, 5, 17]))) for _ in range(rng.choice([0, 1, 1, 2, 3]))]
    total = sum(len(b) for b in body)
    code = rng.choice([200, 200, 200, 201, 204, 304, 404, 500, 100, 199])
    mode = rng.random()
    clen = None
    if mode < 0.35:
        clen = total
    elif mode < 0.45:
        clen = max(0, total + rng.choice([-3, -1, 1, 4]))
    acts = []
    style = rng.randrange(9)
    file = None
    if style == 0:       # everything inside the call through write()
        acts = [("start", code, clen)] + [("write", b) for b in body]
    elif style == 1:     # start in the call, body from the iterable
        acts = [("start", code, clen), ("return",)] + [("write", b) for b in body]
    elif style == 2:     # lazy generator: start_response on first next()
        acts = [("return",), ("start", code, clen)] + [("write", b) for b in body]
    elif style == 3:     # file wrapper
        content = b"".join(body) + b"0123456789"
        off = rng.randrange(0, len(content) + 1)
        clen = rng.choice([None, None, len(content) - off, max(0, len(content) - off - 2), len(content) - off + 3])
        acts = [("start", code, clen)] + ([("write", content[:rng.randrange(0, 4)])] if rng.random() < 0.3 else []) + [("return",)]
        file = (content, off, rng.choice([1, 3, 8192]), rng.random() < 0.7)
    elif style == 4:     # raises somewhere
        names = raise_classes()
        if not allow_base:
            names = [n for n in names if n not in ("SystemExit", "KeyboardInterrupt", "BaseException")]
        e = ("raise", exc_spec_of(rng.choice(names), rng))
        acts = [("start", code, clen), ("return",)] + [("write", b) for b in body]
        acts.insert(rng.randrange(len(acts) + 1), e)
    elif style == 5:     # reads the body first (may raise what the body reader raises)
        acts = [("read",), ("start", code, clen), ("return",)] + [("write", b) for b in body]
    elif style == 6:     # never calls start_response / calls it twice
        if rng.random() < 0.5:
            acts = [("return",)] + [("write", b) for b in body]
        else:
            acts = [("start", code, clen), ("start", 200, None), ("return",)]
    elif style == 7:     # mixed: write() then iterable
        acts = [("start", code, clen)] + [("write", b) for b in body[:1]] + [("return",)] + [("write", b) for b in body[1:]]
    else:
        acts = [("start", 200, 2), ("return",), ("write", b"ok")]
    return {"acts": acts, "file": file}


OK_APP = {"acts": [("start", 200, 6), ("return",), ("write", b"canary")], "file": None}


# ----------------------------------------------------------------------------------------------------
# running one connection
# ----------------------------------------------------------------------------------------------------
class Runner:
    def __init__(self):
        self.worlds = {}

    def world(self, kind, variant):
        key = (kind, variant)
        if key not in self.worlds:
            kw = dict(VARIANTS[variant])
            w = L.World(kind, **kw)
            w.__enter__()
            self.worlds[key] = w
        return self.worlds[key]

    def drop(self, kind, variant):
        w = self.worlds.pop((kind, variant), None)
        if w is not None:
            w.__exit__(None, None, None)

    def close(self):
        for w in self.worlds.values():
            w.__exit__(None, None, None)
        self.worlds = {}
        L.remove_patches()


def run_conn(runner, spec):
    """Serve one connection described by `spec` on the shared worker; returns the record."""
    W = runner.world(spec["kind"], spec.get("variant", "default"))
    st0 = W.begin(apps=[dict(a) for a in spec.get("apps", [])], pscript=spec.get("pscript"))
    keep0 = len(getattr(W.w, "_keep", ()))
    mode = spec.get("mode", "script")
    client = None
    hooked = {"done": False}
    if mode == "script":
        sock = L.TSock(W.trace, segs=spec.get("segs", []), faults=spec.get("faults", []))
    else:
        s, client = L.unix_pair() if mode == "unix" else L.tcp_pair()
        data = b"".join(x for x in spec.get("segs", []) if isinstance(x, bytes))
        if data:
            client.sendall(data)
        hook = spec.get("hook")
        if hook is None:
            L.client_end(client, spec.get("end", "shut"))
        else:
            def fire():
                if not hooked["done"]:
                    hooked["done"] = True
                    L.client_end(client, hook[1])
            # the first application call performs the client's action at the chosen point
            for a in W.apps[:1]:
                acts = list(a["acts"])
                pos = 0 if hook[0] == "app" else min(len(acts), 2)
                acts.insert(pos, ("hook", fire))
                a["acts"] = acts
        sock = L.TSock(W.trace, faults=spec.get("faults", []), real=s)
        sock.setblocking(True)
    addr = spec.get("addr", ("10.0.0.1", 4321))
    if isinstance(addr, list):
        addr = tuple(addr)
    esc = W.serve(sock, addr)
    client_wire = None
    if client is not None:
        if spec.get("hook") is not None and not hooked["done"]:
            L.client_end(client, "shut")
        client_wire = L.drain_client(client)
        try:
            client.close()
        except OSError:
            pass
    rec = {
        "trace": W.trace, "escaped": esc, "closed": sock.closed, "wire": sock.wire, "client_wire": client_wire,
        "st0": st0, "st1": (W.w.nr, W.w.alive, getattr(W.w, "nr_conns", 0)), "keep0": keep0,
        "keep1": len(getattr(W.w, "_keep", ())), "n_app": W.app_calls, "eff_apps": W.eff_apps,
        "obs": L.impl_obs(W, esc), "expr": L.model_expr(W, st0, keep0),
        "registered": (len(W.w.poller.get_map()) if spec["kind"] == "gthread" else 0),
    }
    sock.dispose()
    if esc is not None and spec["kind"] == "gthread":
        # a leaked connection would poison the following cases: start from a fresh worker
        runner.drop(spec["kind"], spec.get("variant", "default"))
    return rec


# ----------------------------------------------------------------------------------------------------
# the property, judged on the real trace
# ----------------------------------------------------------------------------------------------------
BASE_ONLY = ("SystemExit", "KeyboardInterrupt", "BaseException")


def injected_classes(spec):
    out = []
    for o in (spec.get("pscript") or {}).values():
        if o[0] == "raise":
            out.append(o[1][0])
    for a in spec.get("apps", []):
        for act in a["acts"]:
            if act[0] == "raise":
                out.append(act[1][0])
    return out


def judge(spec, rec):
    """-> list of (key, text).  Independent of the Coq model."""
    fails = []
    kind = spec["kind"]
    inj = injected_classes(spec)
    tls = "SSLError" in inj
    base_in_app = any(a[0] == "raise" and a[1][0] in BASE_ONLY for ap in spec.get("apps", []) for a in ap["acts"])
    gthread_base = kind == "gthread" and any(c in BASE_ONLY for c in inj)
    trace = rec["trace"]
    # (1) nothing escapes
    spin = [e for e in rec["trace"] if e[0] == "stuck"]
    if spin:
        fails.append(("worker-spins", "the worker called %s %d times on a stream that had ended: on a real socket it spins for ever "
                      "(the connection is never closed, nobody else is served)" % (spin[0][1], spin[0][2])))
        return fails
    if rec["escaped"] is not None and not tls and not gthread_base:
        fails.append(("escape", "exception %s escaped handle()" % type(rec["escaped"]).__name__))
    # (2) the server closed the connection
    if rec["closed"] == 0 and not gthread_base:
        fails.append(("not-closed", "the client socket was never closed"))
    # (3) a rejected request is never dispatched, nothing is parsed after it
    rejected = False
    for e in trace:
        if e[0] in ("praise", "pnone"):
            if rejected:
                fails.append(("parse-after-reject", "next(parser) was called again after a rejection"))
            rejected = True
        elif e[0] == "head" and rejected:
            fails.append(("parse-after-reject", "a request was parsed after a rejection"))
        elif e[0] == "app" and rejected:
            fails.append(("dispatched-after-reject", "the application was entered after next(parser) raised"))
    heads = 0
    apps = 0
    for e in trace:
        if e[0] == "head":
            heads += 1
        elif e[0] == "app":
            apps += 1
            if apps > heads:
                fails.append(("dispatch-without-head", "application entered without an accepted request head"))
    # (4) the wire
    wire = rec["wire"]
    head_flags = [e[1]["head"] for e in trace if e[0] == "head" and e[1].get("create_exn") is None]
    resps, leftover, bad = L.split_wire(wire, head_flags)
    errs = [i for i, r in enumerate(resps) if L.is_error_page(r) and r["status"] != 100]
    if len(errs) > 1:
        fails.append(("two-error-pages", "more than one error response on the wire"))
    for i in errs:
        r = resps[i]
        if i != len(resps) - 1 or leftover:
            fails.append(("bytes-after-error-page", "something follows the error response"))
        if not (400 <= r["status"] <= 599):
            fails.append(("error-status", "error response has status %d" % r["status"]))
        if not L.says_close(r):
            fails.append(("error-no-close", "error response is not marked Connection: close"))
        if r["framing"] != "length" or not r["complete"]:
            fails.append(("error-framing", "error response is not framed by a consistent Content-Length"))
    if rec["n_app"] == 0:
        # pure hostile input: nothing, or exactly one well-formed error response (an interim 100 may precede)
        finals = [r for r in resps if r["status"] != 100]
        if leftover:
            fails.append(("garbage-on-wire", "unparseable bytes on the wire: %r (%s)" % (leftover[:60], bad["why"] if bad else "")))
        if len(finals) > 1 or (finals and not L.is_error_page(finals[0])):
            fails.append(("unexpected-response", "a response other than one error page was sent without any application call"))
    # the error page is never appended to a response whose head went out (unless application code raised
    # something that is not an Exception: outside the property)
    dirty = False
    for e in trace:
        if e[0] in ("head", "praise", "pnone"):
            dirty = False
        elif e[0] == "sendall" and e[2] == 0:
            if L.parse_head_send(e[1]) is not None:
                dirty = True
            else:
                r = L.read_response(e[1], 0, False)
                if r["ok"] and r["complete"] and r["status"] >= 400 and L.is_error_page(r) and dirty and not base_in_app and not tls:
                    fails.append(("error-after-head", "an error page was written after the response head of the same request"))
    # (5) the worker is as before, except the request counter
    st0, st1 = rec["st0"], rec["st1"]
    if st1[0] != st0[0] + rec["n_app"]:
        fails.append(("counter", "nr moved by %d for %d application calls" % (st1[0] - st0[0], rec["n_app"])))
    if spec.get("max_requests_unset", True) and st1[1] != st0[1]:
        fails.append(("alive", "worker.alive changed although max_requests is unset"))
    if kind == "gthread" and not gthread_base:
        if st1[2] != st0[2]:
            fails.append(("nr-conns", "nr_conns %d -> %d" % (st0[2], st1[2])))
        if rec["keep1"] != rec["keep0"] or rec["registered"] != 0:
            fails.append(("parked", "connection still parked / registered after it ended"))
    return fails


def canary(runner, kind, variant):
    spec = {"kind": kind, "variant": variant, "segs": [b"GET /canary HTTP/1.1\r\nHost: c\r\n\r\n"], "apps": [OK_APP]}
    if variant == "proxy":
        spec["segs"] = [b"PROXY TCP4 1.2.3.4 5.6.7.8 11 22\r\n" + spec["segs"][0]]
    rec = run_conn(runner, spec)
    fails = judge(spec, rec)
    resps, leftover, bad = L.split_wire(rec["wire"], [False])
    if not (len(resps) == 1 and resps[0]["status"] == 200 and resps[0]["body"] == b"canary" and not leftover and rec["n_app"] == 1):
        fails.append(("canary", "the canary request on the same worker was not served normally: %r" % rec["wire"][:120]))
    return spec, rec, fails


# ----------------------------------------------------------------------------------------------------
# (de)serialisation of specs for replay files
# ----------------------------------------------------------------------------------------------------
def enc(o):
    if isinstance(o, bytes):
        return {"b": o.decode("latin-1")}
    if isinstance(o, tuple):
        return {"t": [enc(x) for x in o]}
    if isinstance(o, list):
        return [enc(x) for x in o]
    if isinstance(o, dict):
        return {"d": [[enc(k), enc(v)] for k, v in o.items()]}
    return o


def dec(o):
    if isinstance(o, dict):
        if "b" in o:
            return o["b"].encode("latin-1")
        if "t" in o:
            return tuple(dec(x) for x in o["t"])
        if "d" in o:
            return {dec(k): dec(v) for k, v in o["d"]}
    if isinstance(o, list):
        return [dec(x) for x in o]
    return o


def printable(spec):
    s = dict(spec)
    s["segs"] = [x.decode("latin-1") if isinstance(x, bytes) else list(x) for x in spec.get("segs", [])]
    s["apps"] = len(spec.get("apps", []))
    s.pop("pscript", None)
    return s


# ----------------------------------------------------------------------------------------------------
# case generation
# ----------------------------------------------------------------------------------------------------
def corpus_specs():
    specs = []
    streams = list(REQS.items()) + list(BAD.items())
    for kind in KINDS:
        for name, data in streams:
            specs.append({"kind": kind, "segs": [data] if data else [], "apps": [OK_APP], "rule": "corpus"})
        # pipelining: a good request followed by each bad one
        for name, data in BAD.items():
            specs.append({"kind": kind, "segs": [GET + data], "apps": [OK_APP, OK_APP], "rule": "pipelined"})
        # unix-socket peers: addr is '' / None in handle_error
        for a in ("", None):
            specs.append({"kind": kind, "segs": [BAD["badhdr"]], "addr": a, "apps": [], "rule": "addr"})
            specs.append({"kind": kind, "segs": [BAD["badcl"]], "addr": a, "apps": [], "rule": "addr"})
            specs.append({"kind": kind, "segs": [GET], "addr": a, "apps": [{"acts": [("raise", exc_spec_of("Exception"))], "file": None}], "rule": "addr"})
        for variant in ("proxy", "proxydeny", "small", "noka", "tight"):
            for name in ("get11", "proxyline", "badproxy", "longline", "manyhdr", "badhdr", "postchunk"):
                data = dict(streams)[name]
                specs.append({"kind": kind, "variant": variant, "segs": [data + GET], "apps": [OK_APP, OK_APP], "rule": "variant"})
    for sub, data in fixture_streams():
        for kind in KINDS:
            specs.append({"kind": kind, "segs": [data], "apps": [OK_APP, OK_APP], "rule": "fixture"})
    return specs


def class_sweep_specs():
    """every class of the regenerated table, raised by next(parser) (first request / after a served one) and by
    the application at every phase"""
    specs = []
    for kind in KINDS:
        for name in raise_classes():
            variants = [(name, "boom", False, False), (name, "a<b>&\"'\xe9", True, False)]
            if name == "SSLError":
                variants.append((name, "eof", False, True))
            for sp in variants:
                specs.append({"kind": kind, "segs": [GET], "pscript": {0: ("raise", sp)}, "apps": [], "rule": "parser-raises"})
                specs.append({"kind": kind, "segs": [GET + GET], "pscript": {1: ("raise", sp)}, "apps": [OK_APP], "rule": "parser-raises-2nd"})
                for phase in range(5):
                    acts = [("start", 200, None), ("write", b"ab"), ("return",), ("write", b"cd")]
                    pos = {0: 0, 1: 1, 2: 2, 3: 3, 4: 4}[phase]
                    acts.insert(pos, ("raise", sp))
                    specs.append({"kind": kind, "segs": [GET + GET], "apps": [{"acts": acts, "file": None}, OK_APP], "rule": "app-raises"})
        specs.append({"kind": kind, "segs": [GET], "pscript": {0: ("none",)}, "apps": [], "rule": "parser-none"})
        specs.append({"kind": kind, "segs": [GET + GET], "pscript": {1: ("none",)}, "apps": [OK_APP], "rule": "parser-none"})
    specs.append({"kind": "async", "segs": [GET, ("timeout",)], "apps": [OK_APP], "rule": "ka-timeout"})
    specs.append({"kind": "async", "segs": [("timeout",)], "apps": [], "rule": "ka-timeout"})
    return specs


def truncation_specs(ctx, stride):
    specs = []
    streams = [REQS["get11"], REQS["postcl"], REQS["postchunk"], REQS["expect"], REQS["get11"] + REQS["close"],
               BAD["badhdr"], BAD["badchunk"], BAD["proxyline"]]
    k = 0
    for data in streams:
        for cut in range(0, len(data) + 1):
            k += 1
            kinds = KINDS if cut % stride == 0 else (KINDS[k % 3],)
            for kind in kinds:
                specs.append({"kind": kind, "segs": [data[:cut]] if cut else [], "apps": [{"acts": [("read",), ("start", 200, 2), ("return",), ("write", b"ok")], "file": None}] * 2,
                              "rule": "truncation"})
    return specs


def random_spec(rng, fixtures):
    kind = rng.choice(KINDS)
    variant = rng.choice(["default"] * 6 + ["noka", "nosendfile", "proxy", "proxydeny", "small", "tight"])
    x = rng.random()
    apps = [gen_app(rng, allow_base=(kind != "gthread" or rng.random() < 0.1)) for _ in range(3)]
    faults = []
    if rng.random() < 0.35:
        faults = [rng.choice([0, 0, 0, 1, 2, 3, 4]) for _ in range(rng.randrange(1, 8))]
    if x < 0.25:
        data = bytes(rng.randrange(256) for _ in range(rng.choice([1, 3, 10, 40, 200])))
        rule = "random-bytes"
    elif x < 0.65:
        base = rng.choice(list(REQS.values()) + list(BAD.values()) + [d for _, d in fixtures if len(d) < 600])
        data = mutate(rng, base)
        rule = "mutated"
    else:
        n = rng.choice([1, 1, 2, 3])
        data = b"".join(rng.choice(list(REQS.values())) for _ in range(n))
        if rng.random() < 0.3:
            data += rng.choice(list(BAD.values()))
        rule = "valid-pipeline"
    segs = segment(rng, data)
    if rng.random() < 0.15:
        segs.insert(rng.randrange(len(segs) + 1), ("err", rng.choice([1, 2, 3, 4])))
    if kind == "async" and variant not in ("noka",) and rng.random() < 0.05:
        segs.insert(rng.randrange(len(segs) + 1), ("timeout",))
    spec = {"kind": kind, "variant": variant, "segs": segs, "apps": apps, "faults": faults, "rule": rule}
    if rng.random() < 0.1:
        spec["addr"] = rng.choice(["", None])
    return spec


def real_socket_specs(rng, n):
    specs = []
    pool = list(REQS.values())
    for i in range(n):
        kind = KINDS[i % 3]
        mode = "unix" if (i // 3) % 2 == 0 else "tcp"
        data = rng.choice(pool + [GET + GET, REQS["postcl"] + REQS["get11"]])
        hookv = rng.choice([None, None, ("app", "close"), ("app", "rst"), ("mid", "close"), ("mid", "rst"), ("app", "shut")])
        spec = {"kind": kind, "mode": mode, "apps": [gen_app(rng, allow_base=False) if rng.random() < 0.5 else
                                                     {"acts": [("start", 200, None), ("write", b"a" * 10), ("return",), ("write", b"b" * 10)], "file": None}
                                                     for _ in range(3)], "rule": "real-" + mode}
        if hookv is None:
            cut = rng.choice([len(data)] * 3 + [rng.randrange(0, len(data) + 1)])
            spec["segs"] = [data[:cut]] if cut else []
            spec["end"] = rng.choice(["shut", "close", "rst"])
            spec["rule"] += "-" + spec["end"]
        else:
            spec["segs"] = [data]
            spec["hook"] = hookv
            spec["rule"] += "-hook-" + hookv[1]
        if mode == "unix":
            spec["addr"] = ""
        specs.append(spec)
    return specs


# ----------------------------------------------------------------------------------------------------
# the check
# ----------------------------------------------------------------------------------------------------
def report(ctx, spec, fails):
    key, text = fails[0]
    ctx.violation("%s [%s worker]: %s" % (key, spec["kind"], text),
                  {"kind": "connection", "spec": enc(spec), "failures": [list(f) for f in fails],
                   "readable": printable(spec)})


def shrink_spec(runner, spec, key):
    """shrink the byte stream of a scripted single-segment case while the same failure key persists"""
    if spec.get("mode", "script") != "script":
        return spec
    segs = spec.get("segs", [])
    if len(segs) != 1 or not isinstance(segs[0], bytes) or len(segs[0]) > 400:
        return spec

    def still(cand):
        s = dict(spec)
        s["segs"] = [bytes(cand)]
        try:
            return any(k == key for k, _ in judge(s, run_conn(runner, s)))
        except Exception:
            return False
    small = vlib.shrink_list(list(segs[0]), still, max_steps=200)
    s = dict(spec)
    s["segs"] = [bytes(small)]
    return s


def run_specs(ctx, runner, specs, cases, canary_every=60):
    nfail = 0
    for i, spec in enumerate(specs):
        try:
            rec = run_conn(runner, spec)
        except Exception as e:    # the harness itself could not drive this case
            import traceback
            ctx.broken.append("harness could not run a case (%r): %s" % (printable(spec), traceback.format_exc()[-800:]))
            runner.drop(spec["kind"], spec.get("variant", "default"))
            continue
        fails = judge(spec, rec)
        nontrivial = len(rec["trace"]) >= 3
        ctx.count_case((spec["kind"], spec.get("variant"), repr(spec.get("segs")), repr(spec.get("faults")), repr(spec.get("pscript")),
                        repr([a["acts"] for a in spec.get("apps", [])][:rec["n_app"]]), spec.get("mode"), spec.get("end"), repr(spec.get("hook"))),
                       nontrivial)
        ctx.hist("rule", spec.get("rule", "?"))
        ctx.hist("worker", spec["kind"])
        last = [e for e in rec["trace"] if e[0] in ("praise", "pnone")]
        ctx.hist("parser_outcome", "served" if not last else (L.cls_name(last[-1][1]) if last[-1][0] == "praise" else "timeout"))
        wire_kind = "nothing" if not rec["wire"] else ("error-page" if rec["n_app"] == 0 else "responses")
        ctx.hist("wire", wire_kind)
        if any(e[0] in ("sendall", "send100", "sendfile", "shutdown", "close") and e[2] for e in rec["trace"]):
            ctx.hist("faults", "socket fault hit")
        if i % 97 == 0:
            ctx.sample({"spec": printable(spec), "trace_kinds": [e[0] for e in rec["trace"]], "wire_head": rec["wire"][:60].decode("latin-1")})
        cases.append((rec["expr"], rec["obs"], enc(spec)))
        if fails:
            nfail += 1
            if len(ctx.violations) < 3:
                small = shrink_spec(runner, spec, fails[0][0])
                f2 = judge(small, run_conn(runner, small)) or fails
                report(ctx, small, f2)
        if (i + 1) % canary_every == 0:
            cs, crec, cf = canary(runner, spec["kind"], spec.get("variant", "default"))
            cases.append((crec["expr"], crec["obs"], enc(cs)))
            ctx.count_case(("canary", i), False)
            if cf:
                nfail += 1
                if len(ctx.violations) < 3:
                    ctx.violation("%s [%s worker] after hostile connection: %s" % (cf[0][0], spec["kind"], cf[0][1]),
                                  {"kind": "canary-after", "spec": enc(spec), "failures": [list(f) for f in cf], "readable": printable(spec)})
    return nfail



# ----------------------------------------------------------------------------------------------------
# a client that neither reads nor goes away (oracle only: blocking is not an event of Model/Handle.v)
# ----------------------------------------------------------------------------------------------------
class WorkerStuck(BaseException):
    """the worker called a send-type operation in BLOCKING mode on a socket whose peer does not read and whose buffer is full:
    on a real socket the call never returns"""


class SilentSock(L.TSock):
    """scripted client socket whose peer misbehaves once the server answers.  mode:
       'no-read'   the peer has stopped reading with the send buffer full: a send-type operation raises BlockingIOError(EAGAIN)
                   in non-blocking mode, socket.timeout under a timeout, and never returns in blocking mode
       'stays'     the peer takes the reply, then neither closes nor sends: a recv after the reply never returns in blocking mode
                   (socket.timeout under a timeout)
       'trickles'  the peer takes the reply, then sends one byte whenever the server reads again - for ever
    Before the server has answered anything, an exhausted script reads as end of stream (as with TSock)."""

    def __init__(self, trace, segs, mode="no-read"):
        L.TSock.__init__(self, trace, segs=segs)
        self.timeout = None
        self.mode = mode
        self.replied = False
        self.late_reads = 0

    def setblocking(self, b):
        self.blocking = bool(b)
        self.timeout = None if b else 0.0

    def settimeout(self, t):
        self.timeout = t
        self.blocking = t is None or t > 0

    def gettimeout(self):
        return self.timeout

    def _wait(self, kind, n):
        """a call that can only return when the peer does something it is not going to do"""
        import errno as _e
        import socket as _s
        if self.timeout is None:
            self.trace.append(("stuck", kind, n))
            raise WorkerStuck(kind)
        if self.timeout == 0.0:
            raise BlockingIOError(_e.EAGAIN, "Resource temporarily unavailable")
        raise _s.timeout("timed out")

    def _out(self, kind, data, do):
        self.replied = True
        if self.mode == "no-read":
            self.trace.append((kind, data, 4))
            self._wait(kind, len(data))
        return do()

    def sendall(self, data):
        return self._out("sendall", bytes(data), lambda: L.TSock.sendall(self, data))

    def send(self, data):
        return self._out("send100", bytes(data), lambda: L.TSock.send(self, data))

    def sendfile(self, file, offset=0, count=None):
        return self._out("sendfile", b"", lambda: L.TSock.sendfile(self, file, offset, count))

    def recv(self, n):
        if self.segs or not self.replied or self.mode == "no-read":
            return L.TSock.recv(self, n)
        self.late_reads += 1
        if self.mode == "trickles":
            if self.late_reads > 40:
                # the server has read 40 times since its reply and shows no sign of stopping: the peer decides
                self.trace.append(("stuck", "recv (the peer sends a byte whenever the server reads)", self.late_reads))
                raise WorkerStuck("recv")
            return b"x"
        self._wait("recv", 0)


def silent_client_cases(ctx, runner):
    """every rejected stream of the corpus, every worker wrapper, a peer that misbehaves from the moment the server answers (does
    not read / stays without a word / trickles bytes): the error reply is best effort, the connection is closed, the worker must
    not wait for this client"""
    nfail = 0
    streams = [(k, v) for k, v in sorted(BAD.items()) if v] + [("pipelined-bad", GET + BAD["badhdr"])]
    for kind in KINDS:
        for variant in ("default", "noka"):
            for mode in ("no-read", "stays", "trickles"):
                for name, data in streams:
                    W = runner.world(kind, variant)
                    W.begin(apps=[dict(OK_APP), dict(OK_APP)])
                    sock = SilentSock(W.trace, [data], mode)
                    esc = W.serve(sock, ("10.0.0.1", 4321))
                    stuck = [e for e in W.trace if e[0] == "stuck"]
                    rejected = any(e[0] == "praise" for e in W.trace)
                    ctx.count_case(("silent", kind, variant, mode, name), True)
                    ctx.hist("silent_client", "%s / %s" % (mode, "rejected" if rejected else "served or incomplete"))
                    sock.dispose()
                    runner.drop(kind, variant)          # (a response cut by the peer may leave the wrapper mid-state)
                    # only the reply to a REJECTED request is judged: a sync worker writing an application's response to a client
                    # that does not read waits for it by design
                    if stuck and rejected and W.app_calls == 0:
                        nfail += 1
                        if len(ctx.violations) < 3:
                            ctx.violation("worker-stuck [%s worker, %s]: answering the rejected request %r to a peer that %s, it called %s in blocking mode "
                                          "without a timeout / kept reading for as long as the peer wished: the worker serves nobody else (and is "
                                          "killed by the arbiter's timeout)"
                                          % (kind, variant, name, {"no-read": "does not read", "stays": "stays connected without a word",
                                                                   "trickles": "sends a byte whenever the server reads"}[mode], stuck[0][1]),
                                          {"kind": "silent-client", "worker": kind, "variant": variant, "mode": mode,
                                           "stream": data.decode("latin-1"), "name": name, "failures": [["worker-stuck", stuck[0][1]]]})
    return nfail


def run(ctx):
    ok = ctx.build()
    L.table_classes()
    quick = ctx.quick()
    rng = ctx.rng
    fixtures = fixture_streams()
    specs = corpus_specs() + class_sweep_specs() + truncation_specs(ctx, 3 if quick else 1)
    n_random = 6500 if quick else 80000
    n_real = 600 if quick else 8000
    specs += [random_spec(rng, fixtures) for _ in range(n_random)]
    specs += real_socket_specs(rng, n_real)
    runner = Runner()
    cases = []
    try:
        nfail = run_specs(ctx, runner, specs, cases)
        # final canaries on every worker object that served hostile input
        for (kind, variant) in list(runner.worlds.keys()):
            cs, crec, cf = canary(runner, kind, variant)
            cases.append((crec["expr"], crec["obs"], enc(cs)))
            if cf:
                nfail += 1
                ctx.violation("%s [%s worker, %s]: %s" % (cf[0][0], kind, variant, cf[0][1]),
                              {"kind": "canary", "spec": enc(cs), "failures": [list(f) for f in cf]})
        nfail += silent_client_cases(ctx, runner)
    finally:
        runner.close()
    import lib_battery
    lib_battery.report(ctx, "hostile", "battery")
    ctx.cov["rule"] = ("one connection per case on a shared worker object (sync / gthread / async wrapper; cfg variants default, "
                       "keepalive off, sendfile off, proxy_protocol, small limits, worker_connections == threads): repository fixtures, "
                       "hand corpus + pipelined bad requests, every truncation offset of 8 streams, every class of the regenerated "
                       "exception table raised by next(parser) and by the application at 5 phases, then seeded random: random bytes, "
                       "mutated requests, valid pipelines with random application scripts (write/iterable/file wrapper/raise), random "
                       "recv segmentation, recv faults and a fault per send-type socket operation; real socketpair / loopback TCP "
                       "clients that half-close, close or reset before or during the application; non-trivial = trace of >= 3 "
                       "events; distinct by the whole case description")
    ctx.log("served %d connections on the real workers; oracle failures: %d" % (len(specs), nfail))
    bad = ctx.correspond("conn", L.HEADER, cases, shard=350)
    if bad:
        i, m, im = bad[0]
        ctx.broken.append("correspondence Model/Handle.v vs workers: %d of %d connections differ; first: %r model=%r impl=%r"
                          % (len(bad), len(cases), dec(cases[i][2]) if not isinstance(cases[i][2], str) else cases[i][2], m[:80], im[:80]))
        ctx.log("CORRESPONDENCE: %d connections differ, e.g. %r" % (len(bad), printable(dec(cases[i][2]))))
        ctx.log("   model %r" % (m[:120],))
        ctx.log("   impl  %r" % (im[:120],))
        ctx.extra["correspondence_disagreements"] = len(bad)
    if (bad or not ok or bad is None) and not ctx.violations:
        search(ctx, [dec(cases[i][2]) for i, _, _ in (bad or [])[:40]], fixtures)


def search(ctx, seeds, fixtures):
    """failing-input search: the oracle alone over a larger space, seeded with the disagreeing cases"""
    ctx.log("failing-input search (oracle only) ...")
    runner = Runner()
    tried = 0
    try:
        pool = []
        for s in seeds:
            for kind in KINDS:
                s2 = dict(s)
                s2["kind"] = kind
                pool.append(s2)
        pool += corpus_specs() + class_sweep_specs()
        pool += [random_spec(ctx.rng, fixtures) for _ in range(6000)]
        for spec in pool:
            tried += 1
            try:
                rec = run_conn(runner, spec)
            except Exception:
                runner.drop(spec["kind"], spec.get("variant", "default"))
                continue
            fails = judge(spec, rec)
            if not fails and tried % 40 == 0:
                _, _, fails = canary(runner, spec["kind"], spec.get("variant", "default"))
            if fails:
                small = shrink_spec(runner, spec, fails[0][0])
                report(ctx, small, judge(small, run_conn(runner, small)) or fails)
                return
    finally:
        runner.close()
        ctx.extra["search_connections"] = tried


def replay(rep):
    if rep.get("kind") == "battery":
        import lib_battery
        return lib_battery.replay(rep)
    if rep.get("kind") == "silent-client":
        runner = Runner()
        try:
            W = runner.world(rep["worker"], rep.get("variant", "default"))
            W.begin(apps=[dict(OK_APP), dict(OK_APP)])
            sock = SilentSock(W.trace, [rep["stream"].encode("latin-1")], rep.get("mode", "no-read"))
            esc = W.serve(sock, ("10.0.0.1", 4321))
            for e in W.trace:
                print(e if len(repr(e)) < 300 else repr(e)[:300] + "...")
            print("escaped:", repr(esc))
            return 1 if any(e[0] == "stuck" for e in W.trace) and W.app_calls == 0 else 0
        finally:
            runner.close()
    spec = dec(rep["spec"])
    runner = Runner()
    try:
        if rep.get("kind") == "canary-after":
            run_conn(runner, spec)
            cs, rec, fails = canary(runner, spec["kind"], spec.get("variant", "default"))
        else:
            rec = run_conn(runner, spec)
            fails = judge(spec, rec)
            if not fails:
                _, _, fails = canary(runner, spec["kind"], spec.get("variant", "default"))
        for e in rec["trace"]:
            print(e if len(repr(e)) < 300 else repr(e)[:300] + "...")
        print("wire:", rec["wire"][:400])
        print("failures:", fails)
        return 1 if fails else 0
    finally:
        runner.close()
