"""Parser family (C01, C06, C07, C12): driver of the real gunicorn.http.RequestParser, the matching
Coq expressions for Model/Parser.v, and the stream / segmentation / program generators."""
import io
import socket

import vlib

ERR_CODES = {
    "StopIteration": 0, "NoMoreData": 1, "InvalidRequestLine": 2, "InvalidRequestMethod": 3,
    "InvalidHTTPVersion": 4, "InvalidHeader": 5, "InvalidHeaderName": 6, "ObsoleteFolding": 7,
    "UnsupportedTransferCoding": 8, "InvalidSchemeHeaders": 9, "LimitRequestLine": 10,
    "LimitRequestHeaders": 11, "InvalidProxyLine": 12, "ForbiddenProxyRequest": 13,
    "InvalidChunkSize": 14, "ChunkMissingTerminator": 15,
}
CODE_NAMES = {v: k for k, v in ERR_CODES.items()}


def err_code(exc):
    return ERR_CODES.get(type(exc).__name__, 98)


# ---------------------------------------------------------------------------------------------
# configuration: one spec dict -> real gunicorn Config + Coq cfg literal
# ---------------------------------------------------------------------------------------------
DEFAULT_SPEC = {
    "limit_request_line": 4094, "limit_request_fields": 100, "limit_request_field_size": 8190,
    "permit_unconventional_http_method": False, "permit_unconventional_http_version": False,
    "casefold_http_method": False, "strip_header_spaces": False, "permit_obsolete_folding": False,
    "header_map": "drop", "proxy_protocol": False,
    "forwarded_allow_ips": ["127.0.0.1", "::1"], "proxy_allow_ips": ["127.0.0.1", "::1"],
    "secure_scheme_headers": {"X-FORWARDED-PROTOCOL": "ssl", "X-FORWARDED-PROTO": "https", "X-FORWARDED-SSL": "on"},
    "forwarder_headers": ["SCRIPT_NAME", "PATH_INFO"],
}
DEFAULT_PEER = ("127.0.0.1", 5555)


def make_spec(**kw):
    s = dict(DEFAULT_SPEC)
    s.update(kw)
    return s


def real_cfg(spec):
    from gunicorn.config import Config
    cfg = Config()
    salt = repr(sorted((k, repr(v)) for k, v in spec.items()))
    for k, v in spec.items():
        if k in ("forwarded_allow_ips", "proxy_allow_ips", "forwarder_headers"):
            cfg.set(k, ",".join(v))
        else:
            cfg.set(k, vlib.respell_setting(k, v, salt))
    return cfg


def trusted(allow, peer):
    return ("*" in allow) or (not isinstance(peer, tuple)) or (peer[0] in allow)


def coq_cfg(spec, peer):
    hm = {"drop": 0, "refuse": 1, "dangerous": 2}[spec["header_map"]]
    ssh = "[" + "; ".join("(%s, %s)" % (vlib.coq_bytes(k.upper()), vlib.coq_bytes(v)) for k, v in spec["secure_scheme_headers"].items()) + "]"
    fwd = "[" + "; ".join(vlib.coq_bytes(h.upper()) for h in spec["forwarder_headers"]) + "]"
    return ("{| limit_request_line := %s; limit_request_fields := %s; limit_request_field_size := %s; "
            "permit_unconventional_http_method := %s; permit_unconventional_http_version := %s; "
            "casefold_http_method := %s; strip_header_spaces := %s; permit_obsolete_folding := %s; "
            "header_map := %d%%N; proxy_protocol := %s; fwd_trusted := %s; proxy_trusted := %s; "
            "secure_scheme_headers := %s%%N; forwarder_headers := %s%%N; is_ssl := false |}") % (
        vlib.coq_Z(spec["limit_request_line"]), vlib.coq_Z(spec["limit_request_fields"]), vlib.coq_Z(spec["limit_request_field_size"]),
        vlib.coq_bool(spec["permit_unconventional_http_method"]), vlib.coq_bool(spec["permit_unconventional_http_version"]),
        vlib.coq_bool(spec["casefold_http_method"]), vlib.coq_bool(spec["strip_header_spaces"]), vlib.coq_bool(spec["permit_obsolete_folding"]),
        hm, vlib.coq_bool(spec["proxy_protocol"]),
        vlib.coq_bool(trusted(spec["forwarded_allow_ips"], peer)), vlib.coq_bool(trusted(spec["proxy_allow_ips"], peer)),
        ssh, fwd)


# ---------------------------------------------------------------------------------------------
# the real parser
# ---------------------------------------------------------------------------------------------
class SpinningReader(Exception):
    """the code under test reads an ended source over and over (it would spin for ever)"""


class CountingIter:
    def __init__(self, chunks):
        self.chunks = list(chunks)
        self.i = 0

    def __iter__(self):
        return self

    def __next__(self):
        if self.i >= len(self.chunks):
            raise StopIteration
        c = self.chunks[self.i]
        self.i += 1
        return c

    def remaining(self):
        return sum(len(c) for c in self.chunks[self.i:])


class CountingSock:
    """The same reads offered through the socket interface only (recv; deliberately not iterable), so that the parser has to
    build a SocketUnreader: recv(n) returns the next chunk (all chunks are at most 8192 bytes = max_chunk; a larger n never
    merges two chunks, as a socket may always return less than asked)."""

    def __init__(self, chunks):
        self.chunks = list(chunks)
        self.i = 0

    def recv(self, n):
        if self.i >= len(self.chunks):
            return b""
        c = self.chunks[self.i]
        if len(c) > n:                     # never with the chunk sizes generated here; kept for safety
            self.chunks[self.i] = c[n:]
            return c[:n]
        self.i += 1
        return c

    def remaining(self):
        return sum(len(c) for c in self.chunks[self.i:])


class RecordingBody:
    """Stands in for req.body while Parser.__next__ drains it: records when the drain completed and
    what was left in the unreader at that moment."""

    def __init__(self, body, req, parser, it):
        self._b, self._req, self._parser, self._it = body, req, parser, it
        self.drained = None

    def read(self, size=None):
        d = self._b.read(size)
        if not d:
            un = self._parser.unreader
            self.drained = (list(self._req.trailers), len(un.buf.getvalue()) + self._it.remaining())
        return d

    def __getattr__(self, n):
        return getattr(self._b, n)


class ExtRecorder:
    """Records the verdicts of the two external functions the model takes as parameters."""

    def __init__(self):
        self.bad_uris = []
        self.inet_ok = {False: [], True: []}

    def __enter__(self):
        import gunicorn.http.message as m
        self.m = m
        self.orig_split = m.split_request_uri
        self.orig_pton = socket.inet_pton
        rec = self

        def split(uri):
            try:
                return rec.orig_split(uri)
            except ValueError:
                b = uri.encode("latin-1")
                if b not in rec.bad_uris:
                    rec.bad_uris.append(b)
                raise

        def pton(fam, addr):
            r = rec.orig_pton(fam, addr)          # raises OSError when invalid
            try:
                b = addr.encode("latin-1")
            except Exception:
                return r
            v6 = fam == socket.AF_INET6
            if b not in rec.inet_ok[v6]:
                rec.inet_ok[v6].append(b)
            return r
        m.split_request_uri = split
        socket.inet_pton = pton
        return self

    def __exit__(self, *a):
        self.m.split_request_uri = self.orig_split
        socket.inet_pton = self.orig_pton

    def coq(self):
        bad = "[" + "; ".join(vlib.coq_bytes(b) for b in self.bad_uris) + "]"
        ok4 = "[" + "; ".join(vlib.coq_bytes(b) for b in self.inet_ok[False]) + "]"
        ok6 = "[" + "; ".join(vlib.coq_bytes(b) for b in self.inet_ok[True]) + "]"
        return ("{| uri_ok := fun u => negb (bmem u %s%%N); inet_ok := fun v6 a => bmem a (if v6 then %s%%N else %s%%N) |}"
                % (bad, ok6, ok4))


def enc_headers(hs):
    return vlib.enc_list(lambda h: vlib.enc_bytes(h[0]) + vlib.enc_bytes(h[1]), hs)


def enc_request(req):
    o = [100] + vlib.enc_bytes(req.method) + vlib.enc_bytes(req.uri) + [req.version[0], req.version[1]]
    o += enc_headers(req.headers)
    o += vlib.enc_bool(req.scheme == "https")
    info = req.proxy_protocol_info
    if info:
        o += [1] + vlib.enc_bytes(info["proxy_protocol"]) + vlib.enc_bytes(info["client_addr"]) + [info["client_port"]] \
            + vlib.enc_bytes(info["proxy_addr"]) + [info["proxy_port"]]
    else:
        o += [0]
    o += vlib.enc_bool(req.should_close())
    return o


def do_call(body, call):
    kind, size = call
    if kind == "read":
        return [1] + vlib.enc_bytes(body.read(size))
    if kind == "readline":
        return [1] + vlib.enc_bytes(body.readline(size))
    if kind == "readlines":
        return [2] + vlib.enc_list(vlib.enc_bytes, body.readlines())
    if kind in ("next", "iternext"):
        # "iternext": through iter(wsgi.input), the way a `for` loop does it (one iterator object per body, obtained at the first
        # such call) - a file object is its own iterator, so both spellings are the same call of the model
        src = body
        if kind == "iternext":
            src = getattr(body, "_gv_iter", None)
            if src is None:
                src = iter(body)
                try:
                    body._gv_iter = src
                except AttributeError:
                    pass
        try:
            return [1] + vlib.enc_bytes(next(src))
        except StopIteration:
            return [3]
    raise ValueError(kind)


def run_impl(spec, chunks, progs, peer=DEFAULT_PEER, structured=None, sock=False):
    """Iterate the real RequestParser over `chunks`, running progs[k] on the k-th request's body.
    Returns (observation int list, ExtRecorder).  `structured` (a list) receives per-request dicts
    for the property oracles."""
    from gunicorn.http import RequestParser
    cfg = real_cfg(spec)
    it = CountingSock(chunks) if sock else CountingIter(chunks)
    out = []
    with ExtRecorder() as rec:
        parser = RequestParser(cfg, it, peer)
        # a reader that asks an ended source again and again will never get anything else: stop it (the property checks run
        # in-process; without this a loop that does not test for end of stream would only be ended by the watchdog)
        _chunk = parser.unreader.chunk
        _empty = [0]

        def chunk_guard():
            d = _chunk()
            if d:
                _empty[0] = 0
            else:
                _empty[0] += 1
                if _empty[0] > 5000:
                    raise SpinningReader("the parser read its ended source %d times in a row" % _empty[0])
            return d
        parser.unreader.chunk = chunk_guard
        k = 0
        prev = None          # (req, RecordingBody)
        while True:
            try:
                req = next(parser)
            except BaseException as e:       # StopIteration or a parse error
                if prev is not None:
                    preq, rb = prev
                    if isinstance(e, StopIteration) and rb.drained is None and preq.should_close():
                        out += enc_headers(preq.trailers) + [201]
                        if structured is not None:
                            structured.append({"end": "close"})
                        break
                    if rb.drained is None:
                        out += [200, err_code(e)]      # raised while draining the previous body
                        if structured is not None:
                            structured.append({"end": "error", "error": type(e).__name__, "phase": "drain"})
                        break
                    out += enc_headers(rb.drained[0]) + [rb.drained[1]]
                    if structured is not None:
                        structured[-1]["trailers"] = list(rb.drained[0])
                        structured[-1]["drained_left"] = rb.drained[1]
                out += [200, err_code(e)]
                if structured is not None:
                    structured.append({"end": "error" if not isinstance(e, StopIteration) else "eof",
                                       "error": type(e).__name__, "phase": "head"})
                break
            if prev is not None:
                preq, rb = prev
                if rb.drained is None:
                    # the parser went on to the next request without reading the previous body to its end
                    out += [-7]
                    if structured is not None:
                        structured[-1]["not_drained"] = True
                else:
                    out += enc_headers(rb.drained[0]) + [rb.drained[1]]
                    if structured is not None:
                        structured[-1]["trailers"] = list(rb.drained[0])
                        structured[-1]["drained_left"] = rb.drained[1]
            out += enc_request(req)
            rec_req = {"method": req.method, "uri": req.uri, "version": req.version, "headers": list(req.headers),
                       "calls": [], "should_close": None}
            if structured is not None:
                structured.append(rec_req)
            prog = progs[k] if k < len(progs) else []
            failed = None
            for call in prog:
                try:
                    r = do_call(req.body, call)
                    out += r
                    rec_req["calls"].append((call, r))
                except Exception as e:
                    out += [4, err_code(e)]
                    failed = e
                    rec_req["calls"].append((call, ("exc", type(e).__name__)))
                    break
            if failed is not None:
                out += [200, err_code(failed)]
                if structured is not None:
                    structured.append({"end": "error", "error": type(failed).__name__, "phase": "body"})
                break
            rec_req["should_close"] = req.should_close()
            if rec_req["should_close"]:
                # the connection ends here: read the rest of the body like an application would,
                # so that a malformed rest / the trailers are observed
                try:
                    while req.body.read(8192):
                        pass
                except Exception as e:
                    out += [200, err_code(e)]
                    if structured is not None:
                        structured.append({"end": "error", "error": type(e).__name__, "phase": "drain"})
                    break
                rec_req["drained_left"] = len(parser.unreader.buf.getvalue()) + it.remaining()
                rec_req["trailers"] = list(req.trailers)
            rb = RecordingBody(req.body, req, parser, it)
            req.body = rb
            prev = (req, rb)
            k += 1
    return out, rec


def coq_call(call):
    kind, size = call
    sz = "None" if size is None else "(Some %s)" % vlib.coq_Z(size)
    return {"read": "Read " + sz, "readline": "Readline " + sz, "readlines": "Readlines", "next": "Next", "iternext": "Next"}[kind]


def coq_progs(progs):
    return "[" + "; ".join("[" + "; ".join(coq_call(c) for c in p) + "]" for p in progs) + "]"


def coq_chunks(chunks):
    return "[" + "; ".join(vlib.coq_bytes(c) for c in chunks) + "]%N"


HEADER = """From Coq Require Import List NArith ZArith Bool.
From GV Require Import Base.Bytes Base.Scan Base.PyStr Model.Parser.
Import ListNotations.
Open Scope Z_scope.
"""


def model_expr(spec, chunks, progs, rec, peer=DEFAULT_PEER):
    return "run %s %s %s %s" % (coq_cfg(spec, peer), rec.coq(), coq_progs(progs), coq_chunks(chunks))


# ---------------------------------------------------------------------------------------------
# generators
# ---------------------------------------------------------------------------------------------
METHODS = [b"GET", b"POST", b"PUT", b"DELETE", b"OPTIONS", b"HEAD", b"X-CUSTOM1"]
TARGETS = [b"/", b"/a/b?c=1", b"/x%41y", b"*", b"http://h.example/p?q", b"//dbl/p", b"/\xe9t\xe9", b"/a;b=c#frag", b"/?", b"/a%", b"http://[::1]:80/x"]
HDR_NAMES = [b"Host", b"X-A", b"Accept", b"User-Agent", b"X-Forwarded-Proto", b"x_under", b"Connection", b"Cookie", b"X-B"]
HDR_VALUES = [b"h.example", b"1", b"a, b", b"", b"  padded\t", b"https", b"close", b"keep-alive", b"foo, close", b"\xe9\xff", b"a\tb", b"x" * 30]


def gen_chunked_body(rng, body):
    """Encode `body` with a random chunk layout, extensions and optional trailers."""
    out = b""
    i = 0
    while i < len(body):
        n = rng.choice([1, 2, 3, 5, 16, 17, 255, 256, 1024, 2000])
        n = min(n, len(body) - i)
        sz = ("%x" if rng.random() < 0.5 else "%X") % n
        if rng.random() < 0.2:
            sz = "0" * rng.randint(1, 3) + sz
        ext = b""
        if rng.random() < 0.25:
            ext = rng.choice([b";a=b", b" ;x", b"\t; y=\"q\"", b";", b";a;b"])
        out += sz.encode() + ext + b"\r\n" + body[i:i + n] + b"\r\n"
        i += n
    last = rng.choice([b"0", b"00", b"0;x=y"])
    out += last + b"\r\n"
    if rng.random() < 0.3:
        for _ in range(rng.randint(1, 2)):
            out += rng.choice([b"X-T: 1", b"Trailer-A: b c", b"Y:z"]) + b"\r\n"
    out += b"\r\n"
    return out


def gen_body(rng):
    kind = rng.random()
    if kind < 0.25:
        return b""
    n = rng.choice([1, 2, 5, 10, 60, 200, 1023, 1024, 1025, 2050, 3000]) if kind < 0.9 else rng.randint(0, 300)
    alphabet = rng.choice([b"ab\n", b"x", b"abc\r\n", bytes(range(256))])
    return bytes(rng.choice(alphabet) for _ in range(n))


def gen_request(rng, spec, last=False):
    """A mostly-valid request.  Returns (bytes, info)."""
    method = rng.choice(METHODS)
    target = rng.choice(TARGETS)
    version = rng.choice([b"HTTP/1.1"] * 6 + [b"HTTP/1.0"])
    hs = []
    for _ in range(rng.randint(0, 4)):
        n = rng.choice(HDR_NAMES)
        v = rng.choice(HDR_VALUES)
        sep = rng.choice([b": ", b":", b":  ", b":\t"])
        hs.append(n + sep + v)
    body = gen_body(rng)
    framing = rng.choice(["cl", "cl", "chunked", "chunked", "none"])
    if version == b"HTTP/1.0" and framing == "chunked":
        framing = "cl"
    enc = b""
    if framing == "cl":
        hs.insert(rng.randint(0, len(hs)), rng.choice([b"Content-Length: ", b"content-length:", b"CONTENT-LENGTH:  "]) + str(len(body)).encode())
        enc = body
    elif framing == "chunked":
        te = rng.choice([b"chunked", b"Chunked", b"gzip, chunked", b" chunked ", b"identity,chunked"])
        hs.insert(rng.randint(0, len(hs)), rng.choice([b"Transfer-Encoding: ", b"transfer-encoding:"]) + te)
        enc = gen_chunked_body(rng, body)
    else:
        body = b""
    if version == b"HTTP/1.0" and not last and rng.random() < 0.7:
        hs.append(b"Connection: keep-alive")
    head = method + b" " + target + b" " + version + b"\r\n" + b"".join(h + b"\r\n" for h in hs) + b"\r\n"
    pre = b"\r\n" if False else b""
    return pre + head + enc, {"body": body, "framing": framing, "head_len": len(head), "enc_len": len(enc)}


MUTATION_TOKENS = [b"\r", b"\n", b"\r\n", b" ", b"\t", b":", b";", b",", b"\x00", b"\x0b", b"\xa0", b"0", b"chunked", b"Content-Length: 3\r\n",
                   b"Transfer-Encoding: chunked\r\n", b"_", b"\x85", b"+", b"-", b"1", b"g", b"\x7f", b"\xff"]


BOUNDARY_TOKENS = [b"\r\n", b"\r\n", b"\r\n\r\n", b"\n", b"\r", b" ", b"\r\n ", b"\t\r\n", b"\n\r\n", b"\x00", b"0\r\n\r\n", b"\r\n\r\n\r\n"]


def mutate(rng, s):
    if not s:
        return s
    k = rng.random()
    i = rng.randrange(len(s))
    if k < 0.35:
        return s[:i] + rng.choice(MUTATION_TOKENS) + s[i:]
    if k < 0.6:
        return s[:i] + rng.choice(MUTATION_TOKENS) + s[i + 1:]
    if k < 0.8:
        j = min(len(s), i + rng.choice([1, 1, 2, 4, 10]))
        return s[:i] + s[j:]
    if k < 0.9:
        return s[:i]                                   # truncation
    return s[:i] + bytes([rng.randrange(256)]) + s[i + 1:]


def gen_stream(rng, spec, nmax=3, mutate_p=0.35):
    n = rng.randint(1, nmax)
    parts, infos = [], []
    for i in range(n):
        b, info = gen_request(rng, spec, last=(i == n - 1))
        parts.append(b)
        infos.append(info)
    mutated = False
    if rng.random() < 0.12:
        # structure-aware: something where a request line is expected - before the first request or right after a body
        # (RFC 9112 2.2 allows a server to skip an empty line there; whatever gunicorn does must not depend on the reads)
        k = rng.randrange(len(parts))
        parts[k] = rng.choice(BOUNDARY_TOKENS) + parts[k]
        mutated = True
    s = b"".join(parts)
    if rng.random() < mutate_p:
        for _ in range(rng.choice([1, 1, 1, 2, 3])):
            s = mutate(rng, s)
        mutated = True
    if spec.get("proxy_protocol") and rng.random() < 0.6:
        s = rng.choice([b"PROXY TCP4 192.168.0.1 192.168.0.11 56324 443\r\n", b"PROXY TCP6 ::1 ::2 1 2\r\n",
                        b"PROXY TCP4 1.2.3.4 5.6.7.8 70000 1\r\n", b"PROXY UNKNOWN\r\n", b"PROXY TCP4 300.1.1.1 1.1.1.1 1 1\r\n"]) + s
    return s, infos, mutated


def segmentations(rng, s, kinds):
    """Yield (name, chunks) - all chunks non-empty, at most 8192 bytes."""
    def cap(chs):
        out = []
        for c in chs:
            while len(c) > 8192:
                out.append(c[:8192])
                c = c[8192:]
            if c:
                out.append(c)
        return out
    for kind in kinds:
        if kind == "whole":
            yield kind, cap([s])
        elif kind == "bytes":
            yield kind, [s[i:i + 1] for i in range(len(s))]
        elif kind == "lines":
            parts = s.split(b"\n")
            yield kind, cap([p + b"\n" for p in parts[:-1]] + [parts[-1]])
        elif kind == "random":
            cuts = sorted(set(rng.randrange(1, len(s)) for _ in range(rng.randint(1, 6)))) if len(s) > 1 else []
            chs, prev = [], 0
            for c in cuts:
                chs.append(s[prev:c])
                prev = c
            chs.append(s[prev:])
            yield kind, cap(chs)
        elif kind == "cut":
            if len(s) > 1:
                c = rng.randrange(1, len(s))
                yield "cut@%d" % c, cap([s[:c], s[c:]])
        elif kind == "small":
            k = rng.choice([2, 3, 7])
            yield kind, [s[i:i + k] for i in range(0, len(s), k)]


SIZES = [None, -1, 0, 1, 2, 3, 10, 1023, 1024, 1025, 2047, 2048, 2049, 8191, 8192, 8193, 100000]


def gen_prog(rng, body_len, maxcalls=6):
    n = rng.choice([0, 0, 1, 1, 2, 3, maxcalls])
    prog = []
    for _ in range(n):
        kind = rng.choice(["read", "read", "readline", "readline", "readlines", "next", "iternext"])
        size = rng.choice(SIZES + [body_len, body_len + 1, max(0, body_len - 1)])
        prog.append((kind, size if kind in ("read", "readline") else None))
    return prog


def small_limit_specs():
    return [
        make_spec(limit_request_line=20),
        make_spec(limit_request_fields=2, limit_request_field_size=30),
        make_spec(limit_request_fields=1, limit_request_field_size=10),
        make_spec(limit_request_line=0, limit_request_field_size=0, limit_request_fields=3),
    ]


def flag_specs():
    return [
        make_spec(header_map="refuse"),
        make_spec(header_map="dangerous"),
        make_spec(permit_obsolete_folding=True),
        make_spec(strip_header_spaces=True),
        make_spec(casefold_http_method=True, permit_unconventional_http_method=True),
        make_spec(permit_unconventional_http_version=True),
        make_spec(proxy_protocol=True),
        make_spec(proxy_protocol=True, proxy_allow_ips=["10.0.0.1"]),
        make_spec(forwarded_allow_ips=["10.0.0.1"]),
        make_spec(forwarder_headers=["*"]),
    ]
