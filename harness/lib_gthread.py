"""Deterministic driver for the REAL gunicorn.workers.gthread.ThreadWorker (property C13).

Nothing of gthread.py is replicated here.  The real `ThreadWorker.run()` runs in a thread of its own, the real
`ThreadWorker.handle` / `finish_request` run in one thread per submitted job, and all of them are *cooperatively
scheduled*: every controlled thread stops at the yield points listed below and continues only when the harness
gives it a turn, so exactly one thread runs at any time and a schedule (list of turns + environment actions)
replays exactly.

Objects substituted from outside (module attributes of gunicorn.workers.gthread, restored afterwards):
  selectors.DefaultSelector -> FSelector   select() = yield point "select"; returns the event batch of the schedule
  RLock                     -> YLock       __enter__ = yield point "lock" (then a real RLock is taken)
  futures                   -> proxy       wait() = yield point "wait", then the real concurrent.futures.wait(timeout=0)
  time                      -> proxy       time() = virtual clock (integer seconds), sleep() = no-op
  worker.get_thread_pool    -> FExecutor   real concurrent.futures.Future objects; every job is a thread with yield
                                           points "tstart" (before set_running_or_notify_cancel), "trun" (before
                                           worker.handle), "tdone" (before set_result, which runs finish_request);
                                           `inline` jobs run to completion inside submit() (finish_request then runs
                                           in the main thread from add_done_callback)
  listener / client sockets -> FListener / FSock   accept() = yield point "accept"; recv/sendall/close/setblocking
                                           recorded; a close while a job of that connection is queued or running, a
                                           second close, and a recv that would block are recorded as anomalies
"""
import errno
import os
import selectors
import sys
import threading
import concurrent.futures as cf

REQ = {
    "KA": b"GET /ka HTTP/1.1\r\nHost: x\r\n\r\n",
    "CL": b"GET /cl HTTP/1.1\r\nHost: x\r\nConnection: close\r\n\r\n",
    "ERR": b"GET /err HTTP/1.1\r\nHost: x\r\n\r\n",
    "BAD": b"BAD\r\n\r\n",
}
KINDS = ["KA", "CL", "ERR", "BAD"]
PARK_CODE = {"select": 0, "accept": 1, "lock": 2, "wait": 3, None: 4}
TURN_TIMEOUT = 20.0


class Abort(BaseException):
    pass


class HarnessStuck(Exception):
    pass


def app(environ, start_response):
    if environ["PATH_INFO"] == "/err":
        raise RuntimeError("application error")
    body = b"ok"
    start_response("200 OK", [("Content-Type", "text/plain"), ("Content-Length", str(len(body)))])
    return [body]


class NullLog:
    def __getattr__(self, name):
        return lambda *a, **k: None


class Sched:
    """One controlled thread runs at a time; the harness thread is the scheduler."""

    def __init__(self):
        self.cv = threading.Condition()
        self.parked = {}        # tid -> label
        self.finished = {}      # tid -> exception or None
        self.go = None
        self.running = None
        self.abort = False
        self.tl = threading.local()

    def spawn(self, tid, fn):
        def body():
            self.tl.tid = tid
            self.tl.noyield = 0
            exc = None
            try:
                self.park("boot")
                fn()
            except Abort:
                pass
            except BaseException as e:      # recorded, judged by the caller
                exc = e
            with self.cv:
                self.finished[tid] = exc
                self.parked.pop(tid, None)
                if self.running == tid:
                    self.running = None
                self.cv.notify_all()
        t = threading.Thread(target=body, daemon=True, name="c13-%s" % (tid,))
        with self.cv:
            self.running = tid
        t.start()
        with self.cv:
            if not self.cv.wait_for(lambda: tid in self.parked or tid in self.finished, TURN_TIMEOUT):
                raise HarnessStuck("thread %r did not reach its first yield point" % (tid,))
        return t

    def park(self, label):
        tid = getattr(self.tl, "tid", None)
        if tid is None or self.tl.noyield:
            return
        with self.cv:
            self.parked[tid] = label
            if self.running == tid:
                self.running = None
            self.cv.notify_all()
            while self.go != tid and not self.abort:
                self.cv.wait(1.0)
            if self.abort:
                raise Abort()
            self.go = None
            del self.parked[tid]
            self.running = tid

    def turn(self, tid):
        with self.cv:
            if tid not in self.parked:
                raise HarnessStuck("thread %r is not parked" % (tid,))
            self.go = tid
            self.running = tid
            self.cv.notify_all()
            ok = self.cv.wait_for(lambda: self.go is None and self.running is None and
                                  (tid in self.parked or tid in self.finished), TURN_TIMEOUT)
            if not ok:
                raise HarnessStuck("thread %r did not reach a yield point within %ss" % (tid, TURN_TIMEOUT))

    def label(self, tid):
        with self.cv:
            return self.parked.get(tid)

    def stop_all(self):
        with self.cv:
            self.abort = True
            self.cv.notify_all()


class FSock:
    def __init__(self, world, cid):
        self.world = world
        self.cid = cid
        self.inbuf = bytearray()
        self.eof = False
        self.out = bytearray()
        self.closes = 0
        self.blocking = True
        self.accepted = False

    def fileno(self):
        return -1 if self.closes else 100 + self.cid

    def setblocking(self, flag):
        self.blocking = bool(flag)

    def settimeout(self, t):
        pass

    def gettimeout(self):
        return None if self.blocking else 0.0

    def getpeername(self):
        return ("127.0.0.1", 40000 + self.cid)

    def getsockname(self):
        return ("127.0.0.1", 8000)

    def recv(self, n):
        if self.closes:
            raise OSError(errno.EBADF, "Bad file descriptor")
        if self.inbuf:
            data = bytes(self.inbuf[:n])
            del self.inbuf[:n]
            return data
        if self.eof:
            return b""
        self.world.anomalies.append(("recv-would-block", self.cid))
        raise BlockingIOError(errno.EAGAIN, "recv would block (no data, peer still there)")

    def sendall(self, data):
        if self.closes:
            raise OSError(errno.EBADF, "Bad file descriptor")
        self.out += data

    def send(self, data):
        self.sendall(data)
        return len(data)

    def shutdown(self, how):
        pass

    def close(self):
        w = self.world
        self.closes += 1
        tid = getattr(w.sched.tl, "tid", None)
        st = w.job_state(self.cid)
        w.close_log.append({"cid": self.cid, "by": "main" if tid == "main" else "pool", "now": w.now,
                            "job": st, "nth": self.closes, "step": w.step_no})
        if self.closes > 1:
            w.anomalies.append(("double-close", self.cid))
        if st in ("queued", "running"):
            w.anomalies.append(("closed-while-%s" % st, self.cid))

    def responses(self):
        return bytes(self.out).count(b"HTTP/1.1 ")


class FListener:
    def __init__(self, world, idx):
        self.world = world
        self.idx = idx
        self.closed = False

    def fileno(self):
        return -1 if self.closed else 10 + self.idx

    def setblocking(self, flag):
        pass

    def getsockname(self):
        return ("127.0.0.1", 8000 + self.idx)

    def accept(self):
        self.world.sched.park("accept")
        w = self.world
        if not w.backlog:
            raise BlockingIOError(errno.EAGAIN, "no pending connection")
        s = w.backlog.pop(0)
        s.accepted = True
        w.accepted.append(s.cid)
        return s, s.getpeername()

    def close(self):
        self.closed = True


class FSelector:
    def __init__(self, world):
        self.world = world
        self.keys = {}
        self.closed = False
        world.selector = self

    def register(self, fileobj, events, data=None):
        if self.closed:
            raise ValueError("I/O operation on closed epoll object")
        if fileobj.fileno() < 0:
            raise ValueError("Invalid file descriptor: -1")
        if fileobj in self.keys:
            raise KeyError("%r is already registered" % (fileobj,))
        key = selectors.SelectorKey(fileobj, fileobj.fileno(), events, data)
        self.keys[fileobj] = key
        return key

    def unregister(self, fileobj):
        if fileobj not in self.keys:
            raise KeyError("%r is not registered" % (fileobj,))
        return self.keys.pop(fileobj)

    def select(self, timeout=None):
        w = self.world
        w.sched.park("select")
        evs, w.next_events = w.next_events, []
        return [(self.keys[f], selectors.EVENT_READ) for f in evs if f in self.keys]

    def close(self):
        self.closed = True
        self.keys.clear()

    def get_map(self):
        return self.keys


class YLock:
    """stands for the lock the worker creates - threading.RLock, or threading.Lock if that is what the module uses.  A thread
    that takes a plain Lock it already holds would block for ever: that is recorded as an anomaly and the thread is aborted."""

    def __init__(self, world, reentrant=True):
        self.world = world
        self.reentrant = reentrant
        self.lock = threading.RLock()
        self.depth = {}

    def __enter__(self):
        self.world.sched.park("lock")
        me = threading.get_ident()
        if not self.reentrant and self.depth.get(me, 0) > 0:
            self.world.anomalies.append(("self-deadlock: a thread takes the worker's (non re-entrant) lock while holding it", -1))
            raise RuntimeError("self-deadlock on the worker's lock")
        self.lock.acquire()
        self.depth[me] = self.depth.get(me, 0) + 1
        return self

    def __exit__(self, *a):
        me = threading.get_ident()
        self.depth[me] = self.depth.get(me, 0) - 1
        self.lock.release()


class Job:
    def __init__(self, fut, fn, args, cid):
        self.fut = fut
        self.fn = fn
        self.args = args
        self.cid = cid
        self.state = "queued"     # queued running returned finished cancelled
        self.result = None


class FExecutor:
    def __init__(self, world):
        self.world = world
        self.shut = False
        self.seq = 0

    def submit(self, fn, *args):
        w = self.world
        if self.shut:
            raise RuntimeError("cannot schedule new futures after shutdown")
        fut = cf.Future()
        conn = args[0]
        job = Job(fut, fn, args, conn.sock.cid)
        self.seq += 1
        job.tid = ("job", job.cid, self.seq)
        w.jobs.append(job)
        if w.inline_now:
            w.sched.tl.noyield += 1
            try:
                self._body(job)
            finally:
                w.sched.tl.noyield -= 1
        else:
            w.spawn_later.append(job)
        return fut

    def _body(self, job):
        w = self.world
        w.sched.park("tstart")
        if not job.fut.set_running_or_notify_cancel():
            job.state = "cancelled"
            return
        job.state = "running"
        w.sched.park("trun")
        try:
            res = job.fn(*job.args)
            exc = None
        except Abort:
            raise
        except BaseException as e:
            res, exc = None, e
        job.state = "returned"
        job.result = (res[0] if isinstance(res, tuple) else None)
        job.returned_at = w.now
        w.sched.park("tdone")
        job.state = "finished"
        job.finish_at = w.now
        if exc is not None:
            job.fut.set_exception(exc)
        else:
            job.fut.set_result(res)

    def shutdown(self, wait=True, **kw):
        self.shut = True


class FuturesProxy:
    FIRST_COMPLETED = cf.FIRST_COMPLETED
    ALL_COMPLETED = cf.ALL_COMPLETED
    ThreadPoolExecutor = cf.ThreadPoolExecutor

    def __init__(self, world):
        self.world = world

    def wait(self, fs, timeout=None, return_when=cf.ALL_COMPLETED):
        self.world.wait_timeouts.append(timeout)
        self.world.sched.park("wait")
        return cf.wait(fs, timeout=0, return_when=return_when)


class TimeProxy:
    def __init__(self, world):
        self.world = world

    def time(self):
        return self.world.now

    def sleep(self, s):
        pass


class SelectorsProxy:
    EVENT_READ = selectors.EVENT_READ
    EVENT_WRITE = selectors.EVENT_WRITE

    def __init__(self, world):
        self.world = world

    def DefaultSelector(self):
        return FSelector(self.world)


class World:
    """The real worker + everything around it."""

    def __init__(self, threads, wconn, keepalive, max_requests=0, nlisteners=1):
        import gunicorn.config
        import gunicorn.workers.gthread as gt
        import gunicorn.workers.base as base
        self.gt = gt
        self.cfgv = (threads, wconn, keepalive, max_requests, nlisteners)
        self.sched = Sched()
        self.now = 0
        self.step_no = 0
        self.backlog = []
        self.accepted = []
        self.socks = []
        self.jobs = []
        self.spawn_later = []
        self.next_events = []
        self.inline_now = False
        self.anomalies = []
        self.close_log = []
        self.wait_timeouts = []
        self.selector = None
        cfg = gunicorn.config.Config()
        cfg.set("threads", threads)
        cfg.set("worker_connections", wconn)
        cfg.set("keepalive", keepalive)
        cfg.set("max_requests", max_requests)
        cfg.set("max_requests_jitter", 0)
        cfg.set("graceful_timeout", 1)
        self.cfg = cfg
        self.listeners = [FListener(self, i) for i in range(nlisteners)]
        # (the lock class is patched under whichever name the module imported it)
        self.saved = (gt.selectors, getattr(gt, "RLock", None), gt.futures, gt.time, getattr(gt, "Lock", None))
        gt.selectors = SelectorsProxy(self)
        if self.saved[1] is not None:
            gt.RLock = lambda: YLock(self)
        if self.saved[4] is not None:
            gt.Lock = lambda: YLock(self, reentrant=False)
        gt.futures = FuturesProxy(self)
        gt.time = TimeProxy(self)
        try:
            self.worker = gt.ThreadWorker(0, os.getppid(), self.listeners, app, 30, cfg, NullLog())
            self.worker.wsgi = app
            self.executor = FExecutor(self)
            self.worker.get_thread_pool = lambda: self.executor
            # the gthread part of init_process for real; the process-level part of base.Worker.init_process
            # (signals, pipe, chown, load_wsgi) is skipped
            saved_ip = base.Worker.init_process
            base.Worker.init_process = lambda self_: None
            try:
                self.worker.init_process()
            finally:
                base.Worker.init_process = saved_ip
            self.sched.spawn("main", self.worker.run)
            self.sched.turn("main")          # from "boot" to the first yield point of run()
        except BaseException:
            self.close()
            raise

    def close(self):
        gt = self.gt
        self.sched.stop_all()
        gt.selectors, gt.futures, gt.time = self.saved[0], self.saved[2], self.saved[3]
        if self.saved[1] is not None:
            gt.RLock = self.saved[1]
        if self.saved[4] is not None:
            gt.Lock = self.saved[4]
        try:
            self.worker.tmp.close()
        except Exception:
            pass

    # ---- queries --------------------------------------------------------------------------------------
    def job_state(self, cid):
        for j in reversed(self.jobs):
            if j.cid == cid:
                return j.state
        return None

    def active_job(self, cid):
        for j in reversed(self.jobs):
            if j.cid == cid and j.state in ("queued", "running", "returned"):
                return j
            if j.cid == cid and j.state == "finished" and j.tid in self.sched.parked:
                return j
        return None

    def running_jobs(self):
        return [j for j in self.jobs if j.state in ("running", "returned") or
                (j.state == "finished" and j.tid in self.sched.parked)]

    def main_label(self):
        if "main" in self.sched.finished:
            return None
        return self.sched.label("main")

    def main_exc(self):
        return self.sched.finished.get("main")

    def registered_cids(self):
        return [f.cid for f in self.selector.keys if isinstance(f, FSock)]

    def ready_events(self):
        evs = []
        for f in self.selector.keys:
            if isinstance(f, FListener):
                if self.backlog:
                    evs.append(("acc", f.idx))
            elif f.inbuf or f.eof:
                evs.append(("rd", f.cid))
        return evs

    def snapshot(self):
        w = self.worker
        keep = [c.sock.cid for c in w._keep]
        return {
            "park": PARK_CODE[self.main_label()],
            "nr_conns": w.nr_conns,
            "alive": bool(w.alive),
            "nfut": len(w.futures),
            "nfut_pending": len([f for f in w.futures if not f.done()]),
            "keep": keep,
            "deadlines": [c.timeout for c in w._keep],
            "registered": self.registered_cids(),
            "closes": [s.closes for s in self.socks],
            "responses": [s.responses() for s in self.socks],
            "nr": w.nr,
        }

    # ---- actions (one schedule step each) ----------------------------------------------------------------
    def _after(self):
        jobs, self.spawn_later = self.spawn_later, []
        for j in jobs:
            self.sched.spawn(j.tid, lambda j=j: self.executor._body(j))
            self.sched.turn(j.tid)        # boot -> "tstart"

    def do(self, step):
        """Execute one schedule step; returns False when the step is not possible in the current state."""
        self.step_no += 1
        k = step[0]
        if k == "m":              # ("m", events, inline)
            lab = self.main_label()
            if lab is None:
                return False
            if lab == "select":
                evs = []
                for e in step[1]:
                    if e[0] == "acc":
                        evs.append(self.listeners[e[1]])
                    else:
                        evs.append(self.socks[e[1]])
                self.next_events = evs
            self.inline_now = bool(step[2])
            try:
                self.sched.turn("main")
            finally:
                self.inline_now = False
            self._after()
            return True
        if k in ("start", "handle", "finish", "finlock"):
            want = {"start": "tstart", "handle": "trun", "finish": "tdone", "finlock": "lock"}[k]
            j = self.active_job(step[1])
            if j is None or self.sched.label(j.tid) != want:
                return False
            if k == "start" and len(self.running_jobs()) >= self.cfgv[0]:
                return False
            self.sched.turn(j.tid)
            return True
        if k == "cancel":
            j = self.active_job(step[1])
            if j is None or j.state != "queued":
                return False
            j.state = "cancelled"
            j.fut.cancel()                # runs finish_request(cancelled future) in the calling thread
            self.sched.turn(j.tid)        # the job thread sees the cancellation and ends
            return True
        if k == "connect":
            s = FSock(self, len(self.socks))
            self.socks.append(s)
            self.backlog.append(s)
            return True
        if k == "send":
            s = self.socks[step[1]]
            if s.eof:
                return False
            if not s.closes:
                for kind in step[2]:
                    s.inbuf += REQ[kind]
            s.sent = getattr(s, "sent", 0) + len(step[2])
            return True
        if k == "cclose":
            s = self.socks[step[1]]
            if s.eof:
                return False
            s.eof = True
            return True
        if k == "term":
            self.worker.alive = False       # what Worker.handle_exit (SIGTERM) does
            return True
        if k == "tick":
            self.now += 1
            return True
        if k == "orphan":
            self.worker.ppid = -1           # os.getppid() no longer equals the recorded parent
            return True
        raise ValueError(step)

    # what the harness may choose next (knowledge of the harness itself: parked threads, client side)
    def enabled(self):
        out = []
        if self.main_label() is not None:
            out.append(("m",))
        nrun = len(self.running_jobs())
        seen = set()
        for j in self.jobs:
            lab = self.sched.label(j.tid)
            if lab is None or j.cid in seen:
                continue
            if lab == "tstart":
                if nrun < self.cfgv[0]:
                    out.append(("start", j.cid))
                out.append(("cancel", j.cid))
            elif lab == "trun":
                out.append(("handle", j.cid))
            elif lab == "tdone":
                out.append(("finish", j.cid))
            elif lab == "lock":
                out.append(("finlock", j.cid))
        return out
