"""./check --selftest [Cxx ...]: sensitivity self-test.
Applies every kept change (seeded/<name>/patch.diff from independent sub-agents, selftest/mutants/Cxx-*.diff
written while building the checks) to a scratch worktree of the repository under /tmp, runs the quick check of
the property it breaks against it (VERIF_REPO), and requires exit 1 with a VIOLATION line; then applies the
behaviour-preserving refactorings (selftest/refactor*/Cxx-*.diff) and requires that no concrete violation is
reported.  Scratch worktrees are removed as soon as each run is done.  Results go to selftest/RESULTS.json."""
import json
import os
import re
import subprocess
import sys
import tempfile
from concurrent.futures import ThreadPoolExecutor

import vlib

V = vlib.VERIF


def run_patch(patch, prop):
    w = tempfile.mkdtemp(prefix="gvself.", dir="/tmp")
    os.rmdir(w)
    r = subprocess.run(["git", "-C", "/repo", "worktree", "add", "--detach", w, "HEAD"], capture_output=True, text=True)
    if r.returncode != 0:
        return {"patch": str(patch), "error": "worktree: " + r.stderr[-200:]}
    try:
        a = subprocess.run(["git", "apply", str(patch)], cwd=w, capture_output=True, text=True)
        if a.returncode != 0:
            return {"patch": str(patch), "error": "patch does not apply: " + a.stderr[-200:]}
        env = dict(os.environ, VERIF_REPO=w)
        p = subprocess.run([str(V / "check"), prop, "quick"], cwd=str(V), env=env, capture_output=True, text=True, timeout=3600)
        viol = [l for l in p.stdout.splitlines() if l.startswith("VIOLATION")]
        lines = p.stdout.splitlines()
        why = [lines[i + 1].strip()[:400] for i, l in enumerate(lines[:-1]) if l.startswith("VIOLATION") and lines[i + 1].startswith("  (")]
        return {"patch": str(patch.relative_to(V)), "property": prop, "exit": p.returncode, "violations": viol[:3],
                "why": why[:3], "concrete": any("no-failing-input-found" not in l for l in viol)}
    finally:
        subprocess.run(["git", "-C", "/repo", "worktree", "remove", "--force", w], capture_output=True)
        key = __import__("hashlib").sha1(os.path.realpath(w).encode()).hexdigest()[:10]
        subprocess.run(["rm", "-rf", str(V / ".build" / key)])


def main(argv):
    want = set(argv)
    jobs = []
    for d in sorted((V / "seeded").glob("*/patch.diff")):
        meta = json.loads((d.parent / "meta.json").read_text())
        jobs.append(("break", d, meta["property"]))
    for d in sorted((V / "selftest" / "mutants").glob("C*.diff")):
        jobs.append(("break", d, d.name[:3]))
    for sub in ("refactors", "refactorings"):
        for d in sorted((V / "selftest" / sub).glob("*C[0-9][0-9]*.diff")):
            m = re.search(r"C\d\d", d.name)
            jobs.append(("keep", d, m.group(0)))
    if want:
        jobs = [j for j in jobs if j[2] in want]
    match = os.environ.get("GV_SELFTEST_MATCH")        # a regular expression on the patch path: only those changes
    if match:
        jobs = [j for j in jobs if re.search(match, str(j[1]))]
        want = want or {"*"}
    results = []
    # the checks write evidence/<id>.json: run one property at a time per worker to avoid mixing files
    with ThreadPoolExecutor(4) as ex:
        for kind, res in zip([j[0] for j in jobs], ex.map(lambda j: run_patch(j[1], j[2]), jobs)):
            res["expected"] = "violation" if kind == "break" else "quiet-or-no-failing-input"
            if "error" in res:
                res["ok"] = False
            elif kind == "break":
                res["ok"] = res["exit"] == 1 and bool(res["violations"])
            else:
                res["ok"] = not res["concrete"]
            results.append(res)
            print("%-6s %-70s %s" % ("ok" if res["ok"] else "MISSED", res.get("patch"), (res.get("violations") or [""])[0][:90]), flush=True)
    (V / "selftest").mkdir(exist_ok=True)
    out = V / "selftest" / "RESULTS.json"
    if want and out.exists():
        # a run for some properties only: keep the recorded results of the others
        by = {r.get("patch"): r for r in json.loads(out.read_text())}
        for r in results:
            by[r.get("patch")] = r
        merged = [r for p, r in sorted(by.items(), key=lambda kv: str(kv[0])) if p and (V / p).exists()]
        out.write_text(json.dumps(merged, indent=1))
    else:
        out.write_text(json.dumps(results, indent=1))
    bad = [r for r in results if not r["ok"]]
    print("selftest: %d changes, %d as expected, %d not" % (len(results), len(results) - len(bad), len(bad)))
    return 1 if bad else 0
