"""Shared code of the response family (C02, C09).

* drive the REAL gunicorn workers (SyncWorker.handle, ThreadWorker.handle, AsyncWorker.handle through a
  minimal subclass) over a socket.socketpair() with scripted WSGI applications,
* build the matching Coq expression for Model/Response.v (serve_conn_obs),
* py_decode: the Python twin of Spec/RespSpec.v (strict response reader) used as the wire oracle.

A case (JSON-serialisable dict):
  {"worker": "sync"|"gthread"|"async",
   "ws": {"nr": int, "max_requests": int, "alive": bool, "keepalive": bool, "keep_full": bool, "sendfile": bool},
   "date": str,
   "reqs": [ {"req": {"major","minor","method","conn":[str],"te_gzip":bool,"body":str},
              "app": {"acts": [["sr", status, [[name,value],...], exc_bool] | ["w", latin1-str]],
                      "end": ["done"] | ["raise"] | ["file", {"content": latin1-str | ["pat", n, seed], "offset": int,
                                                              "blksize": int|None, "fileno": bool}],
                      "split": int} } ]}
Text fields are str (any code point); byte strings are latin-1 str.
"""
import collections
import contextlib
import errno
import io
import os
import socket
import zlib
import struct
import sys
import tempfile

import vlib

# ------------------------------------------------------------------------------------------------
# exceptions -> the model's enum
# ------------------------------------------------------------------------------------------------

class AppError(Exception):
    pass


EXN_CODES = {"InvalidHeader": 1, "InvalidHeaderName": 2, "AssertionError": 3, "TypeError": 4, "ValueError": 5,
             "IndexError": 6, "AttributeError": 7, "UnicodeEncodeError": 8, "AppError": 9}


def exn_code(e):
    return EXN_CODES.get(type(e).__name__, 99)


# ------------------------------------------------------------------------------------------------
# file contents
# ------------------------------------------------------------------------------------------------

def file_content(c):
    if isinstance(c, str):
        return c.encode("latin-1")
    _, n, seed = c
    return bytes(((i * 7 + seed) % 251) for i in range(n))


# ------------------------------------------------------------------------------------------------
# the real workers
# ------------------------------------------------------------------------------------------------

class StubLog:
    def __init__(self):
        self.exceptions = []
        self.access_calls = []

    def exception(self, msg, *a, **k):
        self.exceptions.append((msg, sys.exc_info()[1]))

    def access(self, resp, req, environ, request_time):
        self.access_calls.append((resp.status, resp.sent))

    def _nop(self, *a, **k):
        pass
    debug = info = warning = error = critical = log = _nop

    def close_on_exec(self):
        pass

    def reopen_files(self):
        pass


class FakeListener:
    def getsockname(self):
        return ("127.0.0.1", 8000)


_WORKERS = {}


def get_worker(kind):
    """One long-lived worker object per kind (its per-request state is reset for every case)."""
    if kind in _WORKERS:
        return _WORKERS[kind]
    from gunicorn.config import Config
    from gunicorn.workers.sync import SyncWorker
    from gunicorn.workers.gthread import ThreadWorker
    from gunicorn.workers.base_async import AsyncWorker

    class MiniAsync(AsyncWorker):
        def timeout_ctx(self):
            return contextlib.nullcontext()

    cls = {"sync": SyncWorker, "gthread": ThreadWorker, "async": MiniAsync}[kind]
    cfg = Config()
    log = StubLog()
    w = cls(1, os.getpid(), [], None, 30, cfg, log)
    _WORKERS[kind] = w
    return w


def build_request(rq):
    m = rq["method"]
    lines = ["%s /p HTTP/%d.%d" % (m, rq["major"], rq["minor"]), "Host: h"]
    for v in rq["conn"]:
        lines.append("Connection: " + v)
    if rq.get("te_gzip"):
        lines.append("Transfer-Encoding: gzip")
    body = rq.get("body", "")
    if body or m == "POST":
        lines.append("Content-Length: %d" % len(body))
    return ("\r\n".join(lines) + "\r\n\r\n" + body).encode("latin-1")


class Files:
    """Real temp files for file-wrapper cases (removed at close)."""

    def __init__(self):
        self.dir = None
        self.open = []

    def make(self, fs):
        data = file_content(fs["content"])
        if fs["fileno"]:
            if self.dir is None:
                base = vlib.VERIF / ".build" / "scratch"
                base.mkdir(parents=True, exist_ok=True)
                self.dir = tempfile.mkdtemp(prefix="resp-", dir=str(base))
            p = os.path.join(self.dir, "f%d" % len(self.open))
            with open(p, "wb") as fh:
                fh.write(data)
            f = open(p, "rb") if fs.get("buffered", True) else open(p, "rb", buffering=0)
        else:
            f = io.BytesIO(data)
        if fs.get("sniff"):
            # the application looks at the beginning of the file first (buffered read-ahead), then positions it
            f.read(fs["sniff"])
        f.seek(fs["offset"])
        self.open.append(f)
        return f

    def close(self):
        for f in self.open:
            with contextlib.suppress(Exception):
                f.close()
        if self.dir:
            import shutil
            shutil.rmtree(self.dir, ignore_errors=True)


def drain(sock):
    """Everything readable right now (the server runs in this thread, so its writes are complete)."""
    out = []
    sock.setblocking(False)
    try:
        while True:
            try:
                d = sock.recv(1 << 20)
            except (BlockingIOError, InterruptedError):
                break
            except ConnectionResetError:
                break
            if not d:
                break
            out.append(d)
    finally:
        sock.setblocking(True)
    return b"".join(out)


def run_real(case, date_patch=True):
    """Serve the connection on the real worker.  Returns a list of per-request observations
    {"wire": bytes, "ended": [kind, code], "sent": int, "status": str|None, "headers_sent": bool}
    for the requests whose application was invoked, plus diagnostic info."""
    from gunicorn.http import wsgi
    from gunicorn import util
    import gunicorn.workers.gthread as gth

    kind = case["worker"]
    ws = case["ws"]
    w = get_worker(kind)
    w.cfg.set("keepalive", 2 if ws["keepalive"] else 0)
    w.cfg.set("sendfile", None if ws["sendfile"] else False)
    w.nr = ws["nr"]
    w.max_requests = ws["max_requests"]
    w.alive = ws["alive"]
    w.log.exceptions.clear()
    w.log.access_calls.clear()
    if kind == "gthread":
        w.max_keepalived = 1
        w._keep = collections.deque([object()] if ws["keep_full"] else [])
    handled_errors = []
    w.handle_error = lambda req, client, addr, exc: handled_errors.append(exc)

    srv, cli = socket.socketpair()
    for s in (srv, cli):
        s.setsockopt(socket.SOL_SOCKET, socket.SO_SNDBUF, 4 << 20)
    files = Files()
    resps = []
    wires = []
    state = {"idx": 0}
    reqs = case["reqs"]

    def app(environ, start_response):
        # everything the server wrote before this call belongs to the previous responses
        wires.append(drain(cli))
        i = state["idx"]
        state["idx"] += 1
        spec = reqs[i]["app"]
        acts = spec["acts"]
        end = spec["end"]
        split = spec.get("split", len(acts))
        ctx = {"write": None}

        def do_sr(a):
            hdrs = [(n, v) for n, v in a[2]]
            # the container the application hands over: mostly a list; sometimes a tuple, a one-shot iterator or a generator
            # (the server walks it exactly once: what it checks is what it stores and sends)
            form = zlib.crc32(repr((a[1], a[2], i)).encode()) % 8
            if form == 1:
                hdrs = tuple(hdrs)
            elif form == 2:
                hdrs = iter(hdrs)
            elif form == 3:
                hdrs = ((n, v) for n, v in list(hdrs))
            if a[3]:
                try:
                    raise AppError("application error")
                except AppError:
                    exc = sys.exc_info()
                ctx["write"] = start_response(a[1], hdrs, exc)
            else:
                ctx["write"] = start_response(a[1], hdrs)

        k = 0
        while k < len(acts) and (k < split or end[0] == "file"):
            a = acts[k]
            if a[0] == "sr":
                do_sr(a)
            elif a[0] == "srt":
                # the application catches whatever the server raises for this call and goes on (oracle-only cases)
                try:
                    do_sr(a)
                except Exception:
                    pass
            else:
                if ctx["write"] is None:
                    break                       # write() is only available after start_response: yield it instead
                ctx["write"](a[1].encode("latin-1"))
            k += 1
        rest = acts[k:]
        if end[0] == "file":
            if rest:
                raise RuntimeError("harness: file-wrapper application with a write before start_response")
            fs = end[1]
            f = files.make(fs)
            if fs["blksize"] is None:
                return environ["wsgi.file_wrapper"](f)
            return environ["wsgi.file_wrapper"](f, fs["blksize"])
        def failure():
            # the application's own failure: mostly an ordinary exception; end[1] names an OSError of the application's (a missing
            # file, a refused outbound connection ...) - not a dead peer
            if len(end) > 1:
                import errno as _errno
                cls, no = {"FileNotFoundError": (FileNotFoundError, _errno.ENOENT), "PermissionError": (PermissionError, _errno.EACCES),
                           "TimeoutError": (TimeoutError, _errno.ETIMEDOUT),
                           "ConnectionRefusedError": (ConnectionRefusedError, _errno.ECONNREFUSED)}[end[1]]
                return cls(no, "application failure (%s)" % end[1])
            return AppError("application failure")
        if end[0] == "raise" and not rest and spec.get("raise_in_call"):
            raise failure()

        def gen():
            for a in rest:
                if a[0] == "sr":
                    do_sr(a)
                elif a[0] == "srt":
                    try:
                        do_sr(a)
                    except Exception:
                        pass
                else:
                    yield a[1].encode("latin-1")
            if end[0] == "raise":
                raise failure()
        return gen()

    orig_create = wsgi.create
    orig_date = util.http_date

    def create(*a, **k):
        r, e = orig_create(*a, **k)
        resps.append(r)
        return r, e

    wsgi.create = create
    if date_patch:
        util.http_date = lambda timestamp=None: case["date"]
    w.wsgi = app
    harness_error = None
    try:
        cli.sendall(b"".join(build_request(r["req"]) for r in reqs))
        cli.shutdown(socket.SHUT_WR)
        addr = ("127.0.0.1", 54321)
        if kind == "sync":
            w.handle(FakeListener(), srv, addr)
        elif kind == "async":
            w.handle(FakeListener(), srv, addr)
        else:
            conn = gth.TConn(w.cfg, srv, addr, ("127.0.0.1", 8000))
            conn.init()
            while True:
                keepalive, _ = w.handle(conn)
                if not keepalive:
                    break
            conn.close()
        wires.append(drain(cli))
    except Exception as e:           # the worker entry points do not raise; anything here is a harness problem
        harness_error = e
        wires.append(drain(cli))
    finally:
        wsgi.create = orig_create
        util.http_date = orig_date
        del w.handle_error
        files.close()
        with contextlib.suppress(OSError):
            srv.close()
        cli.close()
    if harness_error is not None:
        raise harness_error
    n = state["idx"]
    # wires[0] precedes the first application call (must be empty), wires[i+1] belongs to request i
    pre = wires[0] if wires else b""
    out = []
    logged = list(w.log.exceptions)
    for i in range(n):
        wire = wires[i + 1] if i + 1 < len(wires) else b""
        r = resps[i] if i < len(resps) else None
        out.append({"wire": wire, "sent": r.sent if r else -1, "status": r.status if r else None,
                    "headers_sent": bool(r.headers_sent) if r else False, "ended": None})
    # how each request ended: exceptions are attributed in order of occurrence (at most one per request,
    # and an exception always ends the connection)
    for i in range(n):
        if i + 1 < n:
            out[i]["ended"] = [0, 1]                 # the next request was served: kept open
        else:
            if handled_errors:
                out[i]["ended"] = [2, exn_code(handled_errors[0])]
            elif any(m == "Error handling request" for m, _ in logged):
                e = [x for m, x in logged if m == "Error handling request"][0]
                out[i]["ended"] = [1, exn_code(e)]
            else:
                out[i]["ended"] = [0, 0]
    return out, {"pre": pre, "served": n, "handled_errors": [type(e).__name__ for e in handled_errors],
                 "logged": [(m, type(e).__name__) for m, e in logged]}


def sentinel():
    """Closing request appended to every connection: whether it is served shows if the connection was kept open."""
    return {"req": {"major": 1, "minor": 1, "method": "GET", "conn": ["close"], "te_gzip": False},
            "app": {"acts": [["sr", "200 OK", [["Content-Length", "2"]], False], ["w", "ok"]], "end": ["done"], "split": 1},
            "wb": True}


# ------------------------------------------------------------------------------------------------
# observation encoding (mirror of enc_outcome / serve_conn_obs in Model/Response.v)
# ------------------------------------------------------------------------------------------------

def cksum(w):
    acc = 0
    for i, b in enumerate(w):
        acc = (acc + (i % 65521 + 1) * (b + 1)) % 4294967291
    return acc


def enc_wire(w):
    if len(w) > 600:
        return [-1, len(w), cksum(w)] + list(w[:200]) + list(w[len(w) - 100:])
    return vlib.enc_bytes(w)


def enc_outcome(o):
    return (enc_wire(o["wire"]) + list(o["ended"]) + [o["sent"]]
            + vlib.enc_opt(vlib.enc_codepoints, o["status"]) + vlib.enc_bool(o["headers_sent"]))


def impl_obs(outs):
    return vlib.enc_list(enc_outcome, outs)


# ------------------------------------------------------------------------------------------------
# Coq expressions
# ------------------------------------------------------------------------------------------------

def cq_str(s):
    """text (any code points) -> list N literal"""
    return "[" + ";".join(str(ord(c)) for c in s) + "]"


def cq_content(c):
    if isinstance(c, str):
        return cq_str(c)
    return "(pat_bytes %d %d)" % (c[1], c[2])


def cq_req(rq):
    return "(mkreq %d %d %s [%s] %s)" % (rq["major"], rq["minor"], cq_str(rq["method"]),
                                         ";".join(cq_str(v) for v in rq["conn"]), vlib.coq_bool(rq.get("te_gzip", False)))


def cq_app(app, default_blk="filewrapper_blksize"):
    acts = []
    for a in app["acts"]:
        if a[0] == "sr":
            acts.append("StartResponse %s [%s] %s" % (cq_str(a[1]), ";".join("(%s,%s)" % (cq_str(n), cq_str(v)) for n, v in a[2]),
                                                      vlib.coq_bool(a[3])))
        else:
            acts.append("Write %s" % cq_str(a[1]))
    e = app["end"]
    if e[0] == "done":
        end = "EndDone"
    elif e[0] == "raise":
        end = "EndRaise"
    else:
        fs = e[1]
        end = "(EndFile (mkfile %s %d %s %s))" % (cq_content(fs["content"]), fs["offset"],
                                                  default_blk if fs["blksize"] is None else str(fs["blksize"]),
                                                  vlib.coq_bool(fs["fileno"]))
    return "(mkapp [%s] %s)" % (";".join(acts), end)


def cq_case(case):
    ws = case["ws"]
    wsx = "(mkws %d %d %s %s %s %s)" % (ws["nr"], ws["max_requests"], vlib.coq_bool(ws["alive"]), vlib.coq_bool(ws["keepalive"]),
                                        vlib.coq_bool(ws["keep_full"]), vlib.coq_bool(ws["sendfile"]))
    wk = {"sync": "WSync", "gthread": "WGthread", "async": "WAsync"}[case["worker"]]
    pairs = ";".join("(%s,%s)" % (cq_req(r["req"]), cq_app(r["app"])) for r in case["reqs"])
    return "serve_conn_obs %s %s %s [%s]" % (wk, wsx, cq_str(case["date"]), pairs)


HEADER = """From Coq Require Import List NArith ZArith.
From GV Require Import Base.Enc Model.RespStr Gen.GenResponse Model.Response Spec.RespSpec.
Import ListNotations.
Open Scope N_scope.
Definition mkreq ma mi m c mc := {| rq_major := ma; rq_minor := mi; rq_method := m; rq_conn := c; rq_must_close := mc |}.
Definition mkfile c o b f := {| f_content := c; f_offset := o; f_blksize := b; f_has_fileno := f |}.
Definition mkapp a e := {| a_acts := a; a_end := e |}.
Definition mkws nr mx al ka kf sf := {| w_nr := nr; w_max_requests := mx; w_alive := al; w_keepalive := ka; w_keep_full := kf; w_sendfile := sf |}.
Fixpoint pat_aux (n : nat) (i seed : N) : list N := match n with O => [] | S k => ((i * 7 + seed) mod 251) :: pat_aux k (i + 1) seed end.
Definition pat_bytes (n seed : N) : list N := pat_aux (N.to_nat n) 0 seed.
Definition enc_resp (r : option response) : list Z :=
  match r with
  | None => [0%Z]
  | Some r => [1%Z; Z.of_N (p_major r); Z.of_N (p_minor r); Z.of_N (p_code r)] ++ enc_bytes (p_reason r)
              ++ enc_list (fun f => enc_bytes (fst f) ++ enc_bytes (snd f)) (p_fields r)
              ++ enc_bytes (p_body r) ++ enc_bytes (p_leftover r) ++ enc_bool (p_self_delimiting r)
  end.
"""


# ------------------------------------------------------------------------------------------------
# Python twin of Spec/RespSpec.v
# ------------------------------------------------------------------------------------------------

TCHAR = set(b"!#$%&'*+-.^_`|~0123456789abcdefghijklmnopqrstuvwxyzABCDEFGHIJKLMNOPQRSTUVWXYZ")


def is_field_char(c):
    return c == 9 or 32 <= c <= 126 or 128 <= c <= 255


def read_line(b):
    """-> (line, rest) or None; bare CR / bare LF / NUL before the CRLF => None"""
    for i, c in enumerate(b):
        if c == 13:
            if i + 1 < len(b) and b[i + 1] == 10:
                return b[:i], b[i + 2:]
            return None
        if c == 10 or c == 0:
            return None
    return None


def parse_status_line(l):
    if len(l) < 13:
        return None
    if l[:5] != b"HTTP/" or l[6] != 46 or l[8] != 32 or l[12] != 32:
        return None
    ds = [l[5], l[7], l[9], l[10], l[11]]
    if not all(48 <= d <= 57 for d in ds):
        return None
    reason = l[13:]
    if not all(is_field_char(c) for c in reason):
        return None
    return l[5] - 48, l[7] - 48, (l[9] - 48) * 100 + (l[10] - 48) * 10 + (l[11] - 48), reason


def parse_field(l):
    i = l.find(b":")
    if i < 0:
        return None
    name, v = l[:i], l[i + 1:]
    if not name or not all(c in TCHAR for c in name) or not all(is_field_char(c) for c in v):
        return None
    return name, v.strip(b" \t")


def ascii_lower(b):
    return bytes((c + 32) if 65 <= c <= 90 else c for c in b)


def field_values(lname, flds):
    return [v for n, v in flds if ascii_lower(n) == lname]


def read_chunks(b):
    body = []
    while True:
        r = read_line(b)
        if r is None:
            return None
        szline, rest = r
        if not szline or not all(chr(c) in "0123456789abcdefABCDEF" for c in szline):
            return None
        n = int(szline, 16)
        if n == 0:
            r2 = read_line(rest)
            if r2 is None or r2[0] != b"":
                return None
            return b"".join(body), r2[1]
        if len(rest) < n:
            return None
        data, rest1 = rest[:n], rest[n:]
        if rest1[:2] != b"\r\n":
            return None
        body.append(data)
        b = rest1[2:]


def py_decode(meth, wire):
    """Twin of RespSpec.decode: dict or None."""
    r = read_line(wire)
    if r is None:
        return None
    sl, rest = r
    st = parse_status_line(sl)
    if st is None:
        return None
    ma, mi, code, reason = st
    flds = []
    while True:
        r = read_line(rest)
        if r is None:
            return None
        line, rest = r
        if line == b"":
            break
        f = parse_field(line)
        if f is None:
            return None
        flds.append(f)

    def mk(body, left, sd):
        return {"major": ma, "minor": mi, "code": code, "reason": reason, "fields": flds, "body": body,
                "leftover": left, "sd": sd}
    if meth == b"HEAD" or code < 200 or code in (204, 304):
        return mk(b"", rest, True)
    te = field_values(b"transfer-encoding", flds)
    cl = field_values(b"content-length", flds)
    if not te and not cl:
        return mk(rest, b"", False)
    if not te and len(cl) == 1:
        v = cl[0]
        if not v or not all(48 <= c <= 57 for c in v):
            return None
        n = int(v)
        if len(rest) < n:
            return None
        return mk(rest[:n], rest[n:], True)
    if len(te) == 1 and not cl:
        if ascii_lower(te[0]) == b"chunked" and not (ma == 0 or (ma == 1 and mi == 0)):
            r = read_chunks(rest)
            if r is None:
                return None
            return mk(r[0], r[1], True)
        return None
    return None


def enc_resp(r):
    if r is None:
        return [0]
    return ([1, r["major"], r["minor"], r["code"]] + vlib.enc_bytes(r["reason"])
            + vlib.enc_list(lambda f: vlib.enc_bytes(f[0]) + vlib.enc_bytes(f[1]), r["fields"])
            + vlib.enc_bytes(r["body"]) + vlib.enc_bytes(r["leftover"]) + vlib.enc_bool(r["sd"]))


def split_options(vals):
    out = []
    for v in vals:
        for o in ascii_lower(v).split(b","):
            out.append(o.strip(b" \t"))
    return out


def client_wants_close(major, minor, conn_values):
    opts = split_options([v.encode("latin-1") if isinstance(v, str) else v for v in conn_values])
    if b"close" in opts:
        return True
    return (major == 0 or (major == 1 and minor == 0)) and b"keep-alive" not in opts


def announces_keepalive(r):
    vals = [ascii_lower(v) for v in field_values(b"connection", r["fields"])]
    return b"keep-alive" in vals and b"close" not in vals


# ------------------------------------------------------------------------------------------------
# head lines (C09): split the head at CRLFs, no validation
# ------------------------------------------------------------------------------------------------

def head_lines(wire):
    """-> (list of lines before the first empty line, rest) or None when there is no CRLFCRLF"""
    i = wire.find(b"\r\n\r\n")
    if i < 0:
        return None
    return wire[:i].split(b"\r\n"), wire[i + 4:]
