"""Shared by harness/gen/gen_config.py and harness/props/c16.py: introspection of the settings table and
of the argparse parser that Config.parser() builds, Coq literals for raw values, and the canonical
encoding of validated values (mirrors Model/Config.v: raw, venc)."""
import os

# environment variables that feed built-in defaults (documented by gunicorn); both the table extractor and
# the harness run without them so that "built-in default" means the same thing on both sides
for _k in ("PORT", "WEB_CONCURRENCY", "GUNICORN_CMD_ARGS", "SENDFILE"):
    os.environ.pop(_k, None)

# defaults that depend on where the process runs: emitted as opaque tokens
ENV_DEPENDENT_DEFAULTS = ("chdir",)

OPAQUE_DEFAULT_BASE = 1000


class Cannot(Exception):
    """the extractor cannot interpret what it sees (fail closed)"""


# ---------------------------------------------------------------------------------------------------
# Coq literals
# ---------------------------------------------------------------------------------------------------
def coq_str(s):
    return "[" + ";".join(str(ord(c)) for c in s) + "]%N"


def coq_strs(l):
    return "[" + ";".join(coq_str(s) for s in l) + "]"


class Registry:
    """identity -> opaque tag"""

    def __init__(self):
        self.by_id = {}
        self.keep = []

    def add(self, obj, tag):
        self.by_id[id(obj)] = tag
        self.keep.append(obj)

    def tag(self, obj):
        return self.by_id.get(id(obj))


def is_plain_int(v):
    return isinstance(v, int) and not isinstance(v, bool)


def raw_kind(v):
    """how a Python object is represented as a Model.Config.raw"""
    if v is None:
        return "none"
    if isinstance(v, bool):
        return "bool"
    if is_plain_int(v):
        return "int"
    if isinstance(v, str):
        return "str"
    if isinstance(v, list) and all(isinstance(x, str) for x in v):
        return "strs"
    return "opaque"


def coq_raw(v, reg):
    k = raw_kind(v)
    if k == "none":
        return "RNone"
    if k == "bool":
        return "(RBool %s)" % ("true" if v else "false")
    if k == "int":
        n = int(v)
        return "(RInt %s)" % (("(%d)" % n) if n < 0 else str(n))
    if k == "str":
        return "(RStr %s)" % coq_str(v)
    if k == "strs":
        return "(RStrs %s)" % coq_strs(v)
    t = reg.tag(v)
    if t is None:
        raise Cannot("opaque object without a tag: %r" % (v,))
    return "(ROpaque %d)" % t


def raw_key(v, reg):
    """hashable identity of the raw literal (two objects with the same key are the same raw in the model)"""
    k = raw_kind(v)
    if k == "opaque":
        return ("opaque", reg.tag(v))
    if k == "strs":
        return ("strs", tuple(v))
    if k == "int":
        return ("int", int(v))
    return (k, v)


# ---------------------------------------------------------------------------------------------------
# canonical encoding of validated values (list of ints)
# ---------------------------------------------------------------------------------------------------
class Opaque(Exception):
    pass


def enc_py(v, reg, strict=False):
    if v is None:
        return [0]
    if isinstance(v, bool):
        return [1, 1 if v else 0]
    if isinstance(v, int):
        return [2, int(v)]
    if isinstance(v, str):
        return [3, len(v)] + [ord(c) for c in v]
    if isinstance(v, (list, tuple)):
        t = reg.tag(v) if reg is not None else None
        if t is not None:
            return [9, t]
        out = [4 if isinstance(v, list) else 5, len(v)]
        for x in v:
            out += enc_py(x, reg, strict)
        return out
    t = reg.tag(v) if reg is not None else None
    if t is None:
        if strict:
            raise Opaque()
        return [9, -1]
    return [9, t]


# ---------------------------------------------------------------------------------------------------
# introspection
# ---------------------------------------------------------------------------------------------------
def settings_info():
    """One dict per class in KNOWN_SETTINGS (in that order) + parser facts.  Raises Cannot."""
    import argparse
    import gunicorn.config as gc

    known = [s for s in gc.KNOWN_SETTINGS]
    names = [s.name for s in known]
    cfgobj = gc.Config.__new__(gc.Config)          # Config.parser() only needs .settings/.usage/.prog
    # build the Setting instances without running validators (make_settings would validate defaults)
    insts = {}
    for s in known:
        o = s.__new__(s)
        insts[s.name] = o
    object.__setattr__(cfgobj, "settings", insts)
    object.__setattr__(cfgobj, "usage", None)
    object.__setattr__(cfgobj, "prog", "gunicorn")
    parser = cfgobj.parser()
    if parser.prefix_chars != "-" or not parser.allow_abbrev or parser.fromfile_prefix_chars is not None:
        raise Cannot("parser prefix_chars/allow_abbrev/fromfile_prefix_chars changed")
    if parser._mutually_exclusive_groups or parser._defaults or parser._has_negative_number_optionals:
        raise Cannot("parser has mutually exclusive groups / set_defaults / negative-number-like options")
    by_dest = {}
    extra_flags = []
    for a in parser._actions:
        if isinstance(a, (argparse._HelpAction, argparse._VersionAction)):
            if a.nargs != 0:
                raise Cannot("help/version action with arguments")
            extra_flags += list(a.option_strings)
            continue
        if a.dest == "args":
            if a.option_strings or a.nargs != "*" or a.default is not None or a.type is not None:
                raise Cannot("positional 'args' is not nargs='*' any more")
            continue
        if a.dest not in names:
            raise Cannot("parser action with dest %r is not a setting" % a.dest)
        if a.dest in by_dest:
            raise Cannot("two parser actions with dest %r" % a.dest)
        by_dest[a.dest] = a
    if "args" not in [a.dest for a in parser._actions]:
        raise Cannot("no positional 'args'")
    rows = []
    for idx, s in enumerate(known):
        a = by_dest.get(s.name)
        row = {"idx": idx, "name": s.name, "cls": s, "flags": [], "action": "AStore", "type": "TStr",
               "const": None, "argdefault": None, "default": s.default, "validator": s.validator}
        if not isinstance(s.name, str) or not s.name:
            raise Cannot("setting without a name")
        if a is not None:
            if a.choices is not None or a.required:
                raise Cannot("%s: choices/required" % s.name)
            if not a.option_strings:
                raise Cannot("%s: positional setting" % s.name)
            row["flags"] = list(a.option_strings)
            row["argdefault"] = a.default
            if a.default is argparse.SUPPRESS:
                raise Cannot("%s: default=SUPPRESS" % s.name)
            if type(a) is argparse._StoreAction:
                row["action"] = "AStore"
                if a.nargs is not None:
                    raise Cannot("%s: nargs=%r is not modelled" % (s.name, a.nargs))
                t = a.type
                if t is None or t is str:
                    row["type"] = "TStr"
                elif t is int:
                    row["type"] = "TInt"
                elif getattr(t, "__func__", t) is gc.auto_int:
                    row["type"] = "TAutoInt"
                else:
                    raise Cannot("%s: argparse type %r is not modelled" % (s.name, t))
                row["typefn"] = (lambda t: (lambda x: x) if t is None else t)(t)
            elif isinstance(a, argparse._StoreConstAction):     # incl. store_true / store_false
                row["action"] = "AStoreConst"
                row["const"] = a.const
                if a.nargs != 0:
                    raise Cannot("%s: const action with nargs" % s.name)
            elif type(a) is argparse._AppendAction:
                row["action"] = "AAppend"
                if a.nargs is not None or a.type not in (None, str):
                    raise Cannot("%s: append with nargs/type" % s.name)
            else:
                raise Cannot("%s: argparse action %s is not modelled" % (s.name, type(a).__name__))
        rows.append(row)
    return {"rows": rows, "extra_flags": extra_flags, "module": gc}


def default_registry(rows):
    """tags for class defaults that cannot be written as plain raw values"""
    reg = Registry()
    for r in rows:
        d = r["default"]
        if raw_kind(d) == "opaque":
            reg.add(d, OPAQUE_DEFAULT_BASE + r["idx"])
    return reg


def default_raw_literal(row, reg):
    if row["name"] in ENV_DEPENDENT_DEFAULTS and row["default"] is not None:
        return "(ROpaque %d)" % (OPAQUE_DEFAULT_BASE + row["idx"])
    return coq_raw(row["default"], reg)


def validated_default(row):
    """('ok', value) / ('raise', exc) -- Setting.__init__: if self.default is not None: self.set(self.default)"""
    d = row["default"]
    if d is None:
        return ("ok", None)
    try:
        return ("ok", row["validator"](d))
    except BaseException as e:     # noqa
        return ("raise", e)


def canon_default_enc(row, val, reg):
    """canonical encoding of the validated built-in default"""
    if row["name"] in ENV_DEPENDENT_DEFAULTS and row["default"] is not None:
        return [9, OPAQUE_DEFAULT_BASE + row["idx"]]
    try:
        return enc_py(val, None, strict=True)
    except Opaque:
        return [9, OPAQUE_DEFAULT_BASE + row["idx"]]


def add_option_default_literal_is_none(gc):
    """AST fact: the kwargs dict built in Setting.add_option contains the literal  "default": None"""
    import ast
    import inspect
    import textwrap
    src = textwrap.dedent(inspect.getsource(gc.Setting.add_option))
    tree = ast.parse(src)
    found = []
    for node in ast.walk(tree):
        if isinstance(node, ast.Dict):
            for k, v in zip(node.keys, node.values):
                if isinstance(k, ast.Constant) and k.value == "default":
                    found.append(isinstance(v, ast.Constant) and v.value is None)
        # kwargs["default"] = ...  anywhere else counts as "not the literal"
        if isinstance(node, ast.Assign):
            for t in node.targets:
                if isinstance(t, ast.Subscript) and isinstance(t.slice, ast.Constant) and t.slice.value == "default":
                    found.append(False)
    return bool(found) and all(found)
