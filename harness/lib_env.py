"""Shared by the environment-family checks (C08, C15).

 * drivers: the real handle() of SyncWorker, ThreadWorker and a minimal AsyncWorker subclass serving one
   connection over socket.socketpair(); the peer address is whatever is passed to handle(), so any
   tuple or a unix-socket peer ('' str) can be simulated; environ captured inside the app
 * encoders of the canonical observation, mirrored by Model/Environ.v (enc_robs)
 * Coq literals of a case for Model.Environ.conn_obs
 * REFERENCE: a Python twin of Spec/EnvSpec.v plus the trust rules of C08 written from the property
   text and the settings documentation, *not* from gunicorn's code
"""
import collections
import contextlib
import os
import re
import socket
import urllib.parse

import vlib

OBS_KEYS = ("REQUEST_METHOD", "QUERY_STRING", "RAW_URI", "SERVER_PROTOCOL", "CONTENT_TYPE", "CONTENT_LENGTH",
            "wsgi.url_scheme", "REMOTE_ADDR", "REMOTE_PORT", "PATH_INFO", "SCRIPT_NAME",
            "PROXY_PROTOCOL", "PROXY_ADDR", "PROXY_PORT")

CFG_DEFAULTS = {
    "forwarded_allow_ips": "127.0.0.1,::1",
    "forwarder_headers": "SCRIPT_NAME,PATH_INFO",
    "secure_scheme_headers": {"X-FORWARDED-PROTOCOL": "ssl", "X-FORWARDED-PROTO": "https", "X-FORWARDED-SSL": "on"},
    "header_map": "drop",
    "proxy_protocol": False,
    "proxy_allow_ips": "127.0.0.1,::1",
    "is_ssl": False,
    "strip_header_spaces": False,
    "permit_obsolete_folding": False,
    "casefold_http_method": False,
    "permit_unconventional_http_method": False,
    "permit_unconventional_http_version": False,
    "limit_request_line": 4094,
    "limit_request_fields": 100,
    "limit_request_field_size": 8190,
    "keepalive": 2,
    "os_script_name": "",
}


def full_cfg(d):
    c = dict(CFG_DEFAULTS)
    c.update(d)
    return c


class _Log:
    def __getattr__(self, n):
        return lambda *a, **k: None


class _Listener:
    def getsockname(self):
        return ("10.9.9.9", 8000)


_state = {}


def _setup():
    if _state:
        return _state
    import gunicorn.config
    import gunicorn.sock
    from gunicorn.workers.sync import SyncWorker
    from gunicorn.workers.gthread import ThreadWorker, TConn
    from gunicorn.workers.base_async import AsyncWorker

    # TLS is not under test: with certfile set (cfg.is_ssl) the workers get the plain socket back
    gunicorn.sock.ssl_wrap_socket = lambda s, cfg: s

    class MiniAsync(AsyncWorker):
        def timeout_ctx(self):
            return contextlib.nullcontext()

    base = gunicorn.config.Config()
    _state.update(cfgmod=gunicorn.config, TConn=TConn, cfgs={}, workers={},
                  classes={"sync": SyncWorker, "gthread": ThreadWorker, "async": MiniAsync}, base=base)
    return _state


def real_cfg(cfgd):
    st = _setup()
    key = repr(sorted((k, repr(v)) for k, v in cfgd.items()))
    c = st["cfgs"].get(key)
    if c is None:
        c = st["cfgmod"].Config()
        for k, v in cfgd.items():
            if k == "is_ssl":
                if v:
                    c.set("certfile", "/nonexistent/cert.pem")
            elif k == "os_script_name":
                pass
            else:
                c.set(k, vlib.respell_setting(k, v, key))
        st["cfgs"][key] = c
    return c


def _worker(kind, cfg):
    st = _setup()
    w = st["workers"].get(kind)
    if w is None:
        w = st["classes"][kind](0, os.getpid(), [], None, 30, st["base"], _Log())
        w.alive = True
        if kind == "gthread":
            w._keep = collections.deque()
        st["workers"][kind] = w
    w.cfg = cfg
    w.nr = 0
    w.alive = True
    return w


def parse_wire(out):
    """Status codes of the responses on the wire, in order."""
    codes = []
    pos = 0
    while pos < len(out):
        m = re.match(rb"HTTP/\d\.\d (\d{3}) [^\r\n]*\r\n", out[pos:])
        if not m:
            codes.append(-1)
            break
        end = out.find(b"\r\n\r\n", pos)
        if end < 0:
            codes.append(-2)
            break
        head = out[pos:end]
        cl = re.search(rb"\r\nContent-Length: (\d+)", head)
        codes.append(int(m.group(1)))
        pos = end + 4 + (int(cl.group(1)) if cl else 0)
    return codes


def run_conn(kind, cfgd, peer, data):
    """Serve one connection carrying `data` with the real handle() of the worker class.
    Returns (envs, error_statuses): the environs the application saw, in order, and the status codes
    of the non-200 responses on the wire."""
    st = _setup()
    cfgd = full_cfg(cfgd)
    cfg = real_cfg(cfgd)
    envs = []

    def app(environ, start_response):
        envs.append({k: v for k, v in environ.items() if k in OBS_KEYS or k.startswith("HTTP_")})
        start_response("200 OK", [("Content-Length", "2")])
        return [b"ok"]
    saved = os.environ.get("SCRIPT_NAME")
    if cfgd["os_script_name"]:
        os.environ["SCRIPT_NAME"] = cfgd["os_script_name"]
    else:
        os.environ.pop("SCRIPT_NAME", None)
    a, b = socket.socketpair()
    try:
        b.sendall(data)
        b.shutdown(socket.SHUT_WR)
        w = _worker(kind, cfg)
        w.wsgi = app
        if kind == "gthread":
            conn = st["TConn"](cfg, a, peer, ("10.9.9.9", 8000))
            for _ in range(64):
                conn.init()
                ka, _c = w.handle(conn)
                if not ka:
                    break
            conn.close()
        else:
            w.handle(_Listener(), a, peer)
        out = b""
        b.settimeout(5)
        try:
            while True:
                d = b.recv(65536)
                if not d:
                    break
                out += d
        except (ConnectionResetError, socket.timeout):
            pass
    finally:
        b.close()
        with contextlib.suppress(OSError):
            a.close()
        if saved is None:
            os.environ.pop("SCRIPT_NAME", None)
        else:
            os.environ["SCRIPT_NAME"] = saved
    codes = [c for c in parse_wire(out) if c != 100]
    return envs, [c for c in codes if c != 200], codes


# ---- canonical observation -----------------------------------------------------------------------

KEY_CODES = {k: -(i + 1) for i, k in enumerate(
    ["REQUEST_METHOD", "QUERY_STRING", "RAW_URI", "SERVER_PROTOCOL", "CONTENT_TYPE", "CONTENT_LENGTH", "wsgi.url_scheme",
     "REMOTE_ADDR", "REMOTE_PORT", "PATH_INFO", "SCRIPT_NAME", "PROXY_PROTOCOL", "PROXY_ADDR", "PROXY_PORT"])}


def enc_env(env):
    out = [len(env)]
    for k in sorted(env):
        v = env[k]
        if not isinstance(v, str):
            v = repr(v)
        out += ([KEY_CODES[k]] if k in KEY_CODES else vlib.enc_codepoints(k)) + vlib.enc_codepoints(v)
    return out


def enc_conn(envs, errs):
    out = []
    for e in envs:
        out += [1] + enc_env(e)
    for s in errs:
        out += [2, s]
    return out


def same_obs(model, impl):
    """Model output may end with the marker 7 (a chunked request on a connection that stays open is
    not followed further): compare up to it."""
    model = list(model)
    impl = list(impl)
    if model and model[-1] == 7 and len(model) >= 1:
        # the marker can only be the last element produced by enc_robs RUnmodelled
        k = len(model) - 1
        return model[:k] == impl[:k]
    return model == impl


# ---- Coq literals -----------------------------------------------------------------------------------

HEADER = """From Coq Require Import List NArith ZArith.
From GV Require Import Base.Enc Model.EnvStr Model.Environ Spec.EnvSpec.
Import ListNotations.
Open Scope Z_scope.
"""

B = vlib.coq_bytes


def coq_strs(xs):
    return "[" + ";".join(B(x) + "%N" for x in xs) + "]"


def coq_cfg(cfgd):
    cfgd = full_cfg(cfgd)
    c = real_cfg(cfgd)
    # (the canonical word of the case, not what the running Config made of its - possibly non-canonical - spelling)
    hm = {"drop": "Drop", "refuse": "Refuse", "dangerous": "Dangerous"}[cfgd["header_map"]]
    ssh = "[" + ";".join("(%s%%N,%s%%N)" % (B(k), B(v)) for k, v in c.secure_scheme_headers.items()) + "]"
    return ("{| forwarded_allow_ips := %s; forwarder_headers := %s; secure_scheme_headers := %s; header_map := %s; "
            "proxy_protocol := %s; proxy_allow_ips := %s; is_ssl := %s; strip_header_spaces := %s; "
            "permit_obsolete_folding := %s; casefold_http_method := %s; permit_unconventional_http_method := %s; "
            "permit_unconventional_http_version := %s; limit_request_line := %d; limit_request_fields := %d; "
            "limit_request_field_size := %d; keepalive := %d%%N; os_script_name := %s%%N |}" % (
                coq_strs(c.forwarded_allow_ips), coq_strs(c.forwarder_headers), ssh, hm,
                vlib.coq_bool(c.proxy_protocol), coq_strs(c.proxy_allow_ips), vlib.coq_bool(bool(c.is_ssl)),
                vlib.coq_bool(c.strip_header_spaces), vlib.coq_bool(c.permit_obsolete_folding),
                vlib.coq_bool(c.casefold_http_method), vlib.coq_bool(c.permit_unconventional_http_method),
                vlib.coq_bool(c.permit_unconventional_http_version), c.limit_request_line, c.limit_request_fields,
                c.limit_request_field_size, c.keepalive, B(cfgd["os_script_name"])))


def coq_peer(peer):
    if isinstance(peer, tuple):
        return "(PTuple %s%%N %d%%N)" % (B(peer[0]), peer[1])
    return "(PStr %s%%N)" % B(peer)


WORKER = {"sync": "WSync", "gthread": "WThread", "async": "WAsync"}


def _inet(fam, s):
    """'ok' / 'err' (OSError) / 'crash' (any other exception) of the real socket.inet_pton."""
    try:
        socket.inet_pton(fam, s)
        return "ok"
    except OSError:
        return "err"
    except Exception:
        return "crash"


def _inet_ok(fam, s):
    return _inet(fam, s) == "ok"


def netloc_rejected(netloc):
    """Does urllib.parse refuse this netloc (brackets / IPvFuture / NFKC)?  Asked of the library itself."""
    try:
        urllib.parse.urlsplit("x://" + netloc)
        return False
    except ValueError:
        return True


def world_tables(data):
    """The finite tables standing for socket.inet_pton and urlsplit's netloc validation on the strings
    that occur in this connection."""
    ok4, ok6, crash, bad = [], [], [], []
    for line in data.split(b"\r\n"):
        toks = line.split(b" ")
        if line.startswith(b"PROXY"):
            for t in toks[2:4]:
                s = t.decode("latin-1")
                r4, r6 = _inet(socket.AF_INET, s), _inet(socket.AF_INET6, s)
                if r4 == "ok" and t not in ok4:
                    ok4.append(t)
                if r6 == "ok" and t not in ok6:
                    ok6.append(t)
                if "crash" in (r4, r6) and t not in crash:
                    if r4 != r6:
                        raise RuntimeError("inet_pton raises a non-OSError for one family only: %r" % t)
                    crash.append(t)
        if len(toks) >= 2:
            for cand in netloc_candidates(toks[1]):
                if cand and cand not in bad and netloc_rejected(cand.decode("latin-1")):
                    bad.append(cand)
    return ok4, ok6, crash, bad


def netloc_candidates(target):
    out = []
    i = target.find(b"//")
    while i >= 0:
        rest = target[i + 2:]
        m = re.match(rb"[^/?#]*", rest)
        out.append(m.group(0))
        # urlsplit also removes TAB/CR/LF first (trees without the request-target check)
        out.append(re.sub(rb"[\t\r\n]", b"", m.group(0)))
        i = target.find(b"//", i + 1)
        if len(out) > 8:
            break
    return out


def model_expr(kind, cfgd, peer, data, cfg_name=None):
    ok4, ok6, crash, bad = world_tables(data)
    return "conn_obs %s %s %s %s %s %s %s %s%%N" % (coq_strs(ok4), coq_strs(ok6), coq_strs(crash), coq_strs(bad), cfg_name or coq_cfg(cfgd),
                                                 WORKER[kind], coq_peer(peer), B(data))


# ---- REFERENCE (twin of Spec/EnvSpec.v + the trust rules of the property) -----------------------------

_SCHEME = re.compile(rb"([A-Za-z][A-Za-z0-9+.\-]*):")


def ref_split_target(t):
    """RFC 3986 generic syntax; a target that begins with '//' is an origin-form absolute-path whose
    first segment is empty (RFC 9112 3.2.1), not a network-path reference."""
    scheme = authority = None
    rest = t
    if not t.startswith(b"//"):
        m = _SCHEME.match(t)
        if m:
            scheme = m.group(1)
            rest = t[m.end():]
            if rest.startswith(b"//"):
                m2 = re.match(rb"[^/?#]*", rest[2:])
                authority = m2.group(0)
                rest = rest[2 + m2.end():]
    m = re.match(rb"([^?#]*)(?:\?([^#]*))?(?:#(.*))?$", rest, re.S)
    return scheme, authority, m.group(1), m.group(2) or b"", m.group(3) or b""


_HEX = b"0123456789abcdefABCDEF"


def ref_pct_decode(p):
    """'%' HEXDIG HEXDIG -> that byte; every other byte (a stray '%' included) stands for itself."""
    out = bytearray()
    i = 0
    while i < len(p):
        if p[i] == 37 and i + 2 < len(p) and p[i + 1] in _HEX and p[i + 2] in _HEX:
            out.append(int(p[i + 1:i + 3], 16))
            i += 3
        else:
            out.append(p[i])
            i += 1
    return bytes(out)


def ref_parse_request(raw):
    """raw: one HTTP request head (no PROXY line).  None when it is not `line CRLF *(field CRLF) CRLF`."""
    head, sep, _rest = raw.partition(b"\r\n\r\n")
    if not sep:
        return None
    lines = head.split(b"\r\n")
    parts = lines[0].split(b" ", 2)         # method SP target SP everything else
    if len(parts) != 3:
        return None
    fields = []
    for ln in lines[1:]:
        name, colon, val = ln.partition(b":")
        if not colon:
            return None
        fields.append((name, val.strip(b" \t")))
    return parts[0], parts[1], parts[2], fields


def ascii_upper(b):
    return bytes(c - 32 if 97 <= c <= 122 else c for c in b)


def ref_trusted(allow, peer):
    return "*" in allow or not isinstance(peer, tuple) or peer[0] in allow


def ref_presented(cfgd, peer, uname):
    """Is a field with this (upper-cased) name mapped into the environ?  None = the request must be refused."""
    if b"_" not in uname:
        return True
    full = full_cfg(cfgd)
    c = real_cfg(full)
    if ref_trusted(c.forwarded_allow_ips, peer) and (uname.decode("latin-1") in c.forwarder_headers or "*" in c.forwarder_headers):
        return True
    if full["header_map"] == "dangerous":
        return True
    if full["header_map"] == "drop":
        return False
    return None


def ref_env(cfgd, peer, raw, proxy_decl):
    """Reference environ of one accepted request.  proxy_decl: (addr, port) declared by a valid PROXY
    line at the start of this connection from an allowed peer with proxy_protocol on, else None.
    Returns (env, must_refuse_reason)."""
    cfgd = full_cfg(cfgd)
    c = real_cfg(cfgd)
    pr = ref_parse_request(raw)
    if pr is None:
        return None, "unparsable"
    method, target, proto, fields = pr
    scheme, authority, path, query, fragment = ref_split_target(target)
    env = {"REQUEST_METHOD": method, "RAW_URI": target, "SERVER_PROTOCOL": proto, "QUERY_STRING": query}
    trusted = ref_trusted(c.forwarded_allow_ips, peer)
    refuse = None
    # header fields -> variables
    groups = collections.OrderedDict()
    script_name = cfgd["os_script_name"].encode("latin-1")
    script_from_header = False
    for name, val in fields:
        un = ascii_upper(name)
        pres = ref_presented(cfgd, peer, un)
        if pres is None:
            refuse = "header-map refuse: %r" % name
            continue
        if not pres:
            continue
        if un == b"CONTENT-TYPE":
            groups.setdefault(b"CONTENT_TYPE", []).append(val)
        elif un == b"CONTENT-LENGTH":
            groups.setdefault(b"CONTENT_LENGTH", []).append(val)
        else:
            groups.setdefault(b"HTTP_" + un.replace(b"-", b"_"), []).append(val)
        if un == b"SCRIPT_NAME" and trusted:
            # a presented forwarder header: only a trusted front end may move the script name
            script_name = val
            script_from_header = True
    for k, vals in groups.items():
        env[k.decode("latin-1")] = b",".join(vals)
    # scheme: only a trusted front end can assert it
    base = b"https" if cfgd["is_ssl"] else b"http"
    sch = base
    if trusted:
        votes = []
        for name, val in fields:
            un = ascii_upper(name).decode("latin-1")
            if un in c.secure_scheme_headers:
                votes.append(val == c.secure_scheme_headers[un].encode("latin-1"))
        if votes:
            if len(set(votes)) > 1:
                refuse = "conflicting scheme headers"
            sch = b"https" if votes[0] else b"http"
    env["wsgi.url_scheme"] = sch
    # client address
    if proxy_decl is not None:
        env["REMOTE_ADDR"], env["REMOTE_PORT"] = proxy_decl
    elif isinstance(peer, tuple):
        env["REMOTE_ADDR"], env["REMOTE_PORT"] = peer[0].encode("latin-1"), str(peer[1]).encode()
    else:
        env["REMOTE_ADDR"] = peer.encode("latin-1")
    # path: SCRIPT_NAME is the configured (or legitimately forwarded) one and SCRIPT_NAME + PATH_INFO is the
    # percent-decoded path, one latin-1 character per octet (judged by ref_path_check)
    env["SCRIPT_NAME"] = script_name
    env["_RAW_PATH"] = path
    env["_DECODED_PATH"] = ref_pct_decode(path)
    return {k: (v.decode("latin-1") if isinstance(v, bytes) else v) for k, v in env.items()}, refuse


def ref_path_check(env, exp):
    """None when SCRIPT_NAME / PATH_INFO of the observed environ are what the reference demands."""
    sn = exp["SCRIPT_NAME"]
    if env.get("SCRIPT_NAME") != sn:
        return "SCRIPT_NAME = %r, reference %r" % (env.get("SCRIPT_NAME"), sn)
    pi = env.get("PATH_INFO")
    if pi is None:
        return "PATH_INFO missing"
    if "%" not in sn:
        if sn + pi != exp["_DECODED_PATH"]:
            return "SCRIPT_NAME + PATH_INFO = %r, reference (decoded path) %r" % (sn + pi, exp["_DECODED_PATH"])
    else:
        raw = exp["_RAW_PATH"]
        if not raw.startswith(sn) or pi != ref_pct_decode(raw[len(sn):].encode("latin-1")).decode("latin-1"):
            return "PATH_INFO = %r does not continue SCRIPT_NAME %r in %r" % (pi, sn, raw)
    return None


_PORT = re.compile(rb"(0|[1-9][0-9]{0,4})$")


def ref_proxy_line(line):
    """Strictly valid PROXY protocol v1 line (haproxy spec) -> (addr, port) of the client, else None."""
    t = line.split(b" ")
    if len(t) != 6 or t[0] != b"PROXY" or t[1] not in (b"TCP4", b"TCP6"):
        return None
    fam = socket.AF_INET if t[1] == b"TCP4" else socket.AF_INET6
    for a in t[2:4]:
        if not re.fullmatch(rb"[0-9A-Fa-f:.]+", a) or not _inet_ok(fam, a.decode("latin-1")):
            return None
    for p in t[4:6]:
        if not _PORT.match(p) or int(p) > 65535:
            return None
    return t[2], str(int(t[4])).encode()


def ref_proxy_allowed(cfgd, peer):
    c = real_cfg(full_cfg(cfgd))
    return bool(c.proxy_protocol) and ("*" in c.proxy_allow_ips or not isinstance(peer, tuple) or peer[0] in c.proxy_allow_ips)


def split_requests(data):
    """Cut a generated connection into (proxy_line or None, [request heads]) at CRLFCRLF boundaries.
    Only meaningful for bodies-free streams, which is what the generators of this family produce
    (requests with a body are placed last)."""
    proxy = None
    if data.startswith(b"PROXY"):
        i = data.find(b"\r\n")
        if i >= 0:
            proxy, data = data[:i], data[i + 2:]
    reqs = []
    while data:
        i = data.find(b"\r\n\r\n")
        if i < 0:
            break
        reqs.append(data[:i + 4])
        data = data[i + 4:]
    return proxy, reqs


# ---- running a batch of connections: implementation, model (Coq), comparison ------------------------------

def run_cases(ctx, tag, cases, shard=250):
    """cases: list of dicts {kind, cfg, peer, data}.  Runs the real workers, then the model inside Coq.
    Adds to each case: envs, errs, codes, obs.  Returns the list of indices where model and
    implementation disagree (None when the model could not be evaluated)."""
    for c in cases:
        c["envs"], c["errs"], c["codes"] = run_conn(c["kind"], c["cfg"], c["peer"], c["data"])
        c["obs"] = enc_conn(c["envs"], c["errs"])
    ctx.log("%s: %d connections served by the real workers" % (tag, len(cases)))
    # the comparison itself is done by the kernel (obs_agree): only a verdict is printed when they agree.
    # Cases are grouped by settings so that each file defines the few cfg records it needs once.
    order = sorted(range(len(cases)), key=lambda i: repr(sorted(cases[i]["cfg"].items())))
    nb = max(1, min(4 * vlib.NCPU, len(cases) // 40))
    size = (len(cases) + nb - 1) // nb
    batches = [order[i:i + size] for i in range(0, len(order), size)]
    res = [None] * len(cases)

    def run_batch(bi):
        idxs = batches[bi]
        names = {}
        defs = []
        exprs = []
        for i in idxs:
            c = cases[i]
            key = repr(sorted(c["cfg"].items()))
            if key not in names:
                names[key] = "cfg_%d" % len(names)
                defs.append("Definition %s : cfg := %s." % (names[key], coq_cfg(c["cfg"])))
            exprs.append("agree_or_show (%s) %s" % (model_expr(c["kind"], c["cfg"], c["peer"], c["data"], names[key]),
                                                    vlib.coq_listZ(c["obs"])))
        out = ctx.coq_eval("%s%d" % (tag, bi), HEADER + "\n".join(defs) + "\n", exprs, shard=len(exprs) + 1)
        return idxs, out
    try:
        from concurrent.futures import ThreadPoolExecutor
        with ThreadPoolExecutor(vlib.NCPU) as ex:
            for idxs, out in ex.map(run_batch, range(len(batches))):
                for i, r in zip(idxs, out):
                    res[i] = r
        ctx.log("%s: model evaluated and compared by coqc (vm_compute), %d files" % (tag, len(batches)))
    except vlib.BrokenTie as e:
        ctx.broken.append("correspondence %s: %s" % (tag, str(e)[:1500]))
        ctx.log("CORRESPONDENCE BROKEN:", str(e)[:1500])
        return None
    bad = []
    for i, (m, c) in enumerate(zip(res, cases)):
        if m == [1]:
            c["model"] = c["obs"]
            continue
        c["model"] = m[1:]
        bad.append(i)
    ctx.cov["traces_validated_against_impl"] += len(cases) - len(bad)
    return bad


def case_json(c):
    peer = list(c["peer"]) if isinstance(c["peer"], tuple) else c["peer"]
    return {"kind": c["kind"], "cfg": c["cfg"], "peer": peer, "data": c["data"].decode("latin-1")}


def case_from_json(j):
    peer = tuple(j["peer"]) if isinstance(j["peer"], list) else j["peer"]
    return {"kind": j["kind"], "cfg": j["cfg"], "peer": peer, "data": j["data"].encode("latin-1")}


def shrink_case(case, fails_fn):
    """Remove header lines (never request lines or a PROXY line) while the same kind of failure remains."""
    lines = case["data"].split(b"\r\n")
    removable = [i for i, ln in enumerate(lines)
                 if b":" in ln.split(b" ")[0] + b"" and not ln.startswith(b"PROXY") and not re.match(rb"[!-~]+ [^ ]+ HTTP/\d\.\d$", ln)]
    if len(removable) < 2:
        return case

    def build(keep):
        ks = set(keep)
        return dict(case, data=b"\r\n".join(ln for i, ln in enumerate(lines) if i not in removable or i in ks))

    def still(keep):
        try:
            return bool(fails_fn(build(keep)))
        except Exception:
            return False
    keep = vlib.shrink_list(removable, still, max_steps=60)
    small = build(keep)
    try:
        return small if fails_fn(small) else case
    except Exception:
        return case
