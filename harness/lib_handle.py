"""Shared driver of the connection-handling family (C05, C18, C19).

Runs the real SyncWorker.handle, ThreadWorker.accept/on_client_socket_readable/handle/finish_request and a
minimal AsyncWorker subclass in-process, one connection at a time, and records everything observable in
one ordered trace:
   ("head", summary) / ("praise", cls_id, exc) / ("pnone",)      outcome of next(parser)   (real RequestParser, or scripted)
   ("app",)                                                       application entered
   ("access", status, sent, lines)                                Logger.access call + the lines the real logger produced
   ("send100"|"sendall"|"sendfile"|"shutdown"|"close", data, fault)   socket operations on the client socket
   ("keep",)                                                      gthread parked the connection
Nothing in /repo is edited: sockets, the parser class, the logger and the thread pool are substituted from here.
"""
import errno
import importlib.util
import io
import logging
import os
import selectors
import socket
import ssl
import sys
import tempfile
import threading
from concurrent import futures
from pathlib import Path

import vlib

_spec = importlib.util.spec_from_file_location("gen_errors", str(Path(__file__).parent / "gen" / "gen_errors.py"))
gen_errors = importlib.util.module_from_spec(_spec)
_spec.loader.exec_module(gen_errors)

FAULT_ERRNO = {1: errno.EPIPE, 2: errno.ECONNRESET, 3: errno.ENOTCONN, 4: errno.EIO}
FAULT_NAME = {0: "FOk", 1: "(FErr EPIPE)", 2: "(FErr ECONNRESET)", 3: "(FErr ENOTCONN)", 4: "(FErr EOTHER)"}


def errno_code(e):
    n = getattr(e, "errno", None)
    if n == errno.EPIPE:
        return 1
    if n == errno.ECONNRESET:
        return 2
    if n == errno.ENOTCONN:
        return 3
    return 4


_CLASSES = None


def table_classes():
    global _CLASSES
    if _CLASSES is None:
        _CLASSES = gen_errors.classes()
    return _CLASSES


def cls_id(exc_or_cls):
    c = exc_or_cls if isinstance(exc_or_cls, type) else type(exc_or_cls)
    tab = table_classes()
    for k in c.__mro__:
        if k in tab:
            return tab.index(k)
    raise RuntimeError("no table class for %r" % c)


def cls_name(i):
    return table_classes()[i].__name__


def cls_by_name(n):
    for c in table_classes():
        if c.__name__ == n:
            return c
    raise KeyError(n)


SAFETY_TIMEOUT = 3.0


class KATimeout(BaseException):
    """Stands for gevent.Timeout(keepalive, False): raised inside next(parser), swallowed by timeout_ctx."""


def build_exc(spec):
    """spec = (class name, text, has_req, ssl_eof) -> an instance whose str() is `text`."""
    name, text, has_req, ssl_eof = spec
    base = cls_by_name(name)
    sub = type(base.__name__, (base,), {"__str__": lambda self: text, "__init__": lambda self, *a, **k: None})
    e = sub.__new__(sub)
    if issubclass(base, OSError):
        e.errno = None
    if issubclass(base, ssl.SSLError):
        e.args = (ssl.SSL_ERROR_EOF if ssl_eof else 1, text)
    elif ssl_eof:
        e.args = (ssl.SSL_ERROR_EOF,)
    if has_req:
        e.req = FakeReq()
    return e


def exc_spec(e):
    """real exception -> (class id, text, has_req, ssl_eof)"""
    try:
        text = str(e)
    except Exception:
        text = ""
    has_req = getattr(e, "req", None) is not None
    a = getattr(e, "args", ())
    eof = bool(a) and a[0] == ssl.SSL_ERROR_EOF and isinstance(e, ssl.SSLError)
    return (cls_id(e), text, has_req, eof)


class FakeReq:
    method = "GET"
    uri = "/adopted"
    query = ""
    fragment = ""
    path = "/adopted"
    version = (1, 1)
    headers = []
    body = None
    scheme = "http"
    proxy_protocol_info = None

    def should_close(self):
        return True


# --------------------------------------------------------------------------------------------------
# sockets
# --------------------------------------------------------------------------------------------------
class Spinning(BaseException):
    """the code under test reads an ended stream over and over: on a real socket it would spin for ever"""


class TSock:
    """Client socket handed to the worker.  Either purely scripted (real=None: recv from `segs`, writes
    captured) or a recording proxy around a real socket.  `faults` = list of fault codes consumed by the
    send-type operations in order (0 = perform the operation)."""

    def __init__(self, trace, segs=None, faults=None, real=None):
        self.trace = trace
        self.segs = list(segs or [])
        self.faults = list(faults or [])
        self.real = real
        self.wire = b""            # bytes that were (or, scripted: would have been) delivered
        self.closed = 0
        self.blocking = True
        self._pair = None

    # ---- plumbing the workers touch
    def fileno(self):
        if self.real is not None:
            return self.real.fileno()
        if self._pair is None:
            a, b = socket.socketpair()
            b.close()              # a is readable forever (EOF)
            self._pair = a
        return self._pair.fileno()

    def setblocking(self, b):
        self.blocking = bool(b)
        if self.real is not None and self.real.fileno() >= 0:
            # a blocking real socket gets a safety timeout: the harness never leaves a client silent
            self.real.settimeout(SAFETY_TIMEOUT if b else 0.0)

    def gettimeout(self):
        return None if self.blocking else 0.0

    def getpeername(self):
        return ("10.0.0.1", 4321)

    def getsockname(self):
        return ("127.0.0.1", 8000)

    def dispose(self):
        if self._pair is not None:
            self._pair.close()
            self._pair = None
        if self.real is not None:
            try:
                self.real.close()
            except OSError:
                pass

    # ---- input
    def recv(self, n):
        if self.real is not None:
            return self.real.recv(n)
        if not self.segs:
            # the stream has ended; a reader that asks again and again will never get anything else
            self.eof_reads = getattr(self, "eof_reads", 0) + 1
            if self.eof_reads > 5000:
                self.trace.append(("stuck", "recv", self.eof_reads))
                raise Spinning("recv() called %d times on a stream that has ended" % self.eof_reads)
            return b""
        s = self.segs[0]
        if isinstance(s, tuple):
            self.segs.pop(0)
            if s[0] == "err":
                raise OSError(FAULT_ERRNO[s[1]], "scripted recv fault")
            if s[0] == "timeout":
                raise KATimeout()
            raise RuntimeError("bad recv script")
        if len(s) <= n:
            self.segs.pop(0)
            return s
        self.segs[0] = s[n:]
        return s[:n]

    # ---- output
    def _op(self, kind, data, fn):
        f = self.faults.pop(0) if self.faults else 0
        if f:
            self.trace.append((kind, data, f))
            raise OSError(FAULT_ERRNO[f], "scripted fault")
        if self.real is not None:
            try:
                r = fn()
            except OSError as e:
                self.trace.append((kind, data, errno_code(e)))
                raise
            self.trace.append((kind, data, 0))
            return r
        self.trace.append((kind, data, 0))
        return None

    def sendall(self, data):
        data = bytes(data)
        self._op("sendall", data, lambda: self.real.sendall(data))
        self.wire += data

    def send(self, data):
        data = bytes(data)
        self._op("send100", data, lambda: self.real.sendall(data))
        self.wire += data
        return len(data)

    def sendfile(self, file, offset=0, count=None):
        pos = file.tell()
        file.seek(offset)
        data = file.read() if count is None else file.read(count)
        file.seek(pos)

        def do():
            self.real.sendall(data)
        self._op("sendfile", data, do)
        self.wire += data
        return len(data)

    def shutdown(self, how):
        self._op("shutdown", b"", lambda: self.real.shutdown(how))

    def close(self):
        self.closed += 1
        self._op("close", b"", lambda: self.real.close())


class FakeListener:
    def __init__(self, sock=None, addr=None):
        self.sock, self.addr = sock, addr

    def getsockname(self):
        return ("127.0.0.1", 8000)

    def accept(self):
        return self.sock, self.addr


# --------------------------------------------------------------------------------------------------
# the world of one worker object
# --------------------------------------------------------------------------------------------------
class SyncExecutor:
    def submit(self, fn, *args):
        f = futures.Future()
        f.set_running_or_notify_cancel()
        try:
            r = fn(*args)
        except BaseException as e:     # what concurrent.futures.thread._WorkItem.run does
            f.set_exception(e)
        else:
            f.set_result(r)
        return f

    def shutdown(self, wait=True):
        pass


class NullCtx:
    def __enter__(self):
        return self

    def __exit__(self, t, v, tb):
        return t is not None and issubclass(t, KATimeout)


FIXED_NOW = "[01/Oct/2026:00:00:00 +0000]"


class World:
    """One worker object of the given kind with recording logger / parser / app."""

    def __init__(self, kind, max_requests=0, jitter=0, jitter_pick=0, keepalive=2, sendfile=True,
                 worker_connections=1000, threads=1, access_fmt=None, fixed_time=False, extra=None):
        import gunicorn.config
        import gunicorn.glogging
        import gunicorn.http
        import gunicorn.http.wsgi
        import gunicorn.workers.base as wbase
        from gunicorn.workers.sync import SyncWorker
        from gunicorn.workers.gthread import ThreadWorker
        from gunicorn.workers.base_async import AsyncWorker
        self.kind = kind
        self.trace = []
        self.lines = []
        self.app_calls = 0
        self.apps = []                  # scripts still to be used
        self.eff_apps = []              # effective scripts, one per application call
        self.pscript = {}               # k -> ("raise", spec) | ("none",) : overrides of the k-th next(parser)
        self.pcount = 0
        self.environs = []
        world = self
        cfg = gunicorn.config.Config()
        cfg.set("accesslog", "-")
        cfg.set("max_requests", max_requests)
        cfg.set("max_requests_jitter", jitter)
        cfg.set("keepalive", keepalive)
        cfg.set("worker_connections", worker_connections)
        cfg.set("threads", threads)
        if sendfile is False:
            cfg.set("sendfile", False)
        if access_fmt is not None:
            cfg.set("access_log_format", access_fmt)
        for k, v in (extra or {}).items():
            cfg.set(k, v)
        self.cfg = cfg

        class RecLogger(gunicorn.glogging.Logger):
            def now(self):
                return FIXED_NOW if fixed_time else super().now()

            def access(self, resp, req, environ, request_time):
                n0 = len(world.lines)
                if fixed_time:
                    import datetime
                    request_time = datetime.timedelta(seconds=1, microseconds=234567)
                world.last_access_args = (resp, req, environ)
                super().access(resp, req, environ, request_time)
                world.trace.append(("access", resp.status, getattr(resp, "sent", None), world.lines[n0:]))

        log = RecLogger(cfg)

        class Cap(logging.Handler):
            # logging.getLogger("gunicorn.access") is one object for all Logger instances: the (single) active
            # handler reports to the world that is serving right now
            def emit(self, rec):
                (CURRENT or world).lines.append(self.format(rec))
        h = Cap()
        h.setFormatter(logging.Formatter("%(message)s"))
        log.access_log.handlers = [h]
        log.access_log.propagate = False
        log.error_log.handlers = [logging.NullHandler()]
        log.error_log.propagate = False
        self.log = log

        saved_randint = wbase.randint
        wbase.randint = lambda a, b: min(b, max(a, jitter_pick))
        try:
            if kind == "sync":
                self.w = SyncWorker(1, os.getppid(), [], None, 30, cfg, log)
            elif kind == "gthread":
                self.w = ThreadWorker(1, os.getppid(), [], None, 30, cfg, log)
                self.w.tpool = SyncExecutor()
                self.w.poller = selectors.DefaultSelector()
                self.w._lock = threading.RLock()
            else:
                class MiniAsync(AsyncWorker):
                    def timeout_ctx(self):
                        return NullCtx()
                self.w = MiniAsync(1, os.getppid(), [], None, 30, cfg, log)
        finally:
            wbase.randint = saved_randint
        self.w.wsgi = self.wsgi_app
        self.tmpfiles = []
        self.last_access_args = None

    def begin(self, apps=(), pscript=None):
        """reset the per-connection recording"""
        self.trace = []
        self.lines = []
        self.app_calls = 0
        self.apps = list(apps)
        self.eff_apps = []
        self.pscript = dict(pscript or {})
        self.pcount = 0
        self.environs = []
        for f in self.tmpfiles:
            f.close()
        self.tmpfiles = []
        w = self.w
        return (w.nr, w.alive, getattr(w, "nr_conns", 0))

    # ---- the application
    def wsgi_app(self, environ, start_response):
        self.app_calls += 1
        self.trace.append(("app",))
        self.environs.append(environ)
        script = self.apps.pop(0) if self.apps else {"acts": [("start", 200, 0)], "file": None}
        eff = {"acts": [], "file": script.get("file")}
        self.eff_apps.append(eff)
        st = {"write": None}
        world = self

        def do(a, phase_b):
            """returns bytes to yield (phase B) or None"""
            if a[0] == "start":
                hdrs = [("X-A", "b")]
                if a[2] is not None:
                    hdrs.append(("Content-Length", str(a[2])))
                eff["acts"].append(a)
                st["write"] = start_response("%d %s" % (a[1], "Reason" if len(a) < 4 else a[3]), hdrs)
            elif a[0] == "write":
                eff["acts"].append(a)
                if phase_b:
                    return a[1]
                st["write"](a[1])
            elif a[0] == "raise":
                eff["acts"].append(a)
                raise build_exc(a[1])
            elif a[0] == "read":
                try:
                    environ["wsgi.input"].read()
                except BaseException as e:
                    c, text, has_req, eof = exc_spec(e)
                    eff["acts"].append(("raise", (cls_name(c), text, has_req, eof)))
                    raise
            elif a[0] == "start_exc":
                # the PEP 3333 error idiom: start_response(status, headers, exc_info) from inside an except block.  Oracle-only
                # act (Model/Handle.v has no exc_info): never part of a case that is sent to the model.
                try:
                    raise ValueError("late failure of the application")
                except ValueError:
                    st["write"] = start_response("%d Late" % a[1], [("X-A", "b")], sys.exc_info())
            elif a[0] == "hook":
                a[1]()
            return None

        acts = list(script["acts"])
        while acts:
            a = acts.pop(0)
            if a[0] == "return":
                eff["acts"].append(a)
                break
            do(a, False)
        if script.get("file") is not None:
            content, offset, blk, fileno_ok = script["file"]
            if fileno_ok:
                f = tempfile.TemporaryFile()
                f.write(content)
                f.flush()
                self.tmpfiles.append(f)
            else:
                f = io.BytesIO(content)
            f.seek(offset)
            self.trace.append(("appret",))          # the application call returned its iterable
            return environ["wsgi.file_wrapper"](f, blk)

        class It:
            def __iter__(self):
                return self

            def __next__(self):
                while acts:
                    a = acts.pop(0)
                    if a[0] == "return":
                        eff["acts"].append(a)
                        continue
                    r = do(a, True)
                    if r is not None:
                        return r
                raise StopIteration
        self.trace.append(("appret",))              # the application call returned its iterable
        return It()

    # ---- patching (global, shared by all worlds: see install_patches)
    def __enter__(self):
        install_patches()
        return self

    def __exit__(self, *a):
        for f in self.tmpfiles:
            f.close()
        self.tmpfiles = []
        try:
            self.w.tmp.close()
        except Exception:
            pass
        if self.kind == "gthread":
            try:
                self.w.poller.close()
            except Exception:
                pass

    # ---- one connection
    def serve(self, sock, addr=("10.0.0.1", 4321), max_rounds=64):
        """Serve one connection on the worker.  Returns the exception that escaped (or None)."""
        global CURRENT
        install_patches()
        CURRENT = self
        w = self.w
        escaped = None
        if self.kind in ("sync", "async"):
            try:
                w.handle(FakeListener(), sock, addr)
            except BaseException as e:
                escaped = e
            return escaped
        # gthread: accept(), then one dispatch per readable event while the connection is parked
        w.accept(("127.0.0.1", 8000), FakeListener(sock, addr))
        key = w.poller.get_key(sock)
        conn = key.data.args[0]
        self.last_conn = conn
        for _ in range(max_rounds):
            try:
                w.on_client_socket_readable(conn, conn.sock)
            except BaseException as e:
                escaped = e
                break
            if conn in w._keep:
                self.trace.append(("keep",))
                continue
            break
        else:
            raise RuntimeError("gthread connection did not end")
        return escaped


CURRENT = None          # the world whose worker is serving right now
_PATCH = {}


def install_patches():
    """Substitute gunicorn.http.RequestParser by a recording subclass and wrap gunicorn.http.wsgi.create,
    once; both report to the world that is currently serving."""
    if _PATCH:
        return
    import gunicorn.http
    import gunicorn.http.wsgi
    real_parser = gunicorn.http.RequestParser
    real_create = gunicorn.http.wsgi.create

    class RecParser(real_parser):
        def __next__(self):
            world = CURRENT
            k = world.pcount
            world.pcount += 1
            o = world.pscript.get(k)
            if o is not None:
                if o[0] == "none":
                    world.trace.append(("pnone",))
                    return None
                e = build_exc(o[1])
                world.trace.append(("praise", cls_id(e), exc_spec(e)))
                raise e
            try:
                req = super().__next__()
            except KATimeout:
                world.trace.append(("pnone",))
                raise
            except BaseException as e:
                world.trace.append(("praise", cls_id(e), exc_spec(e)))
                raise
            world.trace.append(("head", head_summary(req)))
            return req
        next = __next__

    def rec_create(req, sock, client, server, cfg_):
        world = CURRENT
        try:
            return real_create(req, sock, client, server, cfg_)
        except OSError:
            raise
        except BaseException as e:
            # wsgi.create itself refused the request (ConfigurationProblem)
            for i in range(len(world.trace) - 1, -1, -1):
                if world.trace[i][0] == "head":
                    world.trace[i][1]["create_exn"] = exc_spec(e)
                    break
            raise
    _PATCH["parser"] = real_parser
    _PATCH["create"] = real_create
    gunicorn.http.RequestParser = RecParser
    gunicorn.http.wsgi.create = rec_create


def remove_patches():
    if not _PATCH:
        return
    import gunicorn.http
    import gunicorn.http.wsgi
    gunicorn.http.RequestParser = _PATCH.pop("parser")
    gunicorn.http.wsgi.create = _PATCH.pop("create")


def head_summary(req):
    n = 0
    for k, v in req.headers:
        if k == "EXPECT" and v.lower() == "100-continue":
            n += 1
    return {"v10": req.version <= (1, 0), "head": req.method == "HEAD", "close": bool(req.should_close()),
            "expect": n, "create_exn": None}


# --------------------------------------------------------------------------------------------------
# observation of a trace (mirror of Model/Handle.v enc_ev / obs)
# --------------------------------------------------------------------------------------------------
def parse_head_send(data):
    """Response.send_headers output -> (code|None, close flag, chunked, clen|None); None if it is not one."""
    if not (data.startswith(b"HTTP/") and b"\r\nServer: " in data and data.endswith(b"\r\n\r\n")):
        return None
    lines = data[:-4].split(b"\r\n")
    parts = lines[0].split(b" ")
    try:
        code = int(parts[1])
    except (ValueError, IndexError):
        code = None
    conn = None
    chunked = False
    clen = None
    for l in lines[1:]:
        k, _, v = l.partition(b":")
        k = k.strip().lower()
        v = v.strip()
        if k == b"connection":
            conn = v.lower()
        elif k == b"transfer-encoding" and v.lower() == b"chunked":
            chunked = True
        elif k == b"content-length":
            try:
                clen = int(v)
            except ValueError:
                clen = -1
    close = {b"close": 1, b"keep-alive": 0}.get(conn, 2)
    return code, close, chunked, clen


def status_code_of(status):
    if status is None:
        return None
    try:
        return int(str(status).split(None, 1)[0])
    except (ValueError, IndexError):
        return -1


def enc_optint(x):
    return [0] if x is None else [1, int(x)]


def enc_trace(trace):
    out = []
    for e in trace:
        k = e[0]
        if k == "head":
            out += [10]
        elif k == "pnone":
            out += [11]
        elif k == "praise":
            out += [12, e[1]]
        elif k == "app":
            out += [13]
        elif k == "access":
            out += [14] + enc_optint(status_code_of(e[1])) + [int(e[2]) if e[2] is not None else -1]
        elif k == "send100":
            out += [20, e[2]]
        elif k == "sendall":
            hd = parse_head_send(e[1])
            if hd is not None:
                code, close, chunked, clen = hd
                out += [21, e[2]] + enc_optint(code) + [close, 1 if chunked else 0] + enc_optint(clen)
            else:
                out += [22, e[2]] + vlib.enc_bytes(e[1])
        elif k == "sendfile":
            out += [23, e[2]] + vlib.enc_bytes(e[1])
        elif k == "shutdown":
            out += [24, e[2]]
        elif k == "close":
            out += [25, e[2]]
        elif k == "keep":
            out += [26]
        elif k in ("appret", "stuck"):
            continue                       # markers for the oracles only (not events of Model/Handle.v)
        else:
            raise RuntimeError("unknown trace event %r" % (e,))
    return out


def impl_obs(world, escaped):
    w = world.w
    out = enc_trace(world.trace)
    out += [99] + ([0] if escaped is None else [1, cls_id(escaped)])
    out += [w.nr, 1 if w.alive else 0, getattr(w, "nr_conns", 0)]
    return out


# --------------------------------------------------------------------------------------------------
# the model side: Coq expression for what was run
# --------------------------------------------------------------------------------------------------
HEADER = """From Coq Require Import List NArith ZArith Bool.
From GV Require Import Base.Enc Base.Dec Gen.GenErrors Model.Handle.
Import ListNotations.
Open Scope Z_scope.
Definition X (c : ecls) (t : list N) (r e : bool) : exn := {| x_cls := c; x_text := t; x_req := r; x_ssl_eof := e |}.
Definition Hd (a b c : bool) (n : nat) (x : option exn) : pout :=
  PHead {| h_v10 := a; h_head := b; h_close := c; h_expect := n; h_create_exn := x |}.
Definition Ap (l : list act) (f : option file) : app := {| a_acts := l; a_file := f |}.
Definition Fl (d : list N) (b : positive) (k : bool) : file := {| f_avail := d; f_blk := b; f_fileno := k |}.
Definition Cf (m : N) (k s : bool) (mk : Z) : cfg := {| c_max := m; c_keepalive := k; c_sendfile := s; c_max_keepalived := mk |}.
Definition St (n : N) (a : bool) (k cn : Z) : wst := {| w_nr := n; w_alive := a; w_keep := k; w_conns := cn |}.
"""

WK = {"sync": "WSync", "gthread": "WGthread", "async": "WAsync"}


def coq_codepoints(s):
    return "[" + ";".join(str(ord(c)) for c in s) + "]%N"


def coq_exn(spec_by_id):
    c, text, has_req, eof = spec_by_id
    return "(X E_%s %s %s %s)" % (cls_name(c), coq_codepoints(text), vlib.coq_bool(has_req), vlib.coq_bool(eof))


def coq_exn_named(spec):
    name, text, has_req, eof = spec
    return "(X E_%s %s %s %s)" % (name, coq_codepoints(text), vlib.coq_bool(has_req), vlib.coq_bool(eof))


def coq_optN(x):
    return "None" if x is None else "(Some %d%%N)" % x


def coq_app(eff):
    acts = []
    for a in eff["acts"]:
        if a[0] == "start":
            acts.append("AStart %d%%N %s" % (a[1], coq_optN(a[2])))
        elif a[0] == "write":
            acts.append("AWrite %s%%N" % vlib.coq_bytes(a[1]))
        elif a[0] == "raise":
            acts.append("ARaise %s" % coq_exn_named(a[1]))
        elif a[0] == "return":
            acts.append("AReturn")
    fl = "None"
    if eff.get("file") is not None:
        content, offset, blk, fileno_ok = eff["file"]
        fl = "(Some (Fl %s%%N %d%%positive %s))" % (vlib.coq_bytes(content[offset:]), blk, vlib.coq_bool(fileno_ok))
    return "(Ap [%s] %s)" % ("; ".join(acts), fl)


def model_inputs(world):
    """parser outcomes, effective application scripts and socket-operation outcomes, as recorded"""
    ps, faults = [], []
    for e in world.trace:
        if e[0] == "head":
            s = e[1]
            ce = "None" if s["create_exn"] is None else "(Some %s)" % coq_exn(s["create_exn"])
            ps.append("Hd %s %s %s %d%%nat %s" % (vlib.coq_bool(s["v10"]), vlib.coq_bool(s["head"]), vlib.coq_bool(s["close"]),
                                               s["expect"], ce))
        elif e[0] == "praise":
            ps.append("PRaise %s" % coq_exn(e[2]))
        elif e[0] == "pnone":
            ps.append("PNone")
        elif e[0] in ("send100", "sendall", "sendfile", "shutdown", "close"):
            faults.append(FAULT_NAME[e[2]])
    apps = [coq_app(a) for a in world.eff_apps]
    return ps, apps, faults


def model_expr(world, st0, keep_len=0):
    """st0 = (nr, alive, nr_conns) before the connection"""
    w = world.w
    ps, apps, faults = model_inputs(world)
    cfg = "(Cf %d%%N %s %s %s)" % (w.max_requests, vlib.coq_bool(bool(world.cfg.keepalive)),
                                   vlib.coq_bool(world.cfg.sendfile is not False),
                                   vlib.coq_Z(world.cfg.worker_connections - world.cfg.threads))
    st = "(St %d%%N %s %s %s)" % (st0[0], vlib.coq_bool(st0[1]), vlib.coq_Z(keep_len), vlib.coq_Z(st0[2]))
    return "obs (connection %s %s %s [%s] [%s] [%s])" % (WK[world.kind], cfg, st, "; ".join(ps), "; ".join(apps), "; ".join(faults))


# --------------------------------------------------------------------------------------------------
# a strict HTTP/1.x response reader (the harness' own, independent of gunicorn and of the Coq model)
# --------------------------------------------------------------------------------------------------
import re as _re

_STATUS_RE = _re.compile(rb"HTTP/1\.[01] ([0-9]{3}) ([^\r\n]*)\r\n")
_FIELD_RE = _re.compile(rb"([!#$%&'*+\-.^_`|~0-9A-Za-z]+):[ \t]*([^\r\n]*?)[ \t]*\r\n")
_CHUNK_RE = _re.compile(rb"([0-9A-Fa-f]+)\r\n")


def read_response(buf, pos=0, head_req=False):
    """Read one response starting at buf[pos].  Returns a dict:
       ok (well-formed so far), complete (the whole message is there), end (offset after it),
       status, reason, fields [(lower name, value)], body (decoded), framing ("chunked"|"length"|"none"|"close"),
       why (text when not ok)."""
    r = {"ok": False, "complete": False, "end": pos, "status": None, "reason": None, "fields": [], "body": b"",
         "framing": None, "why": ""}
    m = _STATUS_RE.match(buf, pos)
    if not m:
        r["why"] = "bad or truncated status line"
        # a strict prefix of something that could become a status line is "truncated", not malformed
        r["truncated"] = b"\r\n" not in buf[pos:]
        return r
    r["status"] = int(m.group(1))
    r["reason"] = m.group(2)
    p = m.end()
    fields = []
    while True:
        if buf.startswith(b"\r\n", p):
            p += 2
            break
        fm = _FIELD_RE.match(buf, p)
        if not fm:
            r["why"] = "bad or truncated field line"
            r["truncated"] = b"\r\n" not in buf[p:]
            return r
        fields.append((fm.group(1).lower(), fm.group(2)))
        p = fm.end()
    r["fields"] = fields
    te = [v for k, v in fields if k == b"transfer-encoding"]
    cl = [v for k, v in fields if k == b"content-length"]
    st = r["status"]
    if te:
        if te != [b"chunked"] or cl:
            r["why"] = "bad transfer-encoding / content-length combination"
            return r
    if len(cl) > 1 or (cl and not cl[0].isdigit()):
        r["why"] = "bad content-length"
        return r
    r["ok"] = True
    if head_req or st < 200 or st in (204, 304):
        # no body; (gunicorn may still have written one for HEAD: that shows up as leftover)
        r["framing"] = "none"
        r["complete"] = True
        r["end"] = p
        return r
    if te:
        r["framing"] = "chunked"
        body = b""
        while True:
            cm = _CHUNK_RE.match(buf, p)
            if not cm:
                r["why"] = "truncated or bad chunk-size line"
                r["end"] = p
                r["body"] = body
                r["ok"] = (buf[p:p + 20].strip(b"0123456789abcdefABCDEF") in (b"", b"\r")) and b"\r\n" not in buf[p:]
                return r
            n = int(cm.group(1), 16)
            p = cm.end()
            if n == 0:
                if buf.startswith(b"\r\n", p):
                    r["complete"] = True
                    r["end"] = p + 2
                    r["body"] = body
                    return r
                r["why"] = "last chunk not followed by CRLF"
                r["ok"] = len(buf) - p < 2 and b"\r\n".startswith(buf[p:])
                r["end"] = p
                r["body"] = body
                return r
            if len(buf) < p + n + 2:
                r["why"] = "truncated chunk"
                r["body"] = body + buf[p:p + n]
                r["end"] = len(buf)
                return r
            if buf[p + n:p + n + 2] != b"\r\n":
                r["ok"] = False
                r["why"] = "chunk data not followed by CRLF"
                return r
            body += buf[p:p + n]
            p += n + 2
    if cl:
        n = int(cl[0])
        r["framing"] = "length"
        r["body"] = buf[p:p + n]
        r["end"] = min(len(buf), p + n)
        r["complete"] = len(buf) >= p + n
        if not r["complete"]:
            r["why"] = "body shorter than Content-Length"
        return r
    r["framing"] = "close"
    r["body"] = buf[p:]
    r["end"] = len(buf)
    r["complete"] = True          # delimited by the close; the caller knows whether the server closed
    return r


def says_close(r):
    return [v.lower() for k, v in r["fields"] if k == b"connection"] == [b"close"]


def is_error_page(r):
    """gunicorn's own error response (util.write_error) carries no Server header"""
    return not any(k == b"server" for k, v in r["fields"])


def split_wire(wire, head_flags):
    """Parse the whole wire into responses.  head_flags[i] tells whether the i-th dispatched request was a HEAD.
    Returns (responses, leftover_bytes)."""
    out = []
    pos = 0
    i = 0
    while pos < len(wire):
        hr = head_flags[i] if i < len(head_flags) else False
        r = read_response(wire, pos, hr)
        if not (r["ok"] and r["complete"]):
            # gunicorn's error page may follow where a HEAD response was expected
            if hr:
                r2 = read_response(wire, pos, False)
                if r2["ok"] and r2["complete"] and is_error_page(r2):
                    r = r2
                else:
                    return out, wire[pos:], r
            else:
                return out, wire[pos:], r
        if r["ok"] and r["complete"] and hr and is_error_page(r) and r["framing"] == "none":
            r = read_response(wire, pos, False)
        out.append(r)
        pos = r["end"]
        if not (100 <= r["status"] < 200):
            i += 1
    return out, b"", None


# --------------------------------------------------------------------------------------------------
# real socket pairs
# --------------------------------------------------------------------------------------------------
def unix_pair():
    a, b = socket.socketpair()
    return a, b


def tcp_pair():
    ls = socket.socket()
    ls.bind(("127.0.0.1", 0))
    ls.listen(1)
    c = socket.create_connection(ls.getsockname())
    s, _ = ls.accept()
    ls.close()
    return s, c


def client_end(c, how):
    """end the client side: half-close, close, or reset (SO_LINGER 0)"""
    import struct
    try:
        if how == "shut":
            c.shutdown(socket.SHUT_WR)
        elif how == "close":
            c.close()
        elif how == "rst":
            c.setsockopt(socket.SOL_SOCKET, socket.SO_LINGER, struct.pack("ii", 1, 0))
            c.close()
    except OSError:
        pass


def drain_client(c, limit=1 << 20):
    """what the client can still read; b'' when it is closed already"""
    if c.fileno() < 0:
        return b""
    out = b""
    c.settimeout(1.0)
    try:
        while len(out) < limit:
            d = c.recv(65536)
            if not d:
                break
            out += d
    except OSError:
        pass
    return out
