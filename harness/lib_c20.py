"""Process-level helpers of the C20 check (worker identity).

Everything that touches process credentials runs in a forked child of the harness (the harness itself
stays root and never changes identity).  A child reports one JSON document through a pipe and then
waits, so that the parent can read /proc/<pid>/status of the still-living child - the observation
point the property names - before it lets the child exit.
"""
import ctypes
import errno
import grp
import json
import os
import pwd
import select
import shutil
import signal
import socket
import stat
import subprocess
import sys
import tempfile
import time
import traceback

import vlib

# the python installation of this sandbox lives under /root (0700): a process that has dropped privileges
# cannot import anything new, so everything the children need is imported here, as root
import pprint  # noqa: F401  (gevent's hub configuration imports it lazily)
import email.utils  # noqa: F401
import gunicorn.config  # noqa: F401
import gunicorn.sock  # noqa: F401
import gunicorn.util  # noqa: F401
import gunicorn.workers.gthread  # noqa: F401
import gunicorn.workers.sync  # noqa: F401

# the real system calls, whatever a worker class monkey-patches later in a child
_close, _read, _write, _exit = os.close, os.read, os.write, os._exit

MS_BIND = 4096
MS_REC = 16384
MS_PRIVATE = 1 << 18

# additional memberships of the group database that a child may see in a private mount namespace
# (nothing on the system is changed: the file is bind-mounted over /etc/group inside the child's own
# mount namespace and disappears with the child)
FAKE_MEMBERS = {"adm": ["nobody", "www-data"], "cdrom": ["nobody"], "disk": ["root"], "audio": ["daemon", "nobody"]}

EXC_CODES = {"PermissionError": 1, "UnboundLocalError": 2, "ConfigError": 3}


def scratch_dir(prefix):
    """A directory that a process running as `nobody` can reach (every ancestor o+x)."""
    base = vlib.VERIF / ".build" / "scratch"
    base.mkdir(parents=True, exist_ok=True)
    ok = True
    p = base
    while True:
        try:
            if not (os.stat(p).st_mode & 0o001):
                ok = False
                break
        except OSError:
            ok = False
            break
        if p == p.parent:
            break
        p = p.parent
    d = tempfile.mkdtemp(prefix=prefix, dir=str(base) if ok else None)
    os.chmod(d, 0o755)
    return d


def proc_status(pid):
    """Uid/Gid (real, effective, saved, fs) and Groups of a live process, from /proc/<pid>/status."""
    out = {}
    with open("/proc/%d/status" % pid) as fh:
        for line in fh:
            k, _, v = line.partition(":")
            if k in ("Uid", "Gid", "Groups", "PPid", "State"):
                out[k] = v.split()
    if out.get("State", ["?"])[0] == "Z":
        raise ProcessLookupError(pid)
    return {"uid": [int(x) for x in out["Uid"]], "gid": [int(x) for x in out["Gid"]],
            "groups": sorted(set(int(x) for x in out.get("Groups", []))), "ppid": int(out["PPid"][0])}


def creds_of_status(st):
    """[ruid, euid, suid, rgid, egid, sgid, groups...] ; fsuid/fsgid must follow the effective ids."""
    return {"uids": st["uid"][:3], "gids": st["gid"][:3], "groups": st["groups"],
            "fs_follow": st["uid"][3] == st["uid"][1] and st["gid"][3] == st["gid"][1]}


def self_creds():
    return {"uids": list(os.getresuid()), "gids": list(os.getresgid()), "groups": sorted(set(os.getgroups()))}


# ---------------------------------------------------------------------------------------------
# group database
# ---------------------------------------------------------------------------------------------

def fake_group_text():
    lines = []
    with open("/etc/group") as fh:
        for line in fh.read().splitlines():
            parts = line.split(":")
            if len(parts) >= 4 and parts[0] in FAKE_MEMBERS:
                have = [m for m in parts[3].split(",") if m]
                for m in FAKE_MEMBERS[parts[0]]:
                    if m not in have:
                        have.append(m)
                parts[3] = ",".join(have)
            lines.append(":".join(parts))
    return "\n".join(lines) + "\n"


def parse_group_text(text):
    """-> list of (group name, gid, [members])"""
    out = []
    for line in text.splitlines():
        parts = line.split(":")
        if len(parts) >= 4 and parts[2].isdigit():
            out.append((parts[0], int(parts[2]), [m for m in parts[3].split(",") if m]))
    return out


def enter_fake_group_db(text):
    """Child only: private mount namespace in which /etc/group has the given content."""
    libc = ctypes.CDLL(None, use_errno=True)
    os.unshare(os.CLONE_NEWNS)
    if libc.mount(b"none", b"/", None, MS_REC | MS_PRIVATE, None) != 0:
        raise OSError(ctypes.get_errno(), "mount --make-rprivate /")
    base = vlib.VERIF / ".build" / "scratch"
    base.mkdir(parents=True, exist_ok=True)
    fd, name = tempfile.mkstemp(prefix="c20-group-", dir=str(base))
    try:
        os.write(fd, text.encode())
        os.fchmod(fd, 0o644)
        os.close(fd)
        if libc.mount(name.encode(), b"/etc/group", None, MS_BIND, None) != 0:
            raise OSError(ctypes.get_errno(), "bind mount over /etc/group")
    finally:
        os.unlink(name)


class UserDB:
    """The passwd/group contents as the harness sees them (system files, or system passwd + the fake
    group file), with stable small identifiers for names (the model works on identifiers)."""

    def __init__(self, fake):
        self.fake = fake
        self.pw = [(p.pw_uid, p.pw_name) for p in pwd.getpwall()]
        if fake:
            self.gr = parse_group_text(fake_group_text())
        else:
            self.gr = [(g.gr_name, g.gr_gid, list(g.gr_mem)) for g in grp.getgrall()]
        self.unames = {}
        for _, n in self.pw:
            self.unames.setdefault(n, len(self.unames))
        self.gnames = {}
        for n, _, _ in self.gr:
            self.gnames.setdefault(n, len(self.gnames))

    def uname_id(self, n):
        return self.unames.get(n, 900000 + (sum(n.encode()) % 1000))

    def gname_id(self, n):
        return self.gnames.get(n, 900000 + (sum(n.encode()) % 1000))

    def name_of_uid(self, uid):
        for u, n in self.pw:
            if u == uid:
                return n
        return None

    def uid_of_name(self, n):
        for u, m in self.pw:
            if m == n:
                return u
        return None

    def gid_of_name(self, n):
        for m, g, _ in self.gr:
            if m == n:
                return g
        return None

    def memberships(self, uname):
        return sorted(set(g for _, g, mem in self.gr if uname in mem))

    def coq(self):
        seen = set()
        pw = []
        for u, n in self.pw:
            pw.append("(%s, %d%%N)" % (vlib.coq_Z(u), self.unames[n]))
        gr = []
        for n, g, _ in self.gr:
            if n in seen:
                continue
            seen.add(n)
            gr.append("(%d%%N, %s)" % (self.gnames[n], vlib.coq_Z(g)))
        mem = []
        for n in self.unames:
            ms = self.memberships(n)
            if ms:
                mem.append("(%d%%N, %s)" % (self.unames[n], vlib.coq_listZ(ms)))
        return "{| t_pw := %s; t_gr := %s; t_mem := %s |}" % (vlib.coq_list(pw), vlib.coq_list(gr), vlib.coq_list(mem))


# ---------------------------------------------------------------------------------------------
# running something in a child
# ---------------------------------------------------------------------------------------------

class ChildFailure(Exception):
    pass


class Child:
    """fork; the child calls fn(finish) and must end by calling finish(result_dict), which reports, waits
    for the parent to look at /proc/<pid>/status, and exits."""

    def __init__(self, fn, timeout=40):
        r1, w1 = os.pipe()      # child -> parent: result
        r2, w2 = os.pipe()      # parent -> child: you may exit
        sys.stdout.flush()
        sys.stderr.flush()
        pid = os.fork()
        if pid == 0:
            try:
                _close(r1)
                _close(w2)
                signal.alarm(timeout + 10)
                devnull = os.open(os.devnull, os.O_WRONLY)
                os.dup2(devnull, 1)
                os.dup2(devnull, 2)

                def finish(res):
                    try:
                        _write(w1, json.dumps(res).encode())
                        _close(w1)
                        _read(r2, 1)
                    finally:
                        _exit(0)
                try:
                    fn(finish)
                    finish({"harness_error": "child function returned without reporting"})
                except SystemExit as e:
                    finish({"harness_error": "SystemExit(%r) escaped" % (e.code,)})
                except BaseException:
                    finish({"harness_error": traceback.format_exc()[-3000:]})
            finally:
                _exit(70)
        os.close(w1)
        os.close(r2)
        self.pid, self.r1, self.w2 = pid, r1, w2
        self.buf = b""
        self.deadline = time.time() + timeout
        self.timeout = timeout
        self.eof = False
        self.closed = False

    def feed(self):
        chunk = os.read(self.r1, 65536)
        if not chunk:
            self.eof = True
        self.buf += chunk

    def result(self):
        """-> (result, /proc status) or raises ChildFailure; always reaps the child."""
        try:
            if not self.eof:
                raise ChildFailure("child did not report within %ss" % self.timeout)
            if not self.buf:
                raise ChildFailure("child exited without a report")
            res = json.loads(self.buf.decode())
            if "harness_error" in res:
                raise ChildFailure(res["harness_error"])
            try:
                st = proc_status(self.pid)
            except (OSError, KeyError) as e:
                raise ChildFailure("cannot read /proc/%d/status: %r" % (self.pid, e))
            return res, st
        finally:
            self.close()

    def close(self):
        if self.closed:
            return
        self.closed = True
        os.close(self.r1)
        os.close(self.w2)
        try:
            os.kill(self.pid, signal.SIGKILL)
        except OSError:
            pass
        try:
            os.waitpid(self.pid, 0)
        except OSError:
            pass


def run_children(jobs, parallel=None):
    """jobs: list of (fn, timeout).  Runs them in forked children, several at a time.
    Returns a list of (result, status) or ChildFailure instances, in order."""
    parallel = parallel or max(2, min(12, (os.cpu_count() or 4)))
    out = [None] * len(jobs)
    running = {}
    nxt = 0
    while nxt < len(jobs) or running:
        while nxt < len(jobs) and len(running) < parallel:
            c = Child(jobs[nxt][0], jobs[nxt][1])
            running[c.r1] = (nxt, c)
            nxt += 1
        now = time.time()
        wait = max(0.0, min(c.deadline for _, c in running.values()) - now)
        rd, _, _ = select.select(list(running), [], [], min(wait, 1.0))
        for fd in rd:
            i, c = running[fd]
            c.feed()
        now = time.time()
        for fd in list(running):
            i, c = running[fd]
            if c.eof or now > c.deadline:
                del running[fd]
                try:
                    out[i] = c.result()
                except ChildFailure as e:
                    out[i] = e
    return out


def run_child(fn, timeout=40):
    r = run_children([(fn, timeout)], parallel=1)[0]
    if isinstance(r, ChildFailure):
        raise r
    return r


def become_master(master, fake_text):
    """Child: take the identity of the `master` of this cell (only ever called in a root child)."""
    if fake_text is not None:
        enter_fake_group_db(fake_text)
    os.setgroups(master["groups"])
    os.setresgid(*master["gids"])
    os.setresuid(*master["uids"])


def exc_name(e):
    return type(e).__name__


class NullLog:
    def __getattr__(self, name):
        return lambda *a, **k: None


def apply_spelling(cfg, key, sp, plain_root):
    """sp: None | ["int", n] | ["str", s]"""
    if sp is None:
        if not plain_root:
            cfg.set(key, None)       # what importing gunicorn.config in this master would have computed
        return
    cfg.set(key, sp[1] if sp[0] == "str" else int(sp[1]))


def is_plain_root(master):
    return master["uids"] == [0, 0, 0] and master["gids"] == [0, 0, 0]


# ---- level 1: Config + set_owner_process ----------------------------------------------------

def child_identity(cell, fake_text):
    def fn(finish):
        become_master(cell["master"], fake_text if cell["fake"] else None)
        from gunicorn import util
        from gunicorn.config import Config
        res = "ok"
        try:
            if cell["level"] == "config":
                cfg = Config()
                plain = is_plain_root(cell["master"])
                apply_spelling(cfg, "user", cell["user"], plain)
                apply_spelling(cfg, "group", cell["group"], plain)
                cfg.set("initgroups", cell["ig"])
                uid, gid, ig = cfg.uid, cfg.gid, cfg.initgroups
            else:
                uid, gid, ig = cell["uid"], cell["gid"], cell["ig"]
            util.set_owner_process(uid, gid, initgroups=ig)
        except Exception as e:
            res = exc_name(e)
        finish({"res": res, "self": self_creds()})
    return fn


# ---- level 2: a worker object run through the real init_process ---------------------------------

WORKER_CLASSES = ["sync", "gthread", "gevent", "eventlet"]


def child_worker(cell, fake_text):
    def fn(finish):
        become_master(cell["master"], fake_text if cell["fake"] else None)
        from gunicorn import util
        from gunicorn.config import Config
        events = []
        cfg = Config()
        cfg.set("worker_class", cell["worker_class"])
        if cell["worker_class"] == "gthread":
            cfg.set("threads", 2)
        plain = is_plain_root(cell["master"])
        apply_spelling(cfg, "user", cell["user"], plain)
        apply_spelling(cfg, "group", cell["group"], plain)
        cfg.set("initgroups", cell["ig"])
        cfg.set("umask", cell["umask"])
        cfg.set("reload", cell["reload"])
        cfg.set("worker_tmp_dir", cell.get("tmpdir"))
        real_sop = util.set_owner_process

        def sop(*a, **k):
            try:
                r = real_sop(*a, **k)
            except BaseException as e:
                events.append([2, EXC_CODES.get(exc_name(e), 9)])
                raise
            events.append([1])
            return r
        util.set_owner_process = sop

        class App:
            def wsgi(self):
                events.append([3, self_creds()])
                return lambda environ, start_response: []
        wc = cfg.worker_class
        worker = wc(1, os.getppid(), [], App(), 30, cfg, NullLog())
        st = os.fstat(worker.tmp.fileno())
        tmp = [st.st_uid, st.st_gid, stat.S_IMODE(st.st_mode)]

        def done(err=None):
            finish({"events": events, "tmp": tmp, "self": self_creds(), "err": err})

        def run():
            try:
                worker.notify()
            except PermissionError:
                events.append([4, 0])
                done()
            events.append([4, 1])
            events.append([3, self_creds()])
            done()
        worker.run = run
        try:
            worker.init_process()
        except SystemExit:
            raise
        except Exception as e:
            done(exc_name(e))
        done("init_process returned")
    return fn


# ---- level 3: the unix socket -------------------------------------------------------------------

def child_socket(cell, fake_text):
    def fn(finish):
        become_master(cell["master"], fake_text if cell["fake"] else None)
        from gunicorn import util, sock
        from gunicorn.config import Config
        cfg = Config()
        plain = is_plain_root(cell["master"])
        apply_spelling(cfg, "user", cell["user"], plain)
        apply_spelling(cfg, "group", cell["group"], plain)
        cfg.set("initgroups", cell["ig"])
        cfg.set("umask", cell["umask"])
        path = os.path.join(cell["dir"], "s%d.sock" % os.getpid())
        cfg.set("bind", ["unix:" + path])
        out = {}
        try:
            listeners = sock.create_sockets(cfg, NullLog())
        except Exception as e:
            finish({"bind": exc_name(e)})
        try:
            st = os.stat(path)
            out["file"] = [st.st_uid, st.st_gid, stat.S_IMODE(st.st_mode)]
            try:
                util.set_owner_process(cfg.uid, cfg.gid, initgroups=cfg.initgroups)
                c = socket.socket(socket.AF_UNIX, socket.SOCK_STREAM)
                try:
                    c.connect(path)
                    out["connect"] = 1
                except PermissionError:
                    out["connect"] = 0
                finally:
                    c.close()
                # ... and the worker can accept on the inherited descriptor
                if out["connect"]:
                    listeners[0].sock.settimeout(2)
                    a, _ = listeners[0].sock.accept()
                    a.close()
            except Exception as e:
                out["drop"] = exc_name(e)
            out["self"] = self_creds()
        finally:
            pass
        finish(out)
    return fn


def cleanup_sockets(d):
    for f in os.listdir(d):
        if f.endswith(".sock"):
            try:
                os.unlink(os.path.join(d, f))
            except OSError:
                pass


# ---------------------------------------------------------------------------------------------
# level 4: a real server
# ---------------------------------------------------------------------------------------------

APP_PY = r'''
import json, os
def _ids():
    return {"pid": os.getpid(), "uids": list(os.getresuid()), "gids": list(os.getresgid()),
            "groups": sorted(set(os.getgroups()))}
def _note(kind):
    try:
        with open(os.path.join(os.environ["C20_IDS_DIR"], "%s-%d.json" % (kind, os.getpid())), "w") as fh:
            json.dump(_ids(), fh)
    except Exception:
        pass
_note("load")           # application code at import time = Worker.load_wsgi
def app(environ, start_response):
    b = json.dumps(_ids()).encode()
    start_response("200 OK", [("Content-Type", "application/json"), ("Content-Length", str(len(b)))])
    return [b]
'''

CONF_PY = r'''
# executed by the master (root); modules the application needs are imported here because the python
# installation of this sandbox lives under /root (0700) and is unreadable after the drop
import json, os, socket, errno, select, encodings.idna, traceback
%(preimport)s
user = %(user)r
group = %(group)r
initgroups = %(ig)r
umask = %(umask)r
workers = %(workers)r
worker_class = %(worker_class)r
threads = %(threads)r
timeout = %(timeout)r
graceful_timeout = 2
bind = ["unix:" + %(sock)r]
pidfile = %(pidfile)r
raw_env = ["C20_IDS_DIR=" + %(ids)r]
errorlog = %(errorlog)r
loglevel = "info"
'''


def proc_children(pid):
    try:
        with open("/proc/%d/task/%d/children" % (pid, pid)) as fh:
            return [int(x) for x in fh.read().split()]
    except OSError:
        return []


def proc_starttime(pid):
    try:
        with open("/proc/%d/stat" % pid) as fh:
            data = fh.read()
        rest = data[data.rindex(")") + 2:].split()
        return int(rest[19])
    except (OSError, ValueError, IndexError):
        return None


class Server:
    """A real gunicorn server (python -m gunicorn from $VERIF_REPO) started as root."""

    def __init__(self, conf, master_groups=None, fake_text=None):
        self.conf = dict(conf)
        self.fake_text = fake_text
        self.dir = scratch_dir("c20-srv-")
        self.ids = os.path.join(self.dir, "ids")
        os.mkdir(self.ids)
        os.chmod(self.ids, 0o1777)
        self.sock = os.path.join(self.dir, "g.sock")
        self.pidfile = os.path.join(self.dir, "pid")
        self.errorlog = os.path.join(self.dir, "error.log")
        # via == "cwdfile": the configuration is the implicit ./gunicorn.conf.py of the start directory and names another
        # directory as `chdir` - where the application lives; every reload must find that file again
        self.appdir = self.dir
        if self.conf.get("via") == "cwdfile":
            self.appdir = os.path.join(self.dir, "appdir")
            os.mkdir(self.appdir)
            os.chmod(self.appdir, 0o755)
        with open(os.path.join(self.appdir, "c20app.py"), "w") as fh:
            fh.write(APP_PY)
        # started through a launcher script, not `python -m gunicorn`: on USR2 the arbiter re-executes
        # sys.argv, and `python /repo/gunicorn/__main__.py` would put gunicorn/ itself first on sys.path
        # (its `http` package then shadows the standard library's)
        with open(os.path.join(self.dir, "c20run.py"), "w") as fh:
            fh.write("import sys\nfrom gunicorn.app.wsgiapp import run\nsys.exit(run())\n")
        self.write_conf()
        self.table = []           # pids in order of creation; index = the model's process index
        self.masters = []         # pids that are masters
        self.master_groups = master_groups
        self.proc = None

    def write_conf(self):
        c = self.conf
        pre = ""
        if c.get("worker_class") in ("gevent", "eventlet"):
            pre = "import gunicorn.workers.g%s" % ("gevent" if c["worker_class"] == "gevent" else "eventlet")
        txt = CONF_PY % {
            "preimport": pre, "user": c.get("user"), "group": c.get("group"), "ig": bool(c.get("ig")),
            "umask": c.get("umask", 0), "workers": c.get("workers", 2), "worker_class": c.get("worker_class", "sync"),
            "threads": 2 if c.get("worker_class") == "gthread" else 1, "timeout": c.get("timeout", 2),
            "sock": self.sock, "pidfile": self.pidfile, "ids": self.ids, "errorlog": self.errorlog}
        # unset user/group = not configured at all
        lines = [l for l in txt.splitlines() if l not in ("user = None", "group = None")]
        if c.get("via", "file") in ("cli", "env"):
            # the identity comes from the command line / from GUNICORN_CMD_ARGS, not from the file (see identity_args)
            lines = [l for l in lines if not l.startswith(("user = ", "group = ", "initgroups = "))]
        if c.get("via") == "cwdfile":
            lines.append("chdir = %r" % self.appdir)
        with open(os.path.join(self.dir, "gunicorn.conf.py" if c.get("via") == "cwdfile" else "conf.py"), "w") as fh:
            fh.write("\n".join(lines) + "\n")

    def identity_args(self):
        c = self.conf
        out = []
        if c.get("user") is not None:
            out += ["--user", str(c["user"])]
        if c.get("group") is not None:
            out += ["--group", str(c["group"])]
        if c.get("ig"):
            out += ["--initgroups"]
        return out

    def start(self):
        env = vlib.impl_env()
        env["PYTHONDONTWRITEBYTECODE"] = "1"
        via = self.conf.get("via", "file")
        extra = []
        if via == "cli":
            extra = self.identity_args()
        elif via == "env":
            env["GUNICORN_CMD_ARGS"] = " ".join(self.identity_args())
        mg = self.master_groups

        ft = self.fake_text

        def pre():
            os.setsid()
            if ft is not None:
                enter_fake_group_db(ft)
            if mg is not None:
                os.setgroups(mg)
        conf_args = [] if via == "cwdfile" else ["-c", os.path.join(self.dir, "conf.py")]
        self.proc = subprocess.Popen([sys.executable, os.path.join(self.dir, "c20run.py")] + conf_args + extra + ["c20app:app"],
                                     cwd=self.dir, env=env, stdout=open(os.path.join(self.dir, "stdout.txt"), "wb"),
                                     stderr=open(os.path.join(self.dir, "stderr.txt"), "wb"), preexec_fn=pre)
        self.table = [self.proc.pid]
        self.masters = [self.proc.pid]

    def alive(self, pid):
        try:
            proc_status(pid)
            return True
        except (OSError, KeyError):
            return False

    def tree(self):
        """All live processes below the first master (and the first master), pid -> ppid."""
        out = {}
        roots = [self.table[0]] + [m for m in self.masters[1:]]
        todo = list(roots)
        while todo:
            p = todo.pop()
            if p in out or not self.alive(p):
                continue
            try:
                out[p] = proc_status(p)["ppid"]
            except (OSError, KeyError):
                continue
            todo.extend(proc_children(p))
        return out

    def refresh(self):
        """Register processes that appeared since the last look, in order of creation."""
        t = self.tree()
        new = [p for p in t if p not in self.table]
        new.sort(key=lambda p: (proc_starttime(p) or 0, p))
        for p in new:
            self.table.append(p)
        # a re-executed master announces itself through <pidfile>.2
        for suffix in (".2", ""):
            try:
                with open(self.pidfile + suffix) as fh:
                    mp = int(fh.read().strip())
                if mp in t and mp not in self.masters:
                    self.masters.append(mp)
            except (OSError, ValueError):
                pass
        return t

    def snapshot(self):
        """-> list of (master pid, creds, [(worker pid, creds, load-time creds or None)])"""
        t = self.refresh()
        snap = []
        for m in self.masters:
            if m not in t:
                continue
            try:
                mc = creds_of_status(proc_status(m))
            except (OSError, KeyError):
                continue
            ws = []
            for p in self.table:
                if p in t and t[p] == m and p not in self.masters:
                    try:
                        wc = creds_of_status(proc_status(p))
                    except (OSError, KeyError):
                        continue
                    load = None
                    try:
                        with open(os.path.join(self.ids, "load-%d.json" % p)) as fh:
                            load = json.load(fh)
                    except (OSError, ValueError):
                        pass
                    ws.append((p, wc, load))
            snap.append((m, mc, ws))
        return snap

    def settle(self, want, timeout=12.0):
        """Wait until the live masters / workers-per-master counts equal `want` (a list of worker
        counts, one per live master, every worker having loaded the application) and stay so."""
        deadline = time.time() + timeout
        stable = 0
        snap = None
        while time.time() < deadline:
            snap = self.snapshot()
            got = [len(ws) for _, _, ws in snap]
            loaded = all(load is not None for _, _, ws in snap for _, _, load in ws)
            if got == want and loaded:
                stable += 1
                if stable >= 3:
                    return snap, True
            else:
                stable = 0
            time.sleep(0.15)
        return self.snapshot(), False

    def request(self, n=12):
        """GET / a few times; returns the identity documents the application sent."""
        docs = []
        for _ in range(n):
            try:
                c = socket.socket(socket.AF_UNIX, socket.SOCK_STREAM)
                c.settimeout(3)
                c.connect(self.sock)
                c.sendall(b"GET / HTTP/1.1\r\nHost: x\r\nConnection: close\r\n\r\n")
                data = b""
                while True:
                    chunk = c.recv(65536)
                    if not chunk:
                        break
                    data += chunk
                c.close()
                body = data.split(b"\r\n\r\n", 1)[1]
                docs.append(json.loads(body.decode()))
            except (OSError, ValueError, IndexError) as e:
                docs.append({"error": repr(e)})
        return docs

    def request_as(self, uid, gid):
        """Connect to the socket from a process with the worker's identity (what a same-user front
        end would do); returns True/False/None(error)."""
        path = self.sock

        def fn(finish):
            os.setgroups([])
            os.setgid(gid)
            os.setuid(uid)
            c = socket.socket(socket.AF_UNIX, socket.SOCK_STREAM)
            c.settimeout(3)
            try:
                c.connect(path)
                finish({"ok": 1})
            except PermissionError:
                finish({"ok": 0})
            except OSError as e:
                finish({"ok": None, "err": repr(e)})
        try:
            res, _ = run_child(fn, timeout=10)
            return res["ok"]
        except ChildFailure:
            return None

    def sock_stat(self):
        try:
            st = os.stat(self.sock)
            return [st.st_uid, st.st_gid, stat.S_IMODE(st.st_mode)]
        except OSError:
            return None

    def log_tail(self, n=25):
        lines = []
        for f in (os.path.join(self.dir, "stderr.txt"), self.errorlog):
            try:
                with open(f, errors="replace") as fh:
                    lines += fh.read().splitlines()
            except OSError:
                pass
        return lines[-n:]

    def stop(self):
        t = {}
        try:
            t = self.tree()
        except Exception:
            pass
        for p in list(t) + list(self.table):
            try:
                os.kill(p, signal.SIGKILL)
            except OSError:
                pass
        if self.proc is not None:
            try:
                os.killpg(self.proc.pid, signal.SIGKILL)
            except OSError:
                pass
            try:
                self.proc.wait(timeout=5)
            except Exception:
                pass
        shutil.rmtree(self.dir, ignore_errors=True)
