import importlib
import json
import os
import sys
import time
import traceback

import vlib


def usage():
    print(__doc__ or "usage: check <Cxx> quick|thorough | --setup | --selftest", file=sys.stderr)
    sys.exit(2)


def setup():
    """Cold build of the whole development (all property files)."""
    ctx = vlib.Ctx("setup", "quick", 0)
    t0 = time.time()
    with vlib.locked(ctx.bdir / ".lock"):
        ctx.sync_sources()
        rc, out = ctx.make(["all"], timeout=3600)
    sys.stdout.write(out[-6000:])
    print("[setup] coq build rc=%d in %.1fs (%s)" % (rc, time.time() - t0, ctx.bdir))
    # a failure here is not fatal for setup: the per-property checks report it as a violation
    return 0


def main(argv):
    if len(argv) >= 1 and argv[0] == "--setup":
        return setup()
    if len(argv) >= 1 and argv[0] == "--selftest":
        import selftest
        return selftest.main(argv[1:])
    if len(argv) < 2:
        usage()
    prop = argv[0]
    seed = int(os.environ.get("VERIF_SEED", "20261001"))
    if argv[1] == "--replay":
        mod = importlib.import_module("props.%s" % prop.lower())
        with open(argv[2]) as fh:
            rep = json.load(fh)
        vlib.assert_repo_imported()
        return mod.replay(rep)
    tier = argv[1]
    if tier not in ("quick", "thorough"):
        tier = os.environ.get("VERIF_TIER", "quick")
    vlib.assert_repo_imported()
    ctx = vlib.Ctx(prop, tier, seed)
    watchdog(ctx, tier)
    try:
        mod = importlib.import_module("props.%s" % prop.lower())
        mod.run(ctx)
    except Exception:
        tb = traceback.format_exc()
        ctx.log("HARNESS ERROR:\n" + tb)
        ctx.broken.append("harness error (the check itself no longer runs against this tree): " + tb[-1500:])
    return ctx.finish()


def watchdog(ctx, tier):
    """A check that does not come back is of no use: when the time budget of the tier is used up (a change that makes the
    implementation loop for ever on some input, typically) the check is reported as broken - with the place where the main
    thread was - instead of hanging.  VERIF_BUDGET_S overrides the budget (quick 1500 s, thorough 5 h)."""
    import threading
    budget = float(os.environ.get("VERIF_BUDGET_S") or (1500 if tier == "quick" else 18000))
    main_id = threading.main_thread().ident

    def fire():
        frame = sys._current_frames().get(main_id)
        where = "".join(traceback.format_stack(frame)[-8:]) if frame is not None else "?"
        ctx.log("WATCHDOG: the check did not finish within %.0f s" % budget)
        ctx.broken.append("the check did not finish within its time budget of %.0f s (the implementation, or the harness, does not "
                          "terminate on some case); the main thread was at:\n%s" % (budget, where[-1800:]))
        try:
            rc = ctx.finish()
        except Exception:
            rc = 1
        sys.stdout.flush()
        os._exit(rc or 1)
    t = threading.Timer(budget, fire)
    t.daemon = True
    t.start()


if __name__ == "__main__":
    sys.exit(main(sys.argv[1:]))
