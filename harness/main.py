import importlib
import json
import os
import sys
import time
import traceback

import vlib


def usage():
    print(__doc__ or "usage: check <Cxx> quick|thorough | --setup | --selftest", file=sys.stderr)
    sys.exit(2)


def setup():
    """Cold build of the whole development (all property files)."""
    ctx = vlib.Ctx("setup", "quick", 0)
    t0 = time.time()
    with vlib.locked(ctx.bdir / ".lock"):
        ctx.sync_sources()
        rc, out = ctx.make(["all"], timeout=3600)
    sys.stdout.write(out[-6000:])
    print("[setup] coq build rc=%d in %.1fs (%s)" % (rc, time.time() - t0, ctx.bdir))
    # a failure here is not fatal for setup: the per-property checks report it as a violation
    return 0


def main(argv):
    if len(argv) >= 1 and argv[0] == "--setup":
        return setup()
    if len(argv) >= 1 and argv[0] == "--selftest":
        import selftest
        return selftest.main(argv[1:])
    if len(argv) < 2:
        usage()
    prop = argv[0]
    seed = int(os.environ.get("VERIF_SEED", "20261001"))
    if argv[1] == "--replay":
        mod = importlib.import_module("props.%s" % prop.lower())
        with open(argv[2]) as fh:
            rep = json.load(fh)
        vlib.assert_repo_imported()
        return mod.replay(rep)
    tier = argv[1]
    if tier not in ("quick", "thorough"):
        tier = os.environ.get("VERIF_TIER", "quick")
    vlib.assert_repo_imported()
    ctx = vlib.Ctx(prop, tier, seed)
    try:
        mod = importlib.import_module("props.%s" % prop.lower())
        mod.run(ctx)
    except Exception:
        tb = traceback.format_exc()
        ctx.log("HARNESS ERROR:\n" + tb)
        ctx.broken.append("harness error (the check itself no longer runs against this tree): " + tb[-1500:])
    return ctx.finish()


if __name__ == "__main__":
    sys.exit(main(sys.argv[1:]))
